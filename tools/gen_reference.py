#!/usr/bin/env python3
'''Freezes what the checkers were validated against (the pinned tree with its
"fix:" commits): the qualified names of its functions
(sa/reference_functions.json: helpers that are NOT in it were introduced by a
later change and may be inlined by sa/inline.py) and the digests of its
sources (sa/reference_digests.json: the mutant / twin self-test is only
conclusive - and only fatal - on files that are byte-identical to them).
Run after every commit in /repo.'''
import ast
import hashlib
import json
import os

VERIF = os.path.dirname(os.path.dirname(os.path.abspath(__file__)))
REPO = os.environ.get('VERIF_REPO', '/repo')
funcs, digests = {}, {}
for dpath, _dirs, files in os.walk(os.path.join(REPO, 'valjean')):
    for fname in sorted(files):
        if not fname.endswith('.py'):
            continue
        path = os.path.join(dpath, fname)
        rel = os.path.relpath(path, REPO)
        src = open(path, encoding='utf-8').read()
        digests[rel] = hashlib.sha256(src.encode('utf-8')).hexdigest()
        names = []

        def visit(body, prefix):
            for node in body:
                if isinstance(node, (ast.FunctionDef, ast.AsyncFunctionDef)):
                    names.append(prefix + node.name)
                    # closures: Outer.inner
                    todo = list(node.body)
                    while todo:
                        sub = todo.pop()
                        if isinstance(sub, (ast.FunctionDef,
                                            ast.AsyncFunctionDef)):
                            visit([sub], prefix + node.name + '.')
                        elif not isinstance(sub, (ast.ClassDef, ast.Lambda)):
                            todo.extend(ast.iter_child_nodes(sub))
                elif isinstance(node, ast.ClassDef):
                    visit(node.body, prefix + node.name + '.')
        visit(ast.parse(src).body, '')
        funcs[rel] = sorted(names)
for name, data in (('reference_functions.json', funcs),
                   ('reference_digests.json', digests)):
    with open(os.path.join(VERIF, 'sa', name), 'w', encoding='utf-8') as fil:
        json.dump(data, fil, indent=0, sort_keys=True)
        fil.write('\n')
print(len(funcs), 'files,', sum(len(v) for v in funcs.values()), 'functions')
