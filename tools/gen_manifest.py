#!/usr/bin/env python3
'''Regenerates /verif/MANIFEST.json from the property modules that exist in
sa/props (claimed) and tools/not_applicable.json (not claimed).'''
import importlib
import json
import os
import sys

VERIF = os.path.dirname(os.path.dirname(os.path.abspath(__file__)))
sys.path.insert(0, VERIF)

BASELINE = ('cd /repo && /venv/bin/python -m pytest -ra -q -p no:cacheprovider'
            ' --timeout=900 --continue-on-collection-errors')


def main():
    props = [json.loads(l) for l in open(os.path.join(VERIF,
                                                      'properties.jsonl'))]
    na_path = os.path.join(VERIF, 'tools', 'not_applicable.json')
    na = json.load(open(na_path)) if os.path.exists(na_path) else {}
    checks, not_app = [], []
    for prop in props:
        pid = prop['id']
        try:
            mod = importlib.import_module(f'sa.props.{pid}')
        except ImportError:
            mod = None
        if mod is None or pid in na:
            not_app.append({'property_id': pid, 'reason': na.get(
                pid, 'checker not built yet (work in progress)')})
            continue
        checks.append({
            'property_id': pid,
            'quick_cmd': f'./check {pid} --tier quick',
            'thorough_cmd': f'./check {pid} --tier thorough',
            'evidence_file': f'/verif/evidence/{pid}.json',
            'replay_cmd_template': f'./check {pid} --replay {{path}}',
            'engine': 'sa',
            'level_claimed': {
                'category': 'other',
                'text': ' '.join(mod.CLAIM.split()),
                'design_ref': f'DESIGN.md section 5 ({pid})',
            },
            'level_note': 'Static analysis of /repo/valjean source (ast, '
                          'own CFG / abstract domains); decides the '
                          'structural clauses named above, not the run-time '
                          'behaviour. Assumes: ' + '; '.join(
                              getattr(mod, 'ASSUMPTIONS', [])),
            'technique': getattr(mod, 'TECHNIQUE',
                                 'static analysis: AST site queries + CFG '
                                 'path/dataflow rules + abstract domains'),
        })
    manifest = {
        'version': 1,
        'setup_cmd': 'true',
        'hooks': {
            'guard': 'VALJEAN_VERIF',
            'enable': 'no hooks: the checks read the source of /repo, '
                      'nothing is built or instrumented',
            'baseline_off_cmd': BASELINE,
            'source_commits': [],
            'add_only': True,
        },
        'engines': [{
            'name': 'sa',
            'path': '/verif/sa',
            'serves_properties': [c['property_id'] for c in checks],
            'kind_free_text': 'repository-specific static analyser, pure '
                              'standard library (ast + own loader/resolver,'
                              ' CFG with exceptional edges, path '
                              'interpreters, abstract domains), self-tested '
                              'by AST-computed mutants and twins of the '
                              'current source',
        }],
        'checks': checks,
        'not_applicable': not_app,
        'notes': 'Exit codes: 0 holds / known finding, 1 VIOLATION, 2 '
                 'ANALYSIS-ERROR (anchor vanished or self-test failed). '
                 'Fixes of genuine defects are "fix:" commits in /repo, '
                 'listed in known_findings.json as fixed.',
    }
    with open(os.path.join(VERIF, 'MANIFEST.json'), 'w') as fil:
        json.dump(manifest, fil, indent=1)
        fil.write('\n')
    print(f'{len(checks)} checks, {len(not_app)} not applicable')


if __name__ == '__main__':
    main()
