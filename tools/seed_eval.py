#!/usr/bin/env python3
'''Triage of a candidate seeded change (not a check).

usage: seed_eval.py <prop> <patch.diff> <demo.py> [--tests] [--props C01,C02]

1. fresh detached worktree of /repo HEAD under /tmp
2. demo on the clean tree must exit 0
3. patch applied (git apply), demo must exit non-zero
4. (--tests) pinned test-suite on the patched tree must keep the baseline
5. every claimed check (quick tier, --no-evidence) with VERIF_REPO=<worktree>
6. worktree removed
Prints a JSON summary on the last line.'''
import json
import os
import subprocess
import sys
import tempfile

VERIF = os.path.dirname(os.path.dirname(os.path.abspath(__file__)))


def run(cmd, cwd=None, env=None, timeout=3600):
    proc = subprocess.run(cmd, cwd=cwd, env=env, capture_output=True,
                          text=True, timeout=timeout)
    return proc.returncode, proc.stdout + proc.stderr


def main():
    prop, patch, demo = sys.argv[1:4]
    opts = sys.argv[4:]
    tests = '--tests' in opts
    tier = 'thorough' if '--thorough' in opts else 'quick'
    props = None
    for opt in opts:
        if opt.startswith('--props='):
            props = opt.split('=', 1)[1].split(',')
    patch, demo = os.path.abspath(patch), os.path.abspath(demo)
    wt = tempfile.mkdtemp(prefix='seedwt_', dir='/tmp')
    os.rmdir(wt)
    out = {'property': prop, 'patch': patch, 'demo': demo}
    try:
        rc, log = run(['git', '-C', '/repo', 'worktree', 'add', '--detach',
                       wt, 'HEAD'])
        assert rc == 0, log
        env = dict(os.environ, PYTHONPATH=wt, GIT_CONFIG_COUNT='1',
                   GIT_CONFIG_KEY_0='init.defaultBranch',
                   GIT_CONFIG_VALUE_0='master')
        demo_cmd = ['/venv/bin/python', demo] if not os.path.basename(
            demo).startswith('test_') else [
                '/venv/bin/python', '-m', 'pytest', '-q', '-p',
                'no:cacheprovider', '-c', '/dev/null', demo]
        rc, log = run(demo_cmd, cwd=wt, env=env, timeout=900)
        out['demo_clean_rc'] = rc
        out['demo_clean_tail'] = log[-400:]
        rc, log = run(['git', '-C', wt, 'apply', patch])
        out['apply_rc'] = rc
        if rc != 0:
            out['apply_log'] = log[-600:]
            print(json.dumps(out, indent=1))
            return 1
        rc, log = run(demo_cmd, cwd=wt, env=env, timeout=900)
        out['demo_patched_rc'] = rc
        out['demo_patched_tail'] = log[-600:]
        rc, log = run(['/venv/bin/python', '-c',
                       'import compileall,sys; sys.exit(0 if '
                       'compileall.compile_dir("valjean", quiet=1) else 1)'],
                      cwd=wt)
        out['compiles'] = rc == 0
        if tests:
            rc, log = run(['python3', os.path.join(VERIF, 'tools',
                                                   'baseline.py'), wt],
                          timeout=3600)
            out['tests_rc'] = rc
            out['tests_tail'] = log[-700:]
        manifest = json.load(open(os.path.join(VERIF, 'MANIFEST.json')))
        claimed = [c['property_id'] for c in manifest['checks']]
        results = {}
        cenv = dict(os.environ, VERIF_REPO=wt)
        for pid in (props or claimed):
            rc, log = run(['./check', pid, '--tier', tier, '--no-evidence'],
                          cwd=VERIF, env=cenv, timeout=1800)
            lines = [l for l in log.splitlines() if l.startswith(
                ('VIOLATION', '  rule=', '  construct', 'ANALYSIS-ERROR',
                 'KNOWN-FINDING'))]
            results[pid] = {'rc': rc, 'lines': lines[:12]}
        out['checks'] = {p: r for p, r in results.items() if r['rc'] != 0}
        out['caught_by'] = sorted(p for p, r in results.items()
                                  if r['rc'] == 1)
        out['analysis_error_in'] = sorted(p for p, r in results.items()
                                          if r['rc'] == 2)
    finally:
        run(['git', '-C', '/repo', 'worktree', 'remove', '--force', wt])
        run(['git', '-C', '/repo', 'worktree', 'prune'])
    print(json.dumps(out, indent=1))
    return 0


if __name__ == '__main__':
    sys.exit(main())
