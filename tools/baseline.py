#!/usr/bin/env python3
'''Runs the pinned test-suite of a checkout (default /repo) and compares the
passing tests with BASELINE.json stable_pass.  Triage tool, not a check.
usage: baseline.py [repo_dir] [extra pytest args...]'''
import json
import os
import subprocess
import sys
import tempfile
import xml.etree.ElementTree as ET

repo = sys.argv[1] if len(sys.argv) > 1 else '/repo'
extra = sys.argv[2:]
base = json.load(open('/root/.vp/BASELINE.json'))
want = set(base['stable_pass'])
fd, xml = tempfile.mkstemp(suffix='.xml')
os.close(fd)
cmd = ['/venv/bin/python', '-m', 'pytest', '-ra', '-q', '-p',
       'no:cacheprovider', '--timeout=900',
       '--continue-on-collection-errors', f'--junitxml={xml}'] + extra
# the sandbox's global git config sets init.defaultBranch=main, the tests
# of CheckoutTask expect git's historical default
env = dict(os.environ, GIT_CONFIG_COUNT='1',
           GIT_CONFIG_KEY_0='init.defaultBranch',
           GIT_CONFIG_VALUE_0='master')
proc = subprocess.run(cmd, cwd=repo, capture_output=True, text=True, env=env)
passed = set()
for case in ET.parse(xml).getroot().iter('testcase'):
    if not any(ch.tag in ('failure', 'error', 'skipped') for ch in case):
        passed.add(f"{case.get('classname')}::{case.get('name')}")
os.unlink(xml)
missing = sorted(want - passed)
print(f'passed={len(passed)} baseline={len(want)} '
      f'baseline-tests-not-passing={len(missing)}')
for mis in missing[:40]:
    print('  MISSING', mis)
sys.exit(1 if missing else 0)
