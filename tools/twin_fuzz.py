#!/usr/bin/env python3
'''Robustness sweep of the checkers against behaviour-preserving rewrites
("generic twins").  For every function of the files a property is anchored
in, a handful of semantics-preserving AST transformations is applied in
memory (overlay), the rules of the property are re-run, and the outcome is
compared with the unchanged tree:

  new VIOLATION      -> FALSE ALARM of the checker (must be fixed)
  ANALYSIS-ERROR     -> brittle: the rule lost its anchor (reported apart)

Transformations: rename the locals of the function; swap the operands of
== / != / is / is not; `a if c else b` -> `b if not c else a`; `if c: A else:
B` -> `if not c: B else: A`; insert an unused local assignment; drop the
docstring.

usage: twin_fuzz.py [--props C01,C02] [--jobs N] [--out FILE]
Triage tool: no registered command depends on it.'''
import ast
import copy
import json
import os
import sys
import time
from concurrent.futures import ProcessPoolExecutor

VERIF = os.path.dirname(os.path.dirname(os.path.abspath(__file__)))
sys.path.insert(0, VERIF)

from sa.loader import Program, AnalysisError      # noqa: E402
from sa.report import VIOLATED                     # noqa: E402
from sa.run import run_rules                       # noqa: E402
import importlib                                   # noqa: E402


# ------------------------------------------------------------ transforms --

def _locals_of(func):
    names = set()
    params = {a.arg for a in func.args.posonlyargs + func.args.args +
              func.args.kwonlyargs}
    if func.args.vararg:
        params.add(func.args.vararg.arg)
    if func.args.kwarg:
        params.add(func.args.kwarg.arg)
    declared = set()
    for node in ast.walk(func):
        if isinstance(node, (ast.Global, ast.Nonlocal)):
            declared |= set(node.names)
        if isinstance(node, ast.Name) and isinstance(node.ctx, ast.Store):
            names.add(node.id)
        if isinstance(node, ast.ExceptHandler) and node.name:
            declared.add(node.name)
        if isinstance(node, (ast.FunctionDef, ast.ClassDef)) and \
                node is not func:
            declared.add(node.name)
            for sub in ast.walk(node):
                if isinstance(sub, ast.arg):
                    declared.add(sub.arg)
        if isinstance(node, (ast.Import, ast.ImportFrom)):
            for alias in node.names:
                declared.add((alias.asname or alias.name).split('.')[0])
    return names - params - declared - {'self', 'cls', '_'}


def t_rename_locals(func):
    names = _locals_of(func)
    if not names:
        return False
    mapping = {n: n + '_tw' for n in names}
    for node in ast.walk(func):
        if isinstance(node, ast.Name) and node.id in mapping:
            node.id = mapping[node.id]
    return True


def _pure(expr):
    return all(isinstance(n, (ast.Name, ast.Attribute, ast.Constant,
                              ast.Load, ast.Tuple, ast.Subscript))
               for n in ast.walk(expr))


def t_flip_equalities(func):
    done = False
    for node in ast.walk(func):
        if isinstance(node, ast.Compare) and len(node.ops) == 1 and \
                isinstance(node.ops[0], (ast.Eq, ast.NotEq, ast.Is,
                                         ast.IsNot)) and _pure(
                                             node.left) and _pure(
                                                 node.comparators[0]):
            node.left, node.comparators[0] = node.comparators[0], node.left
            done = True
    return done


def t_flip_ifexp(func):
    done = False
    for node in ast.walk(func):
        if isinstance(node, ast.IfExp):
            node.test = ast.UnaryOp(op=ast.Not(), operand=node.test)
            node.body, node.orelse = node.orelse, node.body
            done = True
    return done


def t_flip_if_else(func):
    done = False
    for node in ast.walk(func):
        if isinstance(node, ast.If) and node.orelse and not (
                len(node.orelse) == 1 and isinstance(node.orelse[0],
                                                     ast.If)):
            node.test = ast.UnaryOp(op=ast.Not(), operand=node.test)
            node.body, node.orelse = node.orelse, node.body
            done = True
    return done


def t_unused_local(func):
    idx = 1 if func.body and isinstance(func.body[0], ast.Expr) and \
        isinstance(func.body[0].value, ast.Constant) else 0
    func.body.insert(idx, ast.parse('_twin_unused = 0').body[0])
    return True


def t_drop_docstring(func):
    if func.body and isinstance(func.body[0], ast.Expr) and isinstance(
            func.body[0].value, ast.Constant) and len(func.body) > 1:
        del func.body[0]
        return True
    return False


def t_return_extract(func):
    '''return <expr>  ->  result_tw = <expr>; return result_tw   (every
    return of the function whose value is not a bare name / constant).'''
    done = False

    def rewrite(body):
        nonlocal done
        out = []
        for stmt in body:
            for fld in ('body', 'orelse', 'finalbody'):
                sub = getattr(stmt, fld, None)
                if isinstance(sub, list) and not isinstance(
                        stmt, (ast.FunctionDef, ast.AsyncFunctionDef,
                               ast.ClassDef)):
                    setattr(stmt, fld, rewrite(sub))
            for hdl in getattr(stmt, 'handlers', []) or []:
                hdl.body = rewrite(hdl.body)
            if isinstance(stmt, ast.Return) and stmt.value is not None and \
                    not isinstance(stmt.value, (ast.Name, ast.Constant)) \
                    and not any(isinstance(n, (ast.Yield, ast.YieldFrom,
                                               ast.Await))
                                for n in ast.walk(stmt.value)):
                out.append(ast.Assign(
                    targets=[ast.Name(id='result_tw', ctx=ast.Store())],
                    value=stmt.value, lineno=stmt.lineno))
                out.append(ast.Return(value=ast.Name(id='result_tw',
                                                     ctx=ast.Load())))
                done = True
            else:
                out.append(stmt)
        return out
    func.body = rewrite(func.body)
    return done


def t_demorgan(func):
    '''not (a and b) -> (not a) or (not b);  not (a or b) -> (not a) and
    (not b).'''
    done = False

    class DeM(ast.NodeTransformer):
        def visit_FunctionDef(self, node):
            return node if node is not func else self.generic_visit(node)

        def visit_UnaryOp(self, node):
            nonlocal done
            self.generic_visit(node)
            if isinstance(node.op, ast.Not) and isinstance(
                    node.operand, ast.BoolOp):
                done = True
                flip = ast.Or() if isinstance(node.operand.op, ast.And) \
                    else ast.And()
                return ast.BoolOp(op=flip, values=[
                    ast.UnaryOp(op=ast.Not(), operand=v)
                    for v in node.operand.values])
            return node
    DeM().visit(func)
    return done


def t_condition_extract(func):
    '''if <cond>: ...  ->  cond_tw<k> = <cond>; if cond_tw<k>: ...   (plain
    `if`, not `elif`; conditions without walrus).'''
    counter = [0]

    def rewrite(body):
        out = []
        for stmt in body:
            for fld in ('body', 'orelse', 'finalbody'):
                sub = getattr(stmt, fld, None)
                if isinstance(sub, list) and sub and isinstance(
                        sub[0], ast.stmt) and not isinstance(
                            stmt, (ast.FunctionDef, ast.AsyncFunctionDef,
                                   ast.ClassDef)):
                    if fld == 'orelse' and isinstance(stmt, ast.If) and \
                            len(sub) == 1 and isinstance(sub[0], ast.If):
                        # elif chain: only rewrite inside its blocks
                        sub[0].body = rewrite(sub[0].body)
                        continue
                    setattr(stmt, fld, rewrite(sub))
            for hdl in getattr(stmt, 'handlers', []) or []:
                hdl.body = rewrite(hdl.body)
            if isinstance(stmt, ast.If) and not isinstance(
                    stmt.test, (ast.Name, ast.Constant)) and not any(
                        isinstance(n, (ast.NamedExpr, ast.Yield, ast.Await))
                        for n in ast.walk(stmt.test)):
                counter[0] += 1
                name = f'cond_tw{counter[0]}'
                out.append(ast.Assign(
                    targets=[ast.Name(id=name, ctx=ast.Store())],
                    value=stmt.test, lineno=stmt.lineno))
                stmt.test = ast.Name(id=name, ctx=ast.Load())
            out.append(stmt)
        return out
    func.body = rewrite(func.body)
    return counter[0] > 0


def t_arg_extract(func):
    '''<stmt with a call argument that is itself a call / attribute chain>
    ->  arg_tw<k> = <argument>; <stmt using arg_tw<k>>   for simple
    statements (expression statements, assignments, returns); the FIRST
    positional argument of the outermost call only (evaluation order is
    unchanged: it is the first thing the statement evaluates after the
    callee expression, which must be a plain dotted name).'''
    counter = [0]

    def plain(expr):
        return isinstance(expr, ast.Name) or (
            isinstance(expr, ast.Attribute) and plain(expr.value))

    def rewrite(body):
        out = []
        for stmt in body:
            for fld in ('body', 'orelse', 'finalbody'):
                sub = getattr(stmt, fld, None)
                if isinstance(sub, list) and sub and isinstance(
                        sub[0], ast.stmt) and not isinstance(
                            stmt, (ast.FunctionDef, ast.AsyncFunctionDef,
                                   ast.ClassDef)):
                    setattr(stmt, fld, rewrite(sub))
            for hdl in getattr(stmt, 'handlers', []) or []:
                hdl.body = rewrite(hdl.body)
            call = None
            if isinstance(stmt, ast.Expr) and isinstance(stmt.value,
                                                         ast.Call):
                call = stmt.value
            elif isinstance(stmt, (ast.Assign, ast.Return)) and isinstance(
                    stmt.value, ast.Call):
                call = stmt.value
            if call is not None and plain(call.func) and call.args and \
                    isinstance(call.args[0], (ast.Call, ast.BinOp,
                                              ast.Subscript)) and not any(
                        isinstance(n, (ast.NamedExpr, ast.Yield, ast.Await,
                                       ast.Starred, ast.Lambda))
                        for n in ast.walk(call.args[0])) and not (
                            isinstance(call.func, ast.Name) and
                            call.func.id in ('super', 'isinstance', 'len')):
                counter[0] += 1
                name = f'arg_tw{counter[0]}'
                out.append(ast.Assign(
                    targets=[ast.Name(id=name, ctx=ast.Store())],
                    value=call.args[0], lineno=stmt.lineno))
                call.args[0] = ast.Name(id=name, ctx=ast.Load())
            out.append(stmt)
        return out
    func.body = rewrite(func.body)
    return counter[0] > 0


def _blocks(func):
    '''every statement list of the function (not of nested defs).'''
    out = []

    def visit(stmts):
        out.append(stmts)
        for stmt in stmts:
            if isinstance(stmt, (ast.FunctionDef, ast.AsyncFunctionDef,
                                 ast.ClassDef)):
                continue
            for fld in ('body', 'orelse', 'finalbody'):
                sub = getattr(stmt, fld, None)
                if isinstance(sub, list) and sub and isinstance(
                        sub[0], ast.stmt):
                    visit(sub)
            for hdl in getattr(stmt, 'handlers', []) or []:
                visit(hdl.body)
    visit(func.body)
    return out


def _ends_flow(stmts):
    return bool(stmts) and isinstance(stmts[-1], (ast.Return, ast.Raise,
                                                  ast.Continue, ast.Break))


def t_else_after_return(func):
    '''if c: ...; return X  else: REST   ->   if c: ...; return X   REST'''
    done = False
    for block in _blocks(func):
        idx = 0
        while idx < len(block):
            stmt = block[idx]
            if isinstance(stmt, ast.If) and stmt.orelse and _ends_flow(
                    stmt.body) and not (len(stmt.orelse) == 1 and isinstance(
                        stmt.orelse[0], ast.If)):
                rest = stmt.orelse
                stmt.orelse = []
                block[idx + 1:idx + 1] = rest
                done = True
            idx += 1
    return done


def t_return_into_else(func):
    '''if c: ...; return X   REST   ->   if c: ...; return X  else: REST
    (REST = the following statements of the same block)'''
    done = False
    for block in _blocks(func):
        for idx, stmt in enumerate(block):
            if isinstance(stmt, ast.If) and not stmt.orelse and _ends_flow(
                    stmt.body) and idx + 1 < len(block):
                stmt.orelse = block[idx + 1:]
                del block[idx + 1:]
                done = True
                break
    return done


def t_and_to_nested_if(func):
    '''if a and b: X  (no else)  ->  if a: if b: X'''
    done = False
    for node in ast.walk(func):
        if isinstance(node, ast.If) and not node.orelse and isinstance(
                node.test, ast.BoolOp) and isinstance(node.test.op, ast.And) \
                and len(node.test.values) == 2:
            first, second = node.test.values
            inner = ast.If(test=second, body=node.body, orelse=[],
                           lineno=node.lineno)
            node.test = first
            node.body = [inner]
            done = True
    return done


def t_loop_to_comprehension(func):
    '''x = []; for t in it: x.append(e)   ->   x = [e for t in it]'''
    done = False
    for block in _blocks(func):
        idx = 0
        while idx + 1 < len(block):
            first, loop = block[idx], block[idx + 1]
            if isinstance(first, ast.Assign) and len(first.targets) == 1 \
                    and isinstance(first.targets[0], ast.Name) and \
                    isinstance(first.value, ast.List) and \
                    not first.value.elts and isinstance(loop, ast.For) and \
                    not loop.orelse and len(loop.body) == 1 and isinstance(
                        loop.body[0], ast.Expr) and isinstance(
                            loop.body[0].value, ast.Call) and isinstance(
                                loop.body[0].value.func, ast.Attribute) and \
                    loop.body[0].value.func.attr == 'append' and isinstance(
                        loop.body[0].value.func.value, ast.Name) and \
                    loop.body[0].value.func.value.id == \
                    first.targets[0].id and len(
                        loop.body[0].value.args) == 1 and not any(
                            isinstance(n, ast.Name) and
                            n.id == first.targets[0].id
                            for n in ast.walk(loop.body[0].value.args[0])) \
                    and not any(isinstance(n, ast.Name) and
                                n.id == first.targets[0].id
                                for n in ast.walk(loop.iter)):
                first.value = ast.ListComp(
                    elt=loop.body[0].value.args[0],
                    generators=[ast.comprehension(
                        target=loop.target, iter=loop.iter, ifs=[],
                        is_async=0)])
                del block[idx + 1]
                done = True
            idx += 1
    return done


def t_comprehension_to_loop(func):
    '''x = [e for t in it if c]   ->   x = []; for t in it: if c: append'''
    done = False
    bound = {n.id for n in ast.walk(func) if isinstance(n, ast.Name)}
    for block in _blocks(func):
        idx = 0
        while idx < len(block):
            stmt = block[idx]
            if isinstance(stmt, ast.Assign) and len(stmt.targets) == 1 and \
                    isinstance(stmt.targets[0], ast.Name) and isinstance(
                        stmt.value, ast.ListComp) and len(
                            stmt.value.generators) == 1 and not any(
                                isinstance(n, ast.Name) and
                                n.id == stmt.targets[0].id
                                for n in ast.walk(stmt.value)):
                gen = stmt.value.generators[0]
                tnames = {n.id for n in ast.walk(gen.target)
                          if isinstance(n, ast.Name)}
                # the loop variable leaks out of a for statement: only when
                # the name is used nowhere else in the function
                others = [n for n in ast.walk(func) if isinstance(
                    n, ast.Name) and n.id in tnames and not any(
                        n is m for m in ast.walk(stmt))]
                if others:
                    idx += 1
                    continue
                name = stmt.targets[0].id
                call = ast.Expr(value=ast.Call(
                    func=ast.Attribute(value=ast.Name(id=name,
                                                      ctx=ast.Load()),
                                       attr='append', ctx=ast.Load()),
                    args=[stmt.value.elt], keywords=[]))
                body = [call]
                for cond in reversed(gen.ifs):
                    body = [ast.If(test=cond, body=body, orelse=[])]
                loop = ast.For(target=gen.target, iter=gen.iter, body=body,
                               orelse=[], lineno=stmt.lineno)
                stmt.value = ast.List(elts=[], ctx=ast.Load())
                block.insert(idx + 1, loop)
                done = True
                idx += 1
            idx += 1
    return done


TRANSFORMS = {
    'arg-extract': t_arg_extract,
    'condition-extract': t_condition_extract,
    'return-extract': t_return_extract,
    'de-morgan': t_demorgan,
    'rename-locals': t_rename_locals,
    'flip-equalities': t_flip_equalities,
    'flip-ifexp': t_flip_ifexp,
    'flip-if-else': t_flip_if_else,
    'unused-local': t_unused_local,
    'drop-docstring': t_drop_docstring,
    'else-after-return': t_else_after_return,
    'return-into-else': t_return_into_else,
    'and-to-nested-if': t_and_to_nested_if,
    'loop-to-comprehension': t_loop_to_comprehension,
    'comprehension-to-loop': t_comprehension_to_loop,
}


def _find(tree, qual):
    body = tree.body
    node = None
    for part in qual.split('.'):
        node = None
        for cand in _defs(body):
            if cand.name == part:
                node = cand
                break
        if node is None:
            return None
        body = node.body
    return node


def _defs(body):
    for node in body:
        if isinstance(node, (ast.FunctionDef, ast.AsyncFunctionDef,
                             ast.ClassDef)):
            yield node
        elif isinstance(node, (ast.If, ast.Try, ast.With, ast.For,
                               ast.While)):
            for fld in ('body', 'orelse', 'finalbody'):
                yield from _defs(getattr(node, fld, []) or [])
            for hdl in getattr(node, 'handlers', []) or []:
                yield from _defs(hdl.body)


# ------------------------------------------------------------------ jobs --

_BASE = {}


def _baseline(prop):
    if prop not in _BASE:
        module = importlib.import_module(f'sa.props.{prop}')
        prog = Program()
        ctx = run_rules(module, prog, 'quick')
        _BASE[prop] = ({o.key for o in ctx.by_outcome(VIOLATED)},
                       list(ctx.errors), prog)
    return _BASE[prop]


def job(args):
    prop, relpath, modname, qual, tname = args
    base_viol, base_err, prog = _baseline(prop)
    mod = prog.modules[modname]
    tree = copy.deepcopy(mod.tree)
    func = _find(tree, qual)
    if func is None or isinstance(func, ast.ClassDef):
        return None
    try:
        if not TRANSFORMS[tname](func):
            return None
        ast.fix_missing_locations(tree)
        src = ast.unparse(tree) + '\n'
        compile(src, relpath, 'exec', dont_inherit=True)
    except Exception as err:   # pylint: disable=broad-except
        return {'prop': prop, 'func': f'{modname}:{qual}', 't': tname,
                'result': 'transform-failed', 'detail': str(err)[:100]}
    module = importlib.import_module(f'sa.props.{prop}')
    try:
        ctx = run_rules(module, Program(overlay={relpath: src}), 'quick')
        try:
            ctx.check_not_all_undecided()
        except AnalysisError as err:
            ctx.errors.append(str(err))
    except AnalysisError as err:
        return {'prop': prop, 'func': f'{modname}:{qual}', 't': tname,
                'result': 'analysis-error', 'detail': str(err)[:200]}
    except Exception as err:   # pylint: disable=broad-except
        return {'prop': prop, 'func': f'{modname}:{qual}', 't': tname,
                'result': 'internal-error',
                'detail': f'{type(err).__name__}: {err}'[:200]}
    new = [o for o in ctx.by_outcome(VIOLATED) if o.key not in base_viol]
    # a renamed local changes the construct text of an existing known
    # violation: compare per rule counts as well
    base_rules = {}
    for key in base_viol:
        base_rules[key[0]] = base_rules.get(key[0], 0) + 1
    now_rules = {}
    for obl in ctx.by_outcome(VIOLATED):
        now_rules[obl.rule] = now_rules.get(obl.rule, 0) + 1
    more = [r for r, n in now_rules.items() if n > base_rules.get(r, 0)]
    if new and more:
        return {'prop': prop, 'func': f'{modname}:{qual}', 't': tname,
                'result': 'FALSE-ALARM',
                'detail': [list(o.key) for o in new if o.rule in more][:3]}
    errs = [e for e in ctx.errors if e not in base_err]
    if errs:
        return {'prop': prop, 'func': f'{modname}:{qual}', 't': tname,
                'result': 'analysis-error', 'detail': errs[0][:200]}
    return {'prop': prop, 'func': f'{modname}:{qual}', 't': tname,
            'result': 'silent'}


def main():
    props = None
    jobs = 16
    out = None
    for opt in sys.argv[1:]:
        if opt.startswith('--props='):
            props = opt.split('=')[1].split(',')
        if opt.startswith('--jobs='):
            jobs = int(opt.split('=')[1])
        if opt.startswith('--out='):
            out = opt.split('=')[1]
    spec = [json.loads(l) for l in open(os.path.join(VERIF,
                                                     'properties.jsonl'))]
    prog = Program()
    work = []
    for prop in spec:
        pid = prop['id']
        if props and pid not in props:
            continue
        rels = list(prop['anchors']['files'])
        # ... plus every file the rules of the property consulted at the
        # last run (evidence/<id>.json, coverage.files)
        try:
            evid = json.load(open(os.path.join(VERIF, 'evidence',
                                               f'{pid}.json')))
            rels += [r for r in evid['coverage'].get('files', {})
                     if r not in rels]
        except (OSError, ValueError, KeyError):
            pass
        for rel in rels:
            modname = rel[:-3].replace('/', '.')
            mod = prog.modules.get(modname)
            if mod is None:
                continue
            for qual, info in mod.functions.items():
                if info.parent is not None:
                    continue
                for tname in TRANSFORMS:
                    work.append((pid, rel, modname, qual, tname))
    print(f'{len(work)} variants', flush=True)
    start = time.time()
    results = []
    with ProcessPoolExecutor(max_workers=jobs) as pool:
        for res in pool.map(job, work, chunksize=8):
            if res is not None:
                results.append(res)
    summary = {}
    for res in results:
        key = (res['prop'], res['result'])
        summary[key] = summary.get(key, 0) + 1
    print(f'done in {time.time() - start:.0f}s; applied {len(results)}')
    for (pid, kind), num in sorted(summary.items()):
        print(f'  {pid} {kind}: {num}')
    bad = [r for r in results if r['result'] not in ('silent',)]
    for res in bad[:400]:
        print(json.dumps(res))
    if out:
        with open(out, 'w') as fil:
            json.dump({'summary': {f'{k[0]} {k[1]}': v
                                   for k, v in summary.items()},
                       'not_silent': bad}, fil, indent=1)
    return 0


if __name__ == '__main__':
    sys.exit(main())
