#!/usr/bin/env python3
'''Runs all 20 quick checks on every kept BENIGN change of /verif/benign
(behaviour-preserving changes written by sub-agents, see DESIGN section 17):
the tree is a `git archive` of /repo HEAD with the patch applied, outside /repo
and /verif, removed afterwards.  Any exit 1 is a false alarm of a checker; an
exit 2 means a rule lost its anchor.  Triage tool: no registered command
depends on it.

usage: run_benign.py [ids...]'''
import os, sys, subprocess, shutil, json
from concurrent.futures import ThreadPoolExecutor
BEN='/verif/benign'
ids=sys.argv[1:] or sorted(d for d in os.listdir(BEN) if os.path.isdir(f'{BEN}/{d}'))
PROPS=['C%02d'%i for i in range(1,21)]
root='/tmp/bw'
os.makedirs(root,exist_ok=True)
def prep(b):
    d=f'{root}/{b}'
    shutil.rmtree(d,ignore_errors=True)
    subprocess.run(['git','-C','/repo','worktree','prune'],capture_output=True)
    os.makedirs(d)
    subprocess.run(f'git -C /repo archive HEAD valjean | tar -x -C {d}',shell=True,check=True)
    r=subprocess.run(['patch','-p1','-s','-d',d,'-i',f'{BEN}/{b}/patch.diff'],capture_output=True,text=True)
    return r.returncode==0
def run(job):
    b,p=job
    env=dict(os.environ,VERIF_REPO=f'{root}/{b}')
    r=subprocess.run(['./check',p,'--tier','quick','--no-evidence'],cwd='/verif',env=env,capture_output=True,text=True)
    lines=[l for l in r.stdout.splitlines() if l.startswith(('  rule=','ANALYSIS','NOTE'))]
    return b,p,r.returncode,lines
ok=[b for b in ids if prep(b)]
print('no-apply:',[b for b in ids if b not in ok])
jobs=[(b,p) for b in ok for p in PROPS]
res={}
with ThreadPoolExecutor(14) as ex:
    for b,p,rc,lines in ex.map(run,jobs):
        if rc!=0: res.setdefault(b,[]).append((p,rc,lines))
for b in ok:
    if b in res:
        for p,rc,lines in res[b]:
            print(b,p,'rc=%d'%rc, ' | '.join(l.strip()[:150] for l in lines[:3]))
    else: print(b,'all 20 pass')
bad1=sum(1 for b in res for p,rc,l in res[b] if rc==1); bad2=sum(1 for b in res for p,rc,l in res[b] if rc==2)
print('clean:',len(ok)-len(res),'of',len(ok),' alarms(rc1):',bad1,' errors(rc2):',bad2)
for b in ok: shutil.rmtree(f'{root}/{b}',ignore_errors=True)
