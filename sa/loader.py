'''Loader and resolver: parses /repo/valjean, builds module / class / function
tables, import maps and a call resolver.  Pure standard library.

Nothing from valjean is imported or executed.
'''
import ast
import hashlib
import os

REPO = os.environ.get('VERIF_REPO', '/repo')
PKG = 'valjean'


class AnalysisError(Exception):
    '''The analyser cannot see the code it was written for (anchor vanished,
    file unparsable, ...).  Exit code 2, never a VIOLATION.'''


class FuncInfo:
    __slots__ = ('node', 'module', 'cls', 'parent', 'qual', 'name')

    def __init__(self, node, module, cls, parent, qual):
        self.node = node
        self.module = module
        self.cls = cls          # ClassInfo or None (innermost enclosing class)
        self.parent = parent    # enclosing FuncInfo or None
        self.qual = qual        # 'Env.set_status'
        self.name = node.name if hasattr(node, 'name') else '<lambda>'

    @property
    def key(self):
        return f'{self.module.name}:{self.qual}'

    @property
    def params(self):
        a = self.node.args
        return [x.arg for x in a.posonlyargs + a.args + a.kwonlyargs]

    def where(self, node=None):
        node = node or self.node
        return f'{self.module.relpath}:{getattr(node, "lineno", "?")}'

    def __repr__(self):
        return f'<fn {self.key}>'


class ClassInfo:
    __slots__ = ('node', 'module', 'qual', 'name', 'bases', 'methods',
                 'parent_cls')

    def __init__(self, node, module, qual, parent_cls):
        self.node = node
        self.module = module
        self.qual = qual
        self.name = node.name
        self.bases = []         # resolved later: list of ClassInfo or str
        self.methods = {}       # name -> FuncInfo
        self.parent_cls = parent_cls

    @property
    def key(self):
        return f'{self.module.name}:{self.qual}'

    def __repr__(self):
        return f'<class {self.key}>'


_FLIP_CMP = {ast.Lt: ast.Gt, ast.Gt: ast.Lt, ast.LtE: ast.GtE,
             ast.GtE: ast.LtE, ast.Eq: ast.Eq, ast.NotEq: ast.NotEq,
             ast.Is: ast.Is, ast.IsNot: ast.IsNot}


class _Canonical(ast.NodeTransformer):
    '''Behaviour-preserving normal form applied to every parsed module, so
    that the rules see ONE spelling of equivalent code:
      <constant> op x          ->  x op' <constant>     (single comparison)
      b if not c else a        ->  a if c else b
      if not c: B else: A      ->  if c: A else: B       (plain else only)
    Positions are kept, so reports still point at the source.'''

    def visit_Compare(self, node):
        self.generic_visit(node)
        if len(node.ops) == 1 and isinstance(node.left, ast.Constant) and \
                not isinstance(node.comparators[0], ast.Constant) and \
                type(node.ops[0]) in _FLIP_CMP:
            node.left, node.comparators[0] = node.comparators[0], node.left
            node.ops[0] = _FLIP_CMP[type(node.ops[0])]()
        return node

    def visit_IfExp(self, node):
        self.generic_visit(node)
        if isinstance(node.test, ast.UnaryOp) and isinstance(node.test.op,
                                                             ast.Not):
            node.test = node.test.operand
            node.body, node.orelse = node.orelse, node.body
        return node

    def visit_If(self, node):
        self.generic_visit(node)
        if isinstance(node.test, ast.UnaryOp) and isinstance(
                node.test.op, ast.Not) and node.orelse and not (
                    len(node.orelse) == 1 and isinstance(node.orelse[0],
                                                         ast.If)):
            node.test = node.test.operand
            node.body, node.orelse = node.orelse, node.body
        return node


def _header_exprs(stmt):
    '''The expressions a statement evaluates ONCE, before anything else it
    does: the whole of a simple statement, the test of an `if`, the iterable
    of a `for`.  (`while` re-evaluates its test; `with` is left alone.)'''
    if isinstance(stmt, ast.Return):
        return [('value', stmt.value)] if stmt.value is not None else []
    if isinstance(stmt, ast.Expr):
        return [('value', stmt.value)]
    if isinstance(stmt, (ast.Assign, ast.AugAssign, ast.AnnAssign)):
        return [('value', stmt.value)] if stmt.value is not None else []
    if isinstance(stmt, ast.Raise):
        return [('exc', stmt.exc)] if stmt.exc is not None else []
    if isinstance(stmt, ast.Assert):
        return [('test', stmt.test)]
    if isinstance(stmt, ast.If):
        return [('test', stmt.test)]
    if isinstance(stmt, ast.For):
        return [('iter', stmt.iter)]
    return []


def _single_use(stmt, name):
    '''(field, Name node) when `name` is loaded exactly once in the header
    of the statement, outside any lambda / comprehension (whose bodies are
    evaluated later or several times); else None.'''
    found = []
    for fld, expr in _header_exprs(stmt):
        deferred = set()
        for node in ast.walk(expr):
            if isinstance(node, (ast.Lambda, ast.ListComp, ast.SetComp,
                                 ast.DictComp, ast.GeneratorExp)):
                deferred |= {id(n) for n in ast.walk(node)}
        for node in ast.walk(expr):
            if isinstance(node, ast.Name) and node.id == name and \
                    isinstance(node.ctx, ast.Load):
                if id(node) in deferred:
                    return None
                found.append((fld, node))
    return found[0] if len(found) == 1 else None


def _inline_returned_temporaries(tree):
    '''x = E ; S[x]  ->  S[E]   when x is a local name stored once and
    read once, S is the NEXT statement and reads x in its header (see
    _header_exprs).  Part of the canonical normal form: a value computed
    into a temporary right before its only use.  The same temporary name
    may be used for several such pairs (`res = ..; return res` in every
    branch).'''
    for func in [n for n in ast.walk(tree)
                 if isinstance(n, (ast.FunctionDef, ast.AsyncFunctionDef))]:
        loads = {}
        stores = {}
        declared = set()
        for node in ast.walk(func):
            if isinstance(node, ast.Name):
                if isinstance(node.ctx, ast.Load):
                    loads[node.id] = loads.get(node.id, 0) + 1
                else:
                    stores[node.id] = stores.get(node.id, 0) + 1
            elif isinstance(node, (ast.Global, ast.Nonlocal)):
                declared |= set(node.names)
        params = {a.arg for a in func.args.args + func.args.kwonlyargs +
                  func.args.posonlyargs} | declared
        pairs = {}

        def is_pair(stmt, nxt):
            if isinstance(stmt, ast.Assign) and len(stmt.targets) == 1 and \
                    isinstance(stmt.targets[0], ast.Name) and \
                    nxt is not None and not any(
                        isinstance(n, (ast.Yield, ast.YieldFrom, ast.Await,
                                       ast.NamedExpr))
                        for n in ast.walk(stmt.value)):
                name = stmt.targets[0].id
                if name not in params and _single_use(nxt, name):
                    return name
            return None

        def blocks(stmt):
            for fld in ('body', 'orelse', 'finalbody'):
                sub = getattr(stmt, fld, None)
                if isinstance(sub, list) and sub and isinstance(
                        sub[0], ast.stmt) and not isinstance(
                            stmt, (ast.FunctionDef, ast.ClassDef,
                                   ast.AsyncFunctionDef)):
                    yield stmt, fld, sub
            for hdl in getattr(stmt, 'handlers', []) or []:
                yield hdl, 'body', hdl.body

        def count(body):
            for idx, stmt in enumerate(body):
                nxt = body[idx + 1] if idx + 1 < len(body) else None
                name = is_pair(stmt, nxt)
                if name is not None:
                    pairs[name] = pairs.get(name, 0) + 1
                for _own, _fld, sub in blocks(stmt):
                    count(sub)
        count(func.body)
        ok = {n for n, k in pairs.items()
              if loads.get(n, 0) == stores.get(n, 0) == k}
        if not ok:
            continue

        def rewrite(body):
            body = list(body)
            idx = 0
            while idx < len(body):
                stmt = body[idx]
                nxt = body[idx + 1] if idx + 1 < len(body) else None
                name = is_pair(stmt, nxt)
                if name in ok:
                    fld, node = _single_use(nxt, name)
                    value = stmt.value

                    class Sub(ast.NodeTransformer):
                        def visit_Name(self, cur):
                            return value if cur is node else cur
                    setattr(nxt, fld, Sub().visit(getattr(nxt, fld)))
                    if isinstance(nxt, ast.Return):
                        ast.copy_location(nxt, stmt)
                    del body[idx]
                    continue
                for own, fld, sub in blocks(stmt):
                    setattr(own, fld, rewrite(sub))
                idx += 1
            return body
        func.body = rewrite(func.body)
    return tree


class Module:
    def __init__(self, name, path, relpath, src):
        self.name = name
        self.path = path
        self.relpath = relpath
        self.src = src
        self.tree = _inline_returned_temporaries(
            _Canonical().visit(ast.parse(src, filename=path)))
        self.digest = hashlib.sha256(src.encode('utf-8')).hexdigest()
        self.functions = {}     # qual -> FuncInfo
        self.classes = {}       # qual -> ClassInfo
        self.imports = {}       # local name -> ('module', modname) | ('symbol', modname, symbol)
        self.toplevel = {}      # name -> FuncInfo | ClassInfo | ast node (assign value)
        _index_module(self)


def _resolve_relative(modname, is_pkg, level, target):
    parts = modname.split('.')
    if not is_pkg:
        parts = parts[:-1]
    if level > 1:
        parts = parts[:len(parts) - (level - 1)]
    if target:
        parts = parts + target.split('.')
    return '.'.join(parts)


def _index_module(mod):
    is_pkg = mod.path.endswith('__init__.py')

    def visit(body, cls, func, prefix):
        for node in body:
            if isinstance(node, (ast.FunctionDef, ast.AsyncFunctionDef)):
                qual = prefix + node.name
                info = FuncInfo(node, mod, cls, func, qual)
                mod.functions[qual] = info
                if cls is not None and func is None:
                    cls.methods[node.name] = info
                if cls is None and func is None:
                    mod.toplevel[node.name] = info
                # a class nested in a function or a function nested in a
                # function keeps the innermost enclosing class for `self`
                visit(node.body, cls if func is not None or cls is None
                      else cls, info, qual + '.')
            elif isinstance(node, ast.ClassDef):
                qual = prefix + node.name
                cinfo = ClassInfo(node, mod, qual, cls)
                mod.classes[qual] = cinfo
                if cls is None and func is None:
                    mod.toplevel[node.name] = cinfo
                visit(node.body, cinfo, None, qual + '.')
            elif isinstance(node, (ast.If, ast.Try, ast.With, ast.For,
                                   ast.While)):
                for fld in ('body', 'orelse', 'finalbody'):
                    visit(getattr(node, fld, []) or [], cls, func, prefix)
                for hdl in getattr(node, 'handlers', []) or []:
                    visit(hdl.body, cls, func, prefix)
            elif isinstance(node, ast.Import) and func is None and cls is None:
                for alias in node.names:
                    local = alias.asname or alias.name.split('.')[0]
                    target = alias.name if alias.asname else \
                        alias.name.split('.')[0]
                    mod.imports[local] = ('module', target)
            elif isinstance(node, ast.ImportFrom) and func is None \
                    and cls is None:
                base = _resolve_relative(mod.name, is_pkg, node.level,
                                         node.module) if node.level else \
                    node.module
                for alias in node.names:
                    mod.imports[alias.asname or alias.name] = \
                        ('symbol', base, alias.name)
            elif isinstance(node, ast.Assign) and func is None \
                    and cls is None:
                for tgt in node.targets:
                    if isinstance(tgt, ast.Name):
                        mod.toplevel[tgt.id] = node.value

    visit(mod.tree.body, None, None, '')
    # function-level imports are also useful for resolution
    for node in ast.walk(mod.tree):
        if isinstance(node, ast.ImportFrom):
            base = _resolve_relative(mod.name, is_pkg, node.level,
                                     node.module) if node.level else \
                node.module
            for alias in node.names:
                mod.imports.setdefault(alias.asname or alias.name,
                                       ('symbol', base, alias.name))
        elif isinstance(node, ast.Import):
            for alias in node.names:
                local = alias.asname or alias.name.split('.')[0]
                target = alias.name if alias.asname else \
                    alias.name.split('.')[0]
                mod.imports.setdefault(local, ('module', target))


_PARSE_CACHE = {}


class Program:
    '''All modules of the valjean package, with an optional in-memory overlay
    {relative path: source} used by canaries / mutants / twins.'''

    def __init__(self, root=None, overlay=None):
        self.root = root or REPO
        self.overlay = dict(overlay or {})
        self.modules = {}
        self.consulted = set()
        pkgdir = os.path.join(self.root, PKG)
        if not os.path.isdir(pkgdir):
            raise AnalysisError(f'package directory {pkgdir} not found')
        for dirpath, dirnames, filenames in os.walk(pkgdir):
            dirnames[:] = sorted(d for d in dirnames if d != '__pycache__')
            for fname in sorted(filenames):
                if not fname.endswith('.py'):
                    continue
                path = os.path.join(dirpath, fname)
                rel = os.path.relpath(path, self.root)
                modname = rel[:-3].replace(os.sep, '.')
                if modname.endswith('.__init__'):
                    modname = modname[:-9]
                if rel in self.overlay:
                    src = self.overlay[rel]
                    key = None
                else:
                    with open(path, encoding='utf-8') as fil:
                        src = fil.read()
                    key = (path, hashlib.sha256(src.encode()).hexdigest())
                try:
                    if key is not None and key in _PARSE_CACHE:
                        mod = _PARSE_CACHE[key]
                    else:
                        mod = Module(modname, path, rel, src)
                        if key is not None:
                            _PARSE_CACHE[key] = mod
                except SyntaxError as err:
                    raise AnalysisError(f'cannot parse {rel}: {err}') from err
                self.modules[modname] = mod
        unknown = set(self.overlay) - {m.relpath
                                       for m in self.modules.values()}
        if unknown:
            raise AnalysisError(f'overlay names unknown files: {unknown}')
        self._link_classes()

    # -- lookups ---------------------------------------------------------

    def module(self, name):
        try:
            mod = self.modules[name]
        except KeyError:
            raise AnalysisError(f'anchor module {name} not found') from None
        self.consulted.add(mod.relpath)
        return mod

    def func(self, key):
        '''key = "valjean.cosette.env:Env.set_status".'''
        modname, qual = key.split(':')
        mod = self.module(modname)
        try:
            return mod.functions[qual]
        except KeyError:
            raise AnalysisError(f'anchor function {key} not found') from None

    def maybe_func(self, key):
        modname, qual = key.split(':')
        mod = self.modules.get(modname)
        if mod is None:
            return None
        self.consulted.add(mod.relpath)
        return mod.functions.get(qual)

    def cls(self, key):
        modname, qual = key.split(':')
        mod = self.module(modname)
        try:
            return mod.classes[qual]
        except KeyError:
            raise AnalysisError(f'anchor class {key} not found') from None

    def all_functions(self):
        for mod in self.modules.values():
            yield from mod.functions.values()

    def all_classes(self):
        for mod in self.modules.values():
            yield from mod.classes.values()

    def digests(self):
        return {m.relpath: m.digest[:16] for m in self.modules.values()
                if m.relpath in self.consulted}

    # -- classes ---------------------------------------------------------

    def _link_classes(self):
        for cinfo in self.all_classes():
            cinfo.bases = []
            for base in cinfo.node.bases:
                res = self.resolve_name_expr(cinfo.module, base)
                cinfo.bases.append(res if isinstance(res, ClassInfo)
                                   else ast.unparse(base))

    def mro(self, cinfo):
        out, todo = [], [cinfo]
        while todo:
            cur = todo.pop(0)
            if isinstance(cur, ClassInfo) and cur not in out:
                out.append(cur)
                todo.extend(cur.bases)
        return out

    def base_names(self, cinfo):
        '''All base names (resolved class names and unresolved texts).'''
        names, todo, seen = set(), [cinfo], set()
        while todo:
            cur = todo.pop()
            if isinstance(cur, ClassInfo):
                if cur.key in seen:
                    continue
                seen.add(cur.key)
                names.add(cur.name)
                todo.extend(cur.bases)
            else:
                names.add(cur)
        return names

    def subclasses(self, cinfo, strict=False):
        out = []
        for other in self.all_classes():
            if other is cinfo and strict:
                continue
            if cinfo in self.mro(other):
                out.append(other)
        return out

    def find_method(self, cinfo, name):
        for klass in self.mro(cinfo):
            if name in klass.methods:
                return klass.methods[name]
        return None

    # -- name resolution -------------------------------------------------

    def resolve_symbol(self, modname, symbol, depth=0):
        '''A top-level symbol of a module: FuncInfo, ClassInfo, Module, ast
        value node or None.'''
        mod = self.modules.get(modname)
        if mod is None:
            sub = self.modules.get(f'{modname}.{symbol}')
            return sub
        if symbol in mod.toplevel:
            return mod.toplevel[symbol]
        if symbol in mod.imports and depth < 5:
            imp = mod.imports[symbol]
            if imp[0] == 'module':
                return self.modules.get(imp[1])
            return self.resolve_symbol(imp[1], imp[2], depth + 1)
        return self.modules.get(f'{modname}.{symbol}')

    def resolve_name_expr(self, mod, expr, func=None):
        '''Resolve a Name / dotted Attribute expression in the scope of `mod`
        (and the nested functions of `func`) to FuncInfo / ClassInfo / Module
        / ('ext', dotted) / None.'''
        if isinstance(expr, ast.Name):
            name = expr.id
            cur = func
            while cur is not None:
                nested = mod.functions.get(cur.qual + '.' + name)
                if nested is not None:
                    return nested
                ncls = mod.classes.get(cur.qual + '.' + name)
                if ncls is not None:
                    return ncls
                cur = cur.parent
            if name in mod.toplevel:
                val = mod.toplevel[name]
                if isinstance(val, (FuncInfo, ClassInfo)):
                    return val
                return val
            if name in mod.imports:
                imp = mod.imports[name]
                if imp[0] == 'module':
                    return self.modules.get(imp[1]) or ('ext', imp[1])
                res = self.resolve_symbol(imp[1], imp[2])
                if res is None:
                    return ('ext', f'{imp[1]}.{imp[2]}')
                return res
            return None
        if isinstance(expr, ast.Attribute):
            base = self.resolve_name_expr(mod, expr.value, func)
            if isinstance(base, Module):
                res = self.resolve_symbol(base.name, expr.attr)
                return res
            if isinstance(base, ClassInfo):
                meth = self.find_method(base, expr.attr)
                if meth is not None:
                    return meth
                nested = base.module.classes.get(base.qual + '.' + expr.attr)
                return nested
            if isinstance(base, tuple) and base[0] == 'ext':
                return ('ext', base[1] + '.' + expr.attr)
            return None
        return None

    def unique_method(self, name):
        '''The only method of that name in the package, or None.'''
        found = [c.methods[name] for c in self.all_classes()
                 if name in c.methods]
        return found[0] if len(found) == 1 else None

    def resolve_call(self, func, call, self_types=None):
        '''Resolve the callee of `call` occurring in `func`.  Returns a list
        of FuncInfo (possibly empty) and a tag describing how.'''
        mod = func.module
        fexpr = call.func
        # functools.partial(f, ...)(...) is not used in the repo
        if isinstance(fexpr, ast.Name):
            res = self.resolve_name_expr(mod, fexpr, func)
            if isinstance(res, FuncInfo):
                return [res], 'name'
            if isinstance(res, ClassInfo):
                init = self.find_method(res, '__init__')
                return ([init] if init else []), 'ctor'
            return [], 'unknown'
        if isinstance(fexpr, ast.Attribute):
            recv = fexpr.value
            # super().m(...)
            if isinstance(recv, ast.Call) and isinstance(recv.func, ast.Name) \
                    and recv.func.id == 'super' and func.cls is not None:
                for klass in self.mro(func.cls)[1:]:
                    if fexpr.attr in klass.methods:
                        return [klass.methods[fexpr.attr]], 'super'
                return [], 'unknown'
            if isinstance(recv, ast.Name) and recv.id in ('self', 'cls') \
                    and func.cls is not None:
                owner = func.cls
                # method of the innermost class of the function that has a
                # self parameter
                meth = self.find_method(owner, fexpr.attr)
                if meth is not None:
                    # include overrides in subclasses
                    out = [meth]
                    for sub in self.subclasses(owner, strict=True):
                        if fexpr.attr in sub.methods and \
                                sub.methods[fexpr.attr] not in out:
                            out.append(sub.methods[fexpr.attr])
                    return out, 'self'
                return [], 'unknown'
            res = self.resolve_name_expr(mod, fexpr, func)
            if isinstance(res, FuncInfo):
                return [res], 'dotted'
            if isinstance(res, ClassInfo):
                init = self.find_method(res, '__init__')
                return ([init] if init else []), 'ctor'
            if isinstance(res, tuple):
                return [], 'ext:' + res[1]
            # typed receivers supplied by the rule
            if self_types:
                rtxt = ast.unparse(recv)
                if rtxt in self_types:
                    meth = self.find_method(self_types[rtxt], fexpr.attr)
                    if meth is not None:
                        return [meth], 'typed'
            uniq = self.unique_method(fexpr.attr)
            if uniq is not None and not fexpr.attr.startswith('__'):
                return [uniq], 'by-unique-name'
            return [], 'unknown'
        return [], 'unknown'


def enclosing_function(mod, node_lineno):
    '''FuncInfo whose body contains that line (innermost).'''
    best = None
    for info in mod.functions.values():
        start = info.node.lineno
        end = getattr(info.node, 'end_lineno', start)
        if start <= node_lineno <= end:
            if best is None or info.node.lineno >= best.node.lineno:
                best = info
    return best
