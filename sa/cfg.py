'''Statement-level control-flow graph for one function, with exceptional
edges, finally duplication and lexical context on every node.

Node kinds
  entry, exit (normal return / fall off), raise (exception leaves function)
  stmt      simple statement (Expr, Assign, AugAssign, AnnAssign, Delete,
            Pass, Import, Global, Nonlocal, nested def/class)
  test      condition of if / while / assert  (edges 'true' / 'false')
  iter      for-loop header (edges 'loop' / 'exhausted')
  with      evaluation of the context managers of a with statement
  return, raisestmt, break, continue  (the statement itself, before jump)
  dispatch  exception dispatch point of a try (edges 'handler:<i>' to each
            handler, 'propagate' outwards unless a bare/BaseException handler)
  handler   entry of an except clause

Edge labels: '', 'true', 'false', 'loop', 'exhausted', 'exc', 'handler:i',
'propagate', 'back' is NOT a label: back edges are recorded in cfg.back_edges.
'''
import ast

SIMPLE = (ast.Expr, ast.Assign, ast.AugAssign, ast.AnnAssign, ast.Delete,
          ast.Pass, ast.Import, ast.ImportFrom, ast.Global, ast.Nonlocal,
          ast.FunctionDef, ast.AsyncFunctionDef, ast.ClassDef)


class Node:
    __slots__ = ('id', 'kind', 'ast', 'ctx', 'succ', 'pred', 'extra')

    def __init__(self, nid, kind, node, ctx):
        self.id = nid
        self.kind = kind
        self.ast = node
        self.ctx = ctx          # tuple of (compound ast node, field) pairs
        self.succ = []          # list of (Node, label)
        self.pred = []
        self.extra = None

    @property
    def lineno(self):
        return getattr(self.ast, 'lineno', None)

    def text(self, limit=100):
        if self.ast is None:
            return self.kind
        if self.kind == 'test':
            txt = ast.unparse(self.ast)
        elif self.kind == 'iter':
            txt = f'for {ast.unparse(self.ast.target)} in ' \
                  f'{ast.unparse(self.ast.iter)}'
        elif self.kind == 'with':
            txt = 'with ' + ', '.join(ast.unparse(i) for i in self.ast.items)
        elif self.kind in ('dispatch', 'handler'):
            txt = self.kind
        else:
            txt = ast.unparse(self.ast)
        txt = ' '.join(txt.split())
        return txt if len(txt) <= limit else txt[:limit - 3] + '...'

    def __repr__(self):
        return f'<{self.id}:{self.kind}:{self.text(40)}@{self.lineno}>'


def default_may_raise(stmt_or_expr):
    '''Conservative: anything containing a call, subscript, attribute
    access, binary operation, or being a raise/assert may raise.'''
    if stmt_or_expr is None:
        return False
    for sub in ast.walk(stmt_or_expr):
        if isinstance(sub, (ast.Call, ast.Subscript, ast.Attribute, ast.BinOp,
                            ast.Raise, ast.Assert, ast.Compare, ast.Await,
                            ast.Starred)):
            return True
        if isinstance(sub, (ast.Assign,)) and any(
                isinstance(t, (ast.Tuple, ast.List)) for t in sub.targets):
            return True
    return False


class CFG:
    def __init__(self, funcnode, may_raise=default_may_raise):
        self.func = funcnode
        self.nodes = []
        self.may_raise = may_raise
        self.back_edges = set()      # (src id, dst id)
        self.entry = self._new('entry', None, ())
        self.exit = self._new('exit', None, ())
        self.raise_exit = self._new('raise', None, ())
        frame = _Frame(exc=self.raise_exit, ret=self.exit, brk=None,
                       cont=None)
        body = funcnode.body if not isinstance(funcnode, ast.Lambda) else \
            [ast.Return(value=funcnode.body, lineno=funcnode.lineno,
                        col_offset=0)]
        last = self._block(body, [(self.entry, '')], frame, ())
        self._connect(last, self.exit)

    # -- construction ----------------------------------------------------

    def _new(self, kind, node, ctx):
        nod = Node(len(self.nodes), kind, node, ctx)
        self.nodes.append(nod)
        return nod

    @staticmethod
    def _edge(src, dst, label):
        if (dst, label) not in src.succ:
            src.succ.append((dst, label))
            dst.pred.append((src, label))

    def _connect(self, pending, dst):
        for src, label in pending:
            self._edge(src, dst, label)

    def _block(self, stmts, pending, frame, ctx):
        '''Builds the statements; `pending` is a list of (node, label) whose
        successor is the next node built.  Returns the new pending list.'''
        for stmt in stmts:
            if not pending:
                # unreachable code: still build it (disconnected)
                pass
            pending = self._stmt(stmt, pending, frame, ctx)
        return pending

    def _exc_edge(self, node, frame, what):
        if self.may_raise(what):
            self._edge(node, frame.exc, 'exc')

    def _stmt(self, stmt, pending, frame, ctx):
        if isinstance(stmt, SIMPLE):
            nod = self._new('stmt', stmt, ctx)
            self._connect(pending, nod)
            if not isinstance(stmt, (ast.FunctionDef, ast.AsyncFunctionDef,
                                     ast.ClassDef, ast.Pass, ast.Global,
                                     ast.Nonlocal)):
                self._exc_edge(nod, frame, stmt)
            return [(nod, '')]
        if isinstance(stmt, ast.Return):
            nod = self._new('return', stmt, ctx)
            self._connect(pending, nod)
            self._exc_edge(nod, frame, stmt.value)
            self._edge(nod, frame.ret, '')
            return []
        if isinstance(stmt, ast.Raise):
            nod = self._new('raisestmt', stmt, ctx)
            self._connect(pending, nod)
            self._edge(nod, frame.exc, 'exc')
            return []
        if isinstance(stmt, ast.Break):
            nod = self._new('break', stmt, ctx)
            self._connect(pending, nod)
            self._edge(nod, frame.brk, '')
            return []
        if isinstance(stmt, ast.Continue):
            nod = self._new('continue', stmt, ctx)
            self._connect(pending, nod)
            self._edge(nod, frame.cont, '')
            self.back_edges.add((nod.id, frame.cont.id))
            return []
        if isinstance(stmt, ast.Assert):
            nod = self._new('test', stmt.test, ctx)
            nod.extra = stmt
            self._connect(pending, nod)
            self._exc_edge(nod, frame, stmt.test)
            fail = self._new('raisestmt', stmt, ctx)
            self._edge(nod, fail, 'false')
            self._edge(fail, frame.exc, 'exc')
            return [(nod, 'true')]
        if isinstance(stmt, ast.If):
            nod = self._new('test', stmt.test, ctx)
            nod.extra = stmt
            self._connect(pending, nod)
            self._exc_edge(nod, frame, stmt.test)
            out = self._block(stmt.body, [(nod, 'true')], frame,
                              ctx + ((stmt, 'body'),))
            out += self._block(stmt.orelse, [(nod, 'false')], frame,
                               ctx + ((stmt, 'orelse'),))
            return out
        if isinstance(stmt, ast.While):
            head = self._new('test', stmt.test, ctx)
            head.extra = stmt
            self._connect(pending, head)
            self._exc_edge(head, frame, stmt.test)
            after = self._new('stmt', ast.Pass(lineno=getattr(
                stmt, 'end_lineno', stmt.lineno), col_offset=0), ctx)
            after.kind = 'join'
            inner = frame.replace(brk=after, cont=head)
            body_out = self._block(stmt.body, [(head, 'true')], inner,
                                   ctx + ((stmt, 'body'),))
            for src, label in body_out:
                self._edge(src, head, label)
                self.back_edges.add((src.id, head.id))
            const_true = isinstance(stmt.test, ast.Constant) and \
                bool(stmt.test.value)
            else_in = [] if const_true else [(head, 'false')]
            else_out = self._block(stmt.orelse, else_in, frame,
                                   ctx + ((stmt, 'orelse'),))
            self._connect(else_out, after)
            return [(after, '')]
        if isinstance(stmt, (ast.For, ast.AsyncFor)):
            head = self._new('iter', stmt, ctx)
            self._connect(pending, head)
            self._exc_edge(head, frame, stmt.iter)
            after = self._new('stmt', ast.Pass(lineno=getattr(
                stmt, 'end_lineno', stmt.lineno), col_offset=0), ctx)
            after.kind = 'join'
            inner = frame.replace(brk=after, cont=head)
            body_out = self._block(stmt.body, [(head, 'loop')], inner,
                                   ctx + ((stmt, 'body'),))
            for src, label in body_out:
                self._edge(src, head, label)
                self.back_edges.add((src.id, head.id))
            else_out = self._block(stmt.orelse, [(head, 'exhausted')], frame,
                                   ctx + ((stmt, 'orelse'),))
            self._connect(else_out, after)
            return [(after, '')]
        if isinstance(stmt, (ast.With, ast.AsyncWith)):
            nod = self._new('with', stmt, ctx)
            self._connect(pending, nod)
            self._exc_edge(nod, frame, ast.Tuple(
                elts=[i.context_expr for i in stmt.items], ctx=ast.Load()))
            return self._block(stmt.body, [(nod, '')], frame,
                               ctx + ((stmt, 'body'),))
        if isinstance(stmt, ast.Try) or (hasattr(ast, 'TryStar') and
                                         isinstance(stmt, ast.TryStar)):
            return self._try(stmt, pending, frame, ctx)
        if hasattr(ast, 'Match') and isinstance(stmt, ast.Match):
            nod = self._new('stmt', stmt.subject, ctx)
            self._connect(pending, nod)
            out = []
            for case in stmt.cases:
                out += self._block(case.body, [(nod, 'case')], frame,
                                   ctx + ((stmt, 'cases'),))
            out.append((nod, 'nomatch'))
            return out
        # unknown statement kind: treat as simple
        nod = self._new('stmt', stmt, ctx)
        self._connect(pending, nod)
        self._exc_edge(nod, frame, stmt)
        return [(nod, '')]

    def _try(self, stmt, pending, frame, ctx):
        has_finally = bool(stmt.finalbody)

        def through_finally(target, tag):
            '''Returns a node to jump to that runs a copy of the finally body
            and then continues to `target`.'''
            if not has_finally or target is None:
                return target
            start = self._new('join', None, ctx + ((stmt, 'finalbody'),))
            start.extra = ('finally', tag)
            out = self._block(stmt.finalbody, [(start, '')], frame,
                              ctx + ((stmt, 'finalbody'),))
            self._connect(out, target)
            if tag == 'cont':
                for src, _ in out:
                    self.back_edges.add((src.id, target.id))
            return start

        # continuations seen from inside try body / handlers / else
        inner = frame.replace(
            exc=through_finally(frame.exc, 'exc'),
            ret=through_finally(frame.ret, 'ret'),
            brk=through_finally(frame.brk, 'brk'),
            cont=through_finally(frame.cont, 'cont'))
        if has_finally and frame.cont is not None:
            # the continue copy ends in a back edge
            pass
        out = []
        if stmt.handlers:
            dispatch = self._new('dispatch', stmt, ctx)
            body_frame = inner.replace(exc=dispatch)
            catch_all = False
            for idx, hdl in enumerate(stmt.handlers):
                hnode = self._new('handler', hdl, ctx + ((stmt, 'handlers'),))
                hnode.extra = idx
                self._edge(dispatch, hnode, f'handler:{idx}')
                if hdl.type is None or (
                        isinstance(hdl.type, ast.Name) and
                        hdl.type.id == 'BaseException'):
                    catch_all = True
                out += self._block(hdl.body, [(hnode, '')], inner,
                                   ctx + ((stmt, 'handlers'), (hdl, 'body')))
            if not catch_all:
                self._edge(dispatch, inner.exc, 'propagate')
        else:
            body_frame = inner
        body_out = self._block(stmt.body, pending, body_frame,
                               ctx + ((stmt, 'body'),))
        # else clause: exceptions there are not caught by the handlers
        body_out = self._block(stmt.orelse, body_out, inner,
                               ctx + ((stmt, 'orelse'),))
        out += body_out
        if has_finally:
            out = self._block(stmt.finalbody, out, frame,
                              ctx + ((stmt, 'finalbody'),))
        return out

    # -- queries ---------------------------------------------------------

    def reachable(self, start=None, skip_exc=False):
        start = start or self.entry
        seen, todo = {start.id}, [start]
        while todo:
            cur = todo.pop()
            for nxt, label in cur.succ:
                if skip_exc and label == 'exc':
                    continue
                if nxt.id not in seen:
                    seen.add(nxt.id)
                    todo.append(nxt)
        return seen

    def paths(self, start, stop_ids=None, follow=None, limit=20000,
              loop_once=True):
        '''Enumerate paths from `start` to the function exits (or to any node
        in stop_ids).  Back edges are followed to their target only if
        loop_once and the target was not yet visited on that path; a path
        arriving a second time at a loop head is ended there (kind 'back').
        Yields lists of (node, label_taken_to_leave_it).  `follow(node,
        label)` may veto an edge.'''
        stop_ids = stop_ids or set()
        count = 0
        stack = [(start, [], frozenset())]
        while stack:
            node, path, seen = stack.pop()
            if node.id in seen:
                yield path + [(node, 'back')]
                count += 1
                continue
            if node.kind in ('exit', 'raise') or \
                    (node.id in stop_ids and path):
                yield path + [(node, None)]
                count += 1
                if count > limit:
                    raise OverflowError('too many paths')
                continue
            nseen = seen | {node.id}
            succs = [(n, l) for n, l in node.succ
                     if follow is None or follow(node, l, n)]
            if not succs:
                yield path + [(node, 'dead')]
                count += 1
                continue
            for nxt, label in reversed(succs):
                stack.append((nxt, path + [(node, label)], nseen))

    def dominators(self, skip_exc=False):
        '''Dominator sets (ids) over reachable nodes from entry.'''
        reach = self.reachable(skip_exc=skip_exc)
        order = [n for n in self.nodes if n.id in reach]
        dom = {n.id: set(reach) for n in order}
        dom[self.entry.id] = {self.entry.id}
        changed = True
        while changed:
            changed = False
            for nod in order:
                if nod is self.entry:
                    continue
                preds = [p for p, l in nod.pred if p.id in reach and
                         not (skip_exc and l == 'exc')]
                if not preds:
                    continue
                new = set.intersection(*(dom[p.id] for p in preds)) | {nod.id}
                if new != dom[nod.id]:
                    dom[nod.id] = new
                    changed = True
        return dom

    def find(self, pred):
        return [n for n in self.nodes if pred(n)]


class _Frame:
    __slots__ = ('exc', 'ret', 'brk', 'cont')

    def __init__(self, exc, ret, brk, cont):
        self.exc, self.ret, self.brk, self.cont = exc, ret, brk, cont

    def replace(self, **kw):
        new = _Frame(self.exc, self.ret, self.brk, self.cont)
        for key, val in kw.items():
            setattr(new, key, val)
        return new


def forward_dataflow(cfg, init, transfer, join, bottom=None, edge_ok=None):
    '''Generic forward worklist solver.  `transfer(node, state_in, label)`
    returns the state on the outgoing edge `label`.  States must support ==.
    Returns {node id: state at node entry}.'''
    state = {cfg.entry.id: init}
    work = [cfg.entry]
    while work:
        nod = work.pop()
        sin = state[nod.id]
        for nxt, label in nod.succ:
            if edge_ok is not None and not edge_ok(nod, label, nxt):
                continue
            sout = transfer(nod, sin, label)
            if sout is bottom and bottom is not None:
                continue
            if nxt.id in state:
                new = join(state[nxt.id], sout)
                if new == state[nxt.id]:
                    continue
                state[nxt.id] = new
            else:
                state[nxt.id] = sout
            work.append(nxt)
    return state
