'''Command line driver:  python3 -m sa.run <ID> [--tier quick|thorough]
[--replay FILE] [--list] [--json]

Exit 0: every obligation holds (or is a listed known finding).
Exit 1: at least one "VIOLATION property=<id> replay=<path>" line.
Exit 2: ANALYSIS-ERROR (the analyser no longer sees the code, or its
        self-test failed); never a VIOLATION.
'''
import argparse
import importlib
import json
import os
import sys
import traceback

from .loader import Program, AnalysisError
from .report import (Ctx, Timer, VIOLATED, HOLDS, UNDECIDED, load_known,
                     known_entry, write_json, VERIF)

EVIDENCE_DIR = os.path.join(VERIF, 'evidence')
OUT_DIR = os.path.join(VERIF, 'out')


def run_rules(module, program, tier):
    ctx = Ctx(module.ID, program, tier)
    module.check(ctx)
    return ctx


def _changed_files(program):
    '''Consulted files whose source differs from the reference tree
    (sa/reference_digests.json).'''
    import hashlib
    try:
        with open(os.path.join(os.path.dirname(os.path.abspath(__file__)),
                               'reference_digests.json'),
                  encoding='utf-8') as fil:
            ref = json.load(fil)
    except (OSError, ValueError):
        return []
    out = []
    for mod in program.modules.values():
        if mod.relpath in program.consulted:
            dig = hashlib.sha256(mod.src.encode('utf-8')).hexdigest()
            if ref.get(mod.relpath) != dig:
                out.append(mod.relpath)
    return sorted(out)


def _unknown_violations(ctx, prop):
    known = load_known()
    return [o for o in ctx.by_outcome(VIOLATED)
            if known_entry(known, prop, o) is None]


def _boundary_rule(rule):
    return any(tag in rule for tag in ('PURE', 'OWN', 'INPLACE', 'COPY',
                                       'ALIAS', 'FRESH', 'ITER-',
                                       'CLASS-STATE', 'MUTABLE-DEFAULT'))


def decide(module, program, tier, strict=True):
    '''Runs the rules of the property on the program as written; when they
    do not pass (a violation that is not a known finding, or a rule that lost
    its anchor) the helper-inlined normal form of the SAME program
    (sa/inline.py) is consulted: a semantics-preserving view in which
    extract-method refactorings are undone.  The result on that view is
    adopted only if it is clean; otherwise the result on the program as
    written stands.  Returns (ctx, view name).'''
    ctx = run_rules(module, program, tier)
    if strict:
        try:
            ctx.check_not_all_undecided()
        except AnalysisError as err:
            ctx.errors.append(str(err))
    if not ctx.errors and not _unknown_violations(ctx, module.ID):
        return ctx, 'as-written'
    # ownership / purity rules reason on FUNCTION BOUNDARIES (a parameter
    # modified in place, a field aliased to an argument): inlining removes
    # the boundary the violation is stated on, so their verdict on the
    # program as written is final
    if any(_boundary_rule(o.rule)
           for o in _unknown_violations(ctx, module.ID)):
        return ctx, 'as-written'
    from . import inline
    try:
        overlay = inline.build_overlay(program)
        if overlay == program.overlay:
            return ctx, 'as-written'
        prog_b = Program(overlay=overlay)
        ctx_b = run_rules(module, prog_b, tier)
        ctx_b.check_not_all_undecided()
    except AnalysisError:
        return ctx, 'as-written'
    except Exception:   # pylint: disable=broad-except
        return ctx, 'as-written'
    # the rules that did not pass on the program as written must be fully
    # DECIDED on the inlined view (an "undecided" there is not a pass)
    failed = {o.rule for o in _unknown_violations(ctx, module.ID)}
    for err in ctx.errors:
        failed |= {r for r in set(ctx_b.rules()) | set(ctx.rules())
                   if f'rule {r}' in err or f'{r}:' in err}
    weak = [o for o in ctx_b.by_outcome(UNDECIDED) if o.rule in failed]
    if not ctx_b.errors and not _unknown_violations(ctx_b, module.ID) and \
            not weak:
        ctx_b.stats['view'] = (
            'helper-inlined normal form (sa/inline.py): the rules did not '
            'pass on the program as written (' + '; '.join(
                [f'{o.rule} at {o.at}' for o in
                 _unknown_violations(ctx, module.ID)][:3] +
                [e[:80] for e in ctx.errors[:2]]) + ') and pass on the '
            'semantics-preserving view in which its helpers are inlined')
        return ctx_b, 'helper-inlined'
    return ctx, 'as-written'


def _variant_job(args):
    '''Runs in a worker process (or inline).'''
    modname, overlay, tier = args
    module = importlib.import_module(modname)
    try:
        prog = Program(overlay=overlay)
        ctx, _view = decide(module, prog, tier, strict=False)
        violated = [list(o.key) + [o.at] for o in ctx.by_outcome(VIOLATED)]
        if ctx.errors and not violated:
            return {'ok': False,
                    'error': f'AnalysisError: {ctx.errors[0]}'}
        return {'ok': True, 'violated': violated,
                'n': len(ctx.obligations), 'errors': list(ctx.errors)}
    except AnalysisError as err:
        return {'ok': False, 'error': f'AnalysisError: {err}'}
    except Exception as err:   # pylint: disable=broad-except
        return {'ok': False, 'error': f'{type(err).__name__}: {err}',
                'trace': traceback.format_exc()}


def run_variants(module, base_ctx, program, tier):
    '''Canaries (quick) / mutant + twin matrices (thorough).'''
    if not hasattr(module, 'variants'):
        return [], []
    variants = list(module.variants(program))
    if tier == 'quick':
        variants = [v for v in variants if v.quick]
    base_violated = {o.key for o in base_ctx.by_outcome(VIOLATED)}
    base_per_rule = {}
    for key in base_violated:
        base_per_rule[key[0]] = base_per_rule.get(key[0], 0) + 1
    jobs = [(module.__name__, v.overlay, tier) for v in variants
            if v.overlay is not None]
    results = []
    if len(jobs) > 6:
        try:
            from concurrent.futures import ProcessPoolExecutor
            with ProcessPoolExecutor(max_workers=min(
                    16, os.cpu_count() or 4)) as pool:
                results = list(pool.map(_variant_job, jobs, chunksize=1))
        except Exception:   # pylint: disable=broad-except
            results = []
    if not results:
        results = [_variant_job(j) for j in jobs]
    res_iter = iter(results)
    records, failures = [], []
    for var in variants:
        rec = {'name': var.name, 'kind': var.kind,
               'expect': sorted(var.expect)}
        if var.note:
            rec['note'] = var.note
        if var.overlay is None:
            rec['result'] = 'skipped: operator found no target in the ' \
                            'current source'
            records.append(rec)
            continue
        res = next(res_iter)
        if not res['ok']:
            if var.kind == 'mutant' and res['error'].startswith(
                    'AnalysisError'):
                # the mutant destroyed an anchor: the run would end with
                # exit 2, which is a detection (never a silent pass)
                rec['result'] = 'detected-as-analysis-error'
                rec['detail'] = res['error']
            else:
                rec['result'] = 'error'
                rec['detail'] = res['error']
                failures.append(f'{var.kind} {var.name}: {res["error"]}')
            records.append(rec)
            continue
        new = [v for v in res['violated'] if tuple(v[:3]) not in base_violated]
        if var.kind == 'mutant':
            hits = [v for v in new if not var.expect or v[0] in var.expect]
            if hits:
                rec['result'] = 'detected'
                rec['report'] = {'rule': hits[0][0], 'site': hits[0][1],
                                 'construct': hits[0][2], 'at': hits[0][3]}
            else:
                # was the expected rule already violated on the base tree at
                # the same place?  then the mutant cannot add anything
                already = [k for k in base_violated
                           if not var.expect or k[0] in var.expect]
                if already and not new:
                    rec['result'] = 'skipped: base tree already violates ' \
                                    'the expected rule'
                else:
                    rec['result'] = 'ESCAPED'
                    rec['new_violations'] = new[:3]
                    failures.append(
                        f'mutant {var.name} escaped (expected '
                        f'{sorted(var.expect)})')
        else:
            per_rule = {}
            for vio in res['violated']:
                per_rule[vio[0]] = per_rule.get(vio[0], 0) + 1
            alarms = [r for r, n in per_rule.items()
                      if n > base_per_rule.get(r, 0)]
            if alarms:
                rec['result'] = 'FALSE-ALARM'
                rec['new_violations'] = new[:3]
                failures.append(f'twin {var.name} raised {alarms}')
            else:
                rec['result'] = 'silent'
        records.append(rec)
    return records, failures


def sample_obligations(ctx, limit=12):
    out, seen_rules = [], {}
    # violated/undecided first, then one or two per rule
    for outcome in (VIOLATED, UNDECIDED, HOLDS):
        for obl in ctx.by_outcome(outcome):
            cnt = seen_rules.get((obl.rule, outcome), 0)
            if cnt >= 2:
                continue
            seen_rules[(obl.rule, outcome)] = cnt + 1
            out.append(obl.as_dict())
    return out[:max(limit, len(ctx.rules()) * 2)]


def main(argv=None):
    parser = argparse.ArgumentParser()
    parser.add_argument('prop')
    parser.add_argument('--tier', default=os.environ.get('VERIF_TIER',
                                                         'quick'),
                        choices=['quick', 'thorough'])
    parser.add_argument('--replay')
    parser.add_argument('--no-evidence', action='store_true')
    parser.add_argument('--dump', action='store_true',
                        help='print every obligation')
    args = parser.parse_args(argv)
    prop = args.prop.upper()
    timer = Timer()
    try:
        seed = int(os.environ.get('VERIF_SEED', '0'))
    except ValueError:
        seed = 0
    try:
        module = importlib.import_module(f'sa.props.{prop}')
    except ImportError as err:
        print(f'ANALYSIS-ERROR property={prop} no checker module: {err}')
        return 2
    try:
        program = Program()
        ctx, view = decide(module, program, args.tier)
        if view != 'as-written':
            print(f'NOTE property={prop} decided on the {view} normal form')
        if ctx.errors and not ctx.by_outcome(VIOLATED):
            for err in ctx.errors:
                print(f'ANALYSIS-ERROR property={prop} {err}')
            return 2
        if ctx.errors or view != 'as-written':
            # some rules gave up but others found violations: report those
            # (the self-test edits the program as written: it is skipped when
            # the verdict comes from the helper-inlined view)
            var_records, var_failures = [], []
        else:
            var_records, var_failures = run_variants(module, ctx, program,
                                                     args.tier)
    except AnalysisError as err:
        print(f'ANALYSIS-ERROR property={prop} {err}')
        return 2
    except Exception as err:   # pylint: disable=broad-except
        print(f'ANALYSIS-ERROR property={prop} internal error '
              f'{type(err).__name__}: {err}')
        traceback.print_exc()
        return 2

    known = load_known()
    violated = ctx.by_outcome(VIOLATED)
    new_violations, known_hits = [], []
    for obl in violated:
        ent = known_entry(known, prop, obl)
        if ent is not None:
            known_hits.append((obl, ent))
        else:
            new_violations.append(obl)

    if args.dump:
        for obl in ctx.obligations:
            print(f'  [{obl.outcome:9}] {obl.rule:14} {obl.site} :: '
                  f'{obl.construct}  ({obl.at})')
            if obl.detail and obl.outcome != HOLDS:
                print(f'              detail: {obl.detail}')

    # replay mode: report whether the recorded violation is still there
    if args.replay:
        with open(args.replay, encoding='utf-8') as fil:
            rec = json.load(fil)
        key = (rec['rule'], rec['site'], rec['construct'])
        still = [o for o in violated if o.key == key]
        if still:
            print(f'VIOLATION property={prop} replay={args.replay}')
            print(f'  still present: {key} at {still[0].at}')
            return 1
        print(f'replay: violation {key} no longer reported')
        return 0

    outdir = os.path.join(OUT_DIR, prop)
    for obl, ent in known_hits:
        print(f'KNOWN-FINDING: property={prop} rule={obl.rule} '
              f'site={obl.site} at={obl.at} :: {ent["what"]}')
    for idx, obl in enumerate(new_violations):
        path = os.path.join(outdir, f'violation-{idx}.json')
        rec = obl.as_dict()
        rec['property'] = prop
        rec['overlay'] = None
        try:
            write_json(path, rec)
        except OSError:
            pass
        print(f'VIOLATION property={prop} replay={path}')
        print(f'  rule={obl.rule} site={obl.site} at={obl.at}')
        print(f'  construct: {obl.construct}')
        if obl.detail:
            print(f'  detail: {obl.detail}')

    n_all = len(ctx.obligations)
    n_holds = len(ctx.by_outcome(HOLDS))
    n_und = len(ctx.by_outcome(UNDECIDED))
    n_nontriv = len({o.key for o in ctx.obligations if o.nontrivial})
    detected = sum(1 for r in var_records
                   if r['result'].startswith('detected'))
    silent = sum(1 for r in var_records if r['result'] == 'silent')
    skipped = sum(1 for r in var_records if r['result'].startswith('skipped'))
    print(f'{prop} [{args.tier}] obligations={n_all} holds={n_holds} '
          f'undecided={n_und} violated={len(violated)} '
          f'(known={len(known_hits)}) rules={",".join(ctx.rules())} '
          f'variants: detected={detected} silent-twins={silent} '
          f'skipped={skipped} failures={len(var_failures)} '
          f'wall={timer.elapsed()}s')

    evidence = {
        'property_id': prop,
        'tier': args.tier,
        'seed': seed,
        'level': 'other',
        'coverage': {
            'explanation': getattr(module, 'CLAIM', '').strip(),
            'rule': 'one obligation per (rule, site, construct) found by the '
                    'site queries on the current source; non-trivial = the '
                    'obligation involved at least one branch, guard, effect '
                    'or abstract-domain computation (trivial existence '
                    'checks are not counted); distinct = distinct keys',
            'obligations': n_all,
            'discharged': n_holds,
            'undecided': n_und,
            'violated': len(violated),
            'known_findings_matched': len(known_hits),
            'evaluations': n_all + sum(1 for r in var_records
                                       if not r['result'].startswith(
                                           'skipped')),
            'distinct_nontrivial': n_nontriv,
            'exhaustive': True,
            'rules': ctx.rules(),
            'stats': ctx.stats,
            'samples': sample_obligations(ctx),
            'self_test': {
                'variants': len(var_records),
                'mutants_detected': detected,
                'twins_silent': silent,
                'skipped': skipped,
                'failures': var_failures,
                'records': var_records,
            },
            'files': program.digests(),
            'checker_cmd': f'./check {prop} --tier {args.tier}',
            'trusted_base': ['CPython ast module', 'sa/ analyser (this '
                             'directory)'] + list(getattr(module, 'TRUSTED',
                                                          [])),
        },
        'assumptions': list(getattr(module, 'ASSUMPTIONS', [])),
        'wall_s': timer.elapsed(),
        'violations': len(new_violations),
        'notes': ctx.notes,
    }
    if not args.no_evidence:
        write_json(os.path.join(EVIDENCE_DIR, f'{prop}.json'), evidence)

    for err in ctx.errors:
        print(f'ANALYSIS-ERROR property={prop} {err}')
    if new_violations:
        return 1
    if ctx.errors:
        return 2
    if var_failures:
        # the mutation operators are written against the reference tree: on
        # files that differ from it an operator may produce something else
        # than the defect it is named after (or nothing wrong at all), and
        # its escape says nothing about the checker.  The self-test is fatal
        # only when every consulted file is byte-identical to the reference.
        changed = _changed_files(program)
        if changed:
            for fail in var_failures:
                print(f'NOTE property={prop} self-test not conclusive on a '
                      f'modified tree ({", ".join(changed[:3])}): {fail}')
            return 0
        for fail in var_failures:
            print(f'ANALYSIS-ERROR property={prop} self-test: {fail}')
        return 2
    return 0


if __name__ == '__main__':
    try:
        sys.exit(main())
    except SystemExit:
        raise
    except BaseException as err:   # pylint: disable=broad-except
        print(f'ANALYSIS-ERROR internal {type(err).__name__}: {err}')
        traceback.print_exc()
        sys.exit(2)
