'''Helper-inlined normal form ("view B").

Most rules recognise a mechanism by the shape of ONE function: the decision
table of `decide_new_state`, the quadrature in `Dataset.__sub__`, the
shutdown sequence of `execute_tasks`.  An extract-method refactoring moves a
part of that shape into a helper and the rule no longer sees it: it answers
"anchor lost" (exit 2) or, worse, reads the remaining half as a violation.

This module rebuilds the un-refactored shape: calls to helpers of the same
module / class are replaced by the body of the helper, whenever that can be
done without changing the meaning of the program:

  * expression helpers (`def f(a, b): return <expr>`) are substituted at
    every call, provided each argument is either a plain name / attribute /
    constant or is used at most once by the expression;
  * statement helpers are substituted where the call is a whole statement
    (`f(x)`, `y = f(x)`, `return f(x)`), after the body has been brought to
    single-exit form (guard clauses become if / else, a void `return` in the
    last loop becomes `break`); helpers whose returns cannot be brought to
    that form are left alone;
  * locals of the helper are renamed when they clash with names of the
    caller; parameters bound to non-trivial arguments become locals;
  * a helper that is no longer referenced anywhere in the program is removed.

Not inlined: generators, recursive helpers, helpers with *args / **kwargs,
nested function definitions, `super()`, decorators other than staticmethod /
classmethod, methods re-defined by another class of the module (dynamic
dispatch).  The driver (sa/run.py) consults this view only when the rules of
a property do not pass on the program as written, and reports a violation
only when it passes on neither.'''
import ast
import copy
import os
import re
import warnings

MAX_ROUNDS = 4
_HERE = os.path.dirname(os.path.abspath(__file__))


def _anchor_names():
    '''Identifiers that the rules / property modules mention inside string
    literals: functions the rules know BY NAME are their anchors and are
    never inlined (the rules expect them where they are); helpers born from a
    refactoring have names the rules have never heard of.'''
    names = set()
    files = []
    for sub in ('rules', 'props', ''):
        folder = os.path.join(_HERE, sub)
        for fname in sorted(os.listdir(folder)):
            if fname.endswith('.py') and fname != 'inline.py':
                files.append(os.path.join(folder, fname))
    for path in files:
        try:
            tree = ast.parse(open(path, encoding='utf-8').read())
        except (OSError, SyntaxError):
            continue
        for node in ast.walk(tree):
            # only strings that ARE a name (`_enqueue`, `Dataset.squeeze`,
            # `valjean.cosette.run:run`): prose (notes, details) is not a
            # lookup key
            if isinstance(node, ast.Constant) and isinstance(node.value,
                                                             str) and \
                    re.fullmatch(r'[A-Za-z_][\w.:]*', node.value):
                qual = node.value.split(':')[-1].split('.')
                if len(qual) >= 2 and qual[-2][:1].isupper():
                    names.add((qual[-2], qual[-1]))     # Class.method
                else:
                    names.add((None, qual[-1]))
    return names


ANCHOR_NAMES = None
_REFERENCE = None


def reference_functions():
    '''Qualified names of the functions of the tree the rules were written
    and validated against (sa/reference_functions.json, frozen): they are
    where the rules expect them and are never inlined.  Only helpers that a
    later change INTRODUCED are.'''
    global _REFERENCE       # pylint: disable=global-statement
    if _REFERENCE is None:
        import json
        with open(os.path.join(_HERE, 'reference_functions.json'),
                  encoding='utf-8') as fil:
            _REFERENCE = {rel: set(names)
                          for rel, names in json.load(fil).items()}
    return _REFERENCE


def _simple(expr):
    if isinstance(expr, (ast.Name, ast.Constant)):
        return True
    if isinstance(expr, ast.UnaryOp) and isinstance(
            expr.op, ast.USub) and isinstance(expr.operand, ast.Constant):
        return True
    if isinstance(expr, ast.Attribute):
        return _simple(expr.value)
    return False


def _contains(node, kinds):
    return any(isinstance(n, kinds) for n in ast.walk(node))


def _stores(fdef):
    names = set()
    for node in ast.walk(fdef):
        if isinstance(node, ast.Name) and isinstance(node.ctx, (ast.Store,
                                                                ast.Del)):
            names.add(node.id)
        elif isinstance(node, ast.ExceptHandler) and node.name:
            names.add(node.name)
    return names


def _params(fdef):
    args = fdef.args
    return [a.arg for a in args.posonlyargs + args.args + args.kwonlyargs]


def _is_cm(fdef):
    return [ast.unparse(d) for d in fdef.decorator_list] in (
        ['contextmanager'], ['contextlib.contextmanager'])


def _kind(fdef):
    decs = [ast.unparse(d) for d in fdef.decorator_list]
    if not decs or _is_cm(fdef):
        return 'plain'
    if decs == ['staticmethod']:
        return 'static'
    if decs == ['classmethod']:
        return 'class'
    return None


def _eligible(fdef, klass=None, known=()):
    global ANCHOR_NAMES     # pylint: disable=global-statement
    if (f'{klass}.{fdef.name}' if klass else fdef.name) in known:
        return False
    if ANCHOR_NAMES is None:
        ANCHOR_NAMES = _anchor_names()
    if not isinstance(fdef, ast.FunctionDef) or _kind(fdef) is None:
        return False
    if (None, fdef.name) in ANCHOR_NAMES or (klass, fdef.name) in \
            ANCHOR_NAMES:
        return False
    if fdef.name.startswith('__') and fdef.name.endswith('__'):
        return False
    if fdef.args.vararg or fdef.args.kwarg:
        return False
    body = ast.Module(body=fdef.body, type_ignores=[])
    if _contains(body, (ast.YieldFrom, ast.Await, ast.Global,
                        ast.Nonlocal, ast.FunctionDef, ast.AsyncFunctionDef,
                        ast.ClassDef)):
        return False
    if _is_cm(fdef):
        # `with cm(..) as x: BODY` is the generator with `x = <yielded>;
        # BODY` in the place of its single yield: one yield statement,
        # outside any loop, no return
        yields = [n for n in ast.walk(body) if isinstance(n, ast.Yield)]
        stmts = [n for n in ast.walk(body) if isinstance(n, ast.Expr) and
                 isinstance(n.value, ast.Yield)]
        if len(yields) != 1 or len(stmts) != 1:
            return False
        if _contains(body, (ast.Return, ast.With)):
            return False
        for loop in ast.walk(body):
            if isinstance(loop, (ast.For, ast.While)) and any(
                    n is yields[0] for n in ast.walk(loop)):
                return False
        for tri in ast.walk(body):
            if isinstance(tri, ast.Try) and any(
                    n is yields[0] for hdl in tri.handlers
                    for n in ast.walk(hdl)):
                return False
    elif _contains(body, ast.Yield):
        # simple generators only: every yield is a statement `yield E`, no
        # value is returned, nothing is sent in
        yields = [n for n in ast.walk(body) if isinstance(n, ast.Yield)]
        stmts = [n for n in ast.walk(body) if isinstance(n, ast.Expr) and
                 isinstance(n.value, ast.Yield)]
        if len(yields) != len(stmts) or any(y.value is None
                                            for y in yields):
            return False
        if any(isinstance(n, ast.Return) and n.value is not None
               for n in ast.walk(body)):
            return False
        if _contains(body, ast.Try):
            return False
    for node in ast.walk(body):
        if isinstance(node, ast.Call) and isinstance(node.func, ast.Name) \
                and node.func.id in ('super', 'locals', 'vars', 'exec',
                                     'eval', 'globals'):
            return False
        if isinstance(node, ast.Name) and node.id == '__class__':
            return False
        # recursion
        if isinstance(node, ast.Call) and (
                (isinstance(node.func, ast.Name) and
                 node.func.id == fdef.name) or
                (isinstance(node.func, ast.Attribute) and
                 node.func.attr == fdef.name)):
            return False
    for dflt in list(fdef.args.defaults) + [d for d in fdef.args.kw_defaults
                                            if d is not None]:
        if not isinstance(dflt, ast.Constant):
            return False
    return True


def _local_nodes(func):
    '''Nodes of the body of `func`, nested function and class bodies
    excluded (the nested definitions themselves are yielded).'''
    todo = list(func.body)
    while todo:
        node = todo.pop()
        yield node
        if isinstance(node, (ast.FunctionDef, ast.AsyncFunctionDef,
                             ast.ClassDef, ast.Lambda)):
            continue
        todo.extend(ast.iter_child_nodes(node))


def _rebinds_outer(inner, outer):
    '''A closure that stores into a name that the enclosing function also
    uses would create a local of its own: inlined, the store would hit the
    outer variable.'''
    outer_names = {n.id for n in _local_nodes(outer)
                   if isinstance(n, ast.Name)} | set(_params(outer))
    inner_stores = {n.id for n in ast.walk(inner) if isinstance(
        n, ast.Name) and isinstance(n.ctx, (ast.Store, ast.Del))}
    return bool(inner_stores & outer_names)


def _is_generator(fdef):
    return _contains(ast.Module(body=fdef.body, type_ignores=[]), ast.Yield)


def _replace_yields(stmts, make):
    '''every `yield E` statement -> make(E) (a list of statements).'''
    out = []
    for stmt in stmts:
        if isinstance(stmt, ast.Expr) and isinstance(stmt.value, ast.Yield):
            out.extend(make(stmt.value.value))
            continue
        for fld in ('body', 'orelse', 'finalbody'):
            sub = getattr(stmt, fld, None)
            if isinstance(sub, list) and sub and isinstance(sub[0],
                                                            ast.stmt):
                setattr(stmt, fld, _replace_yields(sub, make))
        out.append(stmt)
    return out


def _strip_doc(body):
    if body and isinstance(body[0], ast.Expr) and isinstance(
            body[0].value, ast.Constant) and isinstance(
                body[0].value.value, str):
        return body[1:]
    return body


# ------------------------------------------------------------ single exit --

class _Unsupported(Exception):
    pass


def _has_return(stmts):
    return any(isinstance(n, ast.Return)
               for s in stmts for n in ast.walk(s))


def _terminates(stmts):
    if not stmts:
        return False
    last = stmts[-1]
    if isinstance(last, (ast.Return, ast.Raise)):
        return True
    if isinstance(last, ast.If) and last.orelse:
        return _terminates(last.body) and _terminates(last.orelse)
    return False


def _single_exit(stmts, retvar, tail=True):
    '''Statements equivalent to `stmts` in which every `return E` is
    `retvar = E` (or nothing when retvar is None) followed by falling off the
    end.  Raises _Unsupported.'''
    out = []
    for idx, stmt in enumerate(stmts):
        last = idx == len(stmts) - 1
        rest = stmts[idx + 1:]
        if isinstance(stmt, ast.Return):
            if not tail:
                raise _Unsupported('return in a non-tail block')
            if stmt.value is not None and not (
                    isinstance(stmt.value, ast.Constant) and
                    stmt.value.value is None and retvar is None):
                if retvar is not None:
                    out.append(ast.Assign(
                        targets=[ast.Name(id=retvar, ctx=ast.Store())],
                        value=stmt.value, lineno=stmt.lineno))
                elif _contains(stmt.value, ast.Call):
                    out.append(ast.Expr(value=stmt.value))
            elif retvar is not None:
                out.append(ast.Assign(
                    targets=[ast.Name(id=retvar, ctx=ast.Store())],
                    value=ast.Constant(value=None), lineno=stmt.lineno))
            return out          # what follows a return is dead
        if not _has_return([stmt]):
            out.append(stmt)
            continue
        if isinstance(stmt, ast.If):
            if not tail:
                raise _Unsupported('return under an if in a non-tail block')
            body_t, else_t = _terminates(stmt.body), _terminates(stmt.orelse)
            if body_t and else_t:
                new = ast.If(test=stmt.test,
                             body=_single_exit(stmt.body, retvar) or
                             [ast.Pass()],
                             orelse=_single_exit(stmt.orelse, retvar))
                out.append(ast.copy_location(new, stmt))
                return out
            if body_t and not _has_return(stmt.orelse):
                new = ast.If(test=stmt.test,
                             body=_single_exit(stmt.body, retvar) or
                             [ast.Pass()],
                             orelse=_single_exit(list(stmt.orelse) + rest,
                                                 retvar))
                out.append(ast.copy_location(new, stmt))
                return out
            if else_t and not _has_return(stmt.body):
                new = ast.If(test=stmt.test,
                             body=_single_exit(list(stmt.body) + rest,
                                               retvar) or [ast.Pass()],
                             orelse=_single_exit(stmt.orelse, retvar))
                out.append(ast.copy_location(new, stmt))
                return out
            raise _Unsupported('returns on some paths of an if only')
        if isinstance(stmt, ast.Try) and tail and not _has_return(
                stmt.body) and not _has_return(stmt.finalbody):
            # try: A / except E: ...; return X / REST   ==
            # try: A / except E: ...; r = X / else: REST  (REST was outside
            # the try: in the else clause it is still not covered by the
            # handlers)
            handlers = []
            for hdl in stmt.handlers:
                hbody = list(hdl.body) + (
                    [] if _terminates(hdl.body) else copy.deepcopy(rest))
                handlers.append(ast.ExceptHandler(
                    type=hdl.type, name=hdl.name,
                    body=_single_exit(hbody, retvar) or [ast.Pass()]))
            new = ast.Try(body=stmt.body, handlers=handlers,
                          orelse=_single_exit(list(stmt.orelse) + rest,
                                              retvar),
                          finalbody=stmt.finalbody)
            out.append(ast.copy_location(new, stmt))
            return out
        if isinstance(stmt, ast.With) and last and tail:
            new = ast.With(items=stmt.items,
                           body=_single_exit(stmt.body, retvar) or
                           [ast.Pass()])
            out.append(ast.copy_location(new, stmt))
            return out
        if isinstance(stmt, (ast.For, ast.While)) and last and tail and \
                retvar is None and not stmt.orelse:
            # void returns directly in the last loop: break
            out.append(_returns_to_breaks(stmt))
            return out
        raise _Unsupported(f'return inside {type(stmt).__name__}')
    if retvar is not None and tail and not _terminates(stmts):
        raise _Unsupported('a path falls off the end of a value helper')
    return out


def _returns_to_breaks(loop):
    loop = copy.deepcopy(loop)

    def visit(stmts, depth):
        out = []
        for stmt in stmts:
            if isinstance(stmt, ast.Return):
                if stmt.value is not None and not (isinstance(
                        stmt.value, ast.Constant) and
                        stmt.value.value is None):
                    raise _Unsupported('value return in a loop')
                out.append(ast.copy_location(ast.Break(), stmt))
                continue
            if isinstance(stmt, (ast.For, ast.While)):
                if _has_return([stmt]):
                    raise _Unsupported('return in a nested loop')
            elif isinstance(stmt, ast.Try):
                if _has_return([stmt]):
                    raise _Unsupported('return in a try')
            else:
                for fld in ('body', 'orelse'):
                    sub = getattr(stmt, fld, None)
                    if isinstance(sub, list) and sub and isinstance(
                            sub[0], ast.stmt):
                        setattr(stmt, fld, visit(sub, depth))
            out.append(stmt)
        return out
    loop.body = visit(loop.body, 0)
    return loop


# ----------------------------------------------------------- substitution --

class _Subst(ast.NodeTransformer):
    def __init__(self, mapping, renames):
        self.mapping = mapping      # param -> expression
        self.renames = renames      # local -> new name

    def visit_Name(self, node):
        if node.id in self.mapping and isinstance(node.ctx, ast.Load):
            return copy.deepcopy(self.mapping[node.id])
        if node.id in self.renames:
            return ast.copy_location(
                ast.Name(id=self.renames[node.id], ctx=node.ctx), node)
        return node

    def visit_ExceptHandler(self, node):
        self.generic_visit(node)
        if node.name in self.renames:
            node.name = self.renames[node.name]
        return node


def _bind(fdef, call, receiver_map):
    '''param -> actual expression, or None when the call does not fit.'''
    if any(isinstance(a, ast.Starred) for a in call.args) or any(
            k.arg is None for k in call.keywords):
        return None
    params = _params(fdef)
    kind = _kind(fdef)
    bound = {}
    formal = list(params)
    if kind in ('plain', 'class') and receiver_map is not None:
        if not formal:
            return None
        bound[formal[0]] = receiver_map[kind]
        formal = formal[1:]
    n_pos = len(fdef.args.posonlyargs) + len(fdef.args.args)
    pos_formal = [p for p in formal if p in params[:n_pos]]
    if len(call.args) > len(pos_formal):
        return None
    for par, arg in zip(pos_formal, call.args):
        bound[par] = arg
    for kwd in call.keywords:
        if kwd.arg not in formal or kwd.arg in bound:
            return None
        bound[kwd.arg] = kwd.value
    # defaults
    pos_all = fdef.args.posonlyargs + fdef.args.args
    dflts = dict(zip([a.arg for a in pos_all][len(pos_all) -
                                              len(fdef.args.defaults):],
                     fdef.args.defaults))
    for arg, dflt in zip(fdef.args.kwonlyargs, fdef.args.kw_defaults):
        if dflt is not None:
            dflts[arg.arg] = dflt
    for par in formal:
        if par not in bound:
            if par not in dflts:
                return None
            bound[par] = dflts[par]
    return bound


def _uses(body_nodes, name):
    return sum(1 for b in body_nodes for n in ast.walk(b)
               if isinstance(n, ast.Name) and n.id == name and
               isinstance(n.ctx, ast.Load))


class _Inliner:
    def __init__(self, tree, foreign_text, known=(), imported=None):
        self.known = known
        self.imported = imported or {}
        self.tree = tree
        self.foreign = foreign_text     # source of every OTHER module
        self.counter = 0
        self.n_inlined = 0
        self.inlined_names = set()

    # -- discovery
    def helpers(self):
        '''{(class name or None, helper name): FunctionDef}'''
        out = {}
        names = {}
        for node in ast.walk(self.tree):
            if isinstance(node, ast.FunctionDef):
                names[node.name] = names.get(node.name, 0) + 1
        for node in self.tree.body:
            if isinstance(node, ast.FunctionDef) and _eligible(
                    node, None, self.known) and names[node.name] == 1:
                out[(None, node.name)] = node
        # new expression helpers of other modules, imported by name
        for local, fdef in self.imported.items():
            if (None, local) not in out and names.get(local, 0) == 0:
                out[(None, local)] = fdef
        for klass in [n for n in ast.walk(self.tree)
                      if isinstance(n, ast.ClassDef)]:
            for node in klass.body:
                if isinstance(node, ast.FunctionDef) and _eligible(
                        node, self._qual(klass), self.known) and \
                        names[node.name] == 1:
                    out[(klass.name, node.name)] = node
        # new closures: functions defined inside a function and called by
        # name there (the free variables are the caller's own names)
        def nested(func, qual):
            for node in _local_nodes(func):
                if isinstance(node, ast.FunctionDef):
                    stores = sum(1 for n in ast.walk(func) if isinstance(
                        n, ast.Name) and n.id == node.name and
                        isinstance(n.ctx, (ast.Store, ast.Del)))
                    if names[node.name] == 1 and not stores and \
                            (None, node.name) not in out and _eligible(
                                node, qual, self.known):
                        out[(None, node.name)] = node

        def each(body, prefix):
            for node in body:
                if isinstance(node, ast.FunctionDef):
                    nested(node, prefix + node.name)
                elif isinstance(node, ast.ClassDef):
                    each(node.body, prefix + node.name + '.')
        each(self.tree.body, '')
        return out

    def _qual(self, klass):
        '''Outer.Inner for a nested class.'''
        for outer in ast.walk(self.tree):
            if isinstance(outer, ast.ClassDef) and klass in outer.body:
                return f'{self._qual(outer)}.{klass.name}'
        return klass.name

    def _match(self, call, helpers, klass, func):
        '''(helper FunctionDef, receiver map) for a call in `func`.'''
        fexpr = call.func
        if isinstance(fexpr, ast.Name):
            fdef = helpers.get((None, fexpr.id))
            if fdef is not None and fdef is not func:
                return fdef, None
            return None
        if not (isinstance(fexpr, ast.Attribute) and isinstance(
                fexpr.value, ast.Name) and klass is not None):
            return None
        fdef = helpers.get((klass.name, fexpr.attr))
        if fdef is None:
            # inherited from a base class of the same module (the name is
            # defined once in the module: no override can intervene)
            todo, seen = [klass], set()
            while todo and fdef is None:
                cur = todo.pop()
                if cur.name in seen:
                    continue
                seen.add(cur.name)
                for base in cur.bases:
                    bname = base.id if isinstance(base, ast.Name) else None
                    bdef = next((n for n in ast.walk(self.tree) if isinstance(
                        n, ast.ClassDef) and n.name == bname), None)
                    if bdef is not None:
                        fdef = fdef or helpers.get((bdef.name, fexpr.attr))
                        todo.append(bdef)
        if fdef is None or fdef is func:
            return None
        recv = fexpr.value.id
        first = func.args.args[0].arg if func.args.args else None
        kind = _kind(fdef)
        if recv == 'self' and first == 'self' and _kind(func) == 'plain':
            rmap = {'plain': ast.Name(id='self', ctx=ast.Load()),
                    'class': ast.parse('type(self)', mode='eval').body}
        elif recv == 'cls' and first == 'cls' and _kind(func) == 'class':
            if kind == 'plain':
                return None
            rmap = {'class': ast.Name(id='cls', ctx=ast.Load())}
        elif recv == klass.name:
            if kind == 'plain':
                return None
            rmap = {'class': ast.Name(id=klass.name, ctx=ast.Load())}
        else:
            return None
        return fdef, (rmap if kind != 'static' else None)

    # -- expression helpers
    def _expr_body(self, fdef):
        body = _strip_doc(fdef.body)
        if len(body) == 1 and isinstance(body[0], ast.Return) and \
                body[0].value is not None:
            return body[0].value
        return None

    def inline_expressions(self, helpers):
        outer = self

        def run(func, klass):
            class Tr(ast.NodeTransformer):
                def visit_Lambda(self, node):
                    return node

                def visit_Call(self, node):
                    self.generic_visit(node)
                    hit = outer._match(node, helpers, klass, func)
                    if hit is None:
                        return node
                    fdef, rmap = hit
                    expr = outer._expr_body(fdef)
                    if expr is None:
                        return node
                    bound = _bind(fdef, node, rmap)
                    if bound is None:
                        return node
                    stored = _stores(fdef)
                    for par, actual in bound.items():
                        if par in stored:
                            return node
                        if not _simple(actual) and _uses([expr], par) > 1:
                            return node
                    # comprehension variables of the helper must not capture
                    # names of the arguments
                    arg_names = {n.id for a in bound.values()
                                 for n in ast.walk(a)
                                 if isinstance(n, ast.Name)}
                    if arg_names & (stored - set(bound)):
                        return node
                    outer.n_inlined += 1
                    outer.inlined_names.add(fdef.name)
                    return _Subst(bound, {}).visit(copy.deepcopy(expr))
            Tr().visit(func)
        self._each_function(run)

    # -- statement helpers
    def inline_statements(self, helpers):
        outer = self

        def run(func, klass):
            caller_names = {n.id for n in ast.walk(func)
                            if isinstance(n, ast.Name)} | set(_params(func))

            def block(stmts):
                out = []
                for stmt in stmts:
                    if isinstance(stmt, (ast.FunctionDef,
                                         ast.AsyncFunctionDef,
                                         ast.ClassDef)):
                        out.append(stmt)
                        continue
                    for fld in ('body', 'orelse', 'finalbody'):
                        sub = getattr(stmt, fld, None)
                        if isinstance(sub, list) and sub and isinstance(
                                sub[0], ast.stmt):
                            setattr(stmt, fld, block(sub))
                    for hdl in getattr(stmt, 'handlers', []) or []:
                        hdl.body = block(hdl.body)
                    # `for x in h(..):` / `if h(..):` with a value helper:
                    # the call is evaluated once, before the statement
                    hoisted = hoist(stmt)
                    if hoisted is not None:
                        new = one(hoisted)
                        if new is not None:
                            out.extend(new)
                            out.append(stmt)
                            continue
                        unhoist(stmt, hoisted)
                    new = one(stmt)
                    out.extend(new if new is not None else [stmt])
                return out

            def hoist(stmt):
                slot = None
                if isinstance(stmt, ast.For) and isinstance(stmt.iter,
                                                            ast.Call):
                    slot = ('iter', stmt.iter)
                elif isinstance(stmt, ast.If) and isinstance(stmt.test,
                                                             ast.Call):
                    slot = ('test', stmt.test)
                elif isinstance(stmt, ast.If) and isinstance(
                        stmt.test, ast.UnaryOp) and isinstance(
                            stmt.test.op, ast.Not) and isinstance(
                                stmt.test.operand, ast.Call):
                    slot = ('nottest', stmt.test.operand)
                if slot is None and isinstance(stmt, (ast.Expr, ast.Assign,
                                                      ast.Return)) and \
                        isinstance(stmt.value, ast.Call) and _simple(
                            stmt.value.func):
                    # f(a, h(x), ...) with a, the callee and every earlier
                    # argument plain: h(x) is the first thing evaluated
                    for pos, arg in enumerate(stmt.value.args):
                        if isinstance(arg, ast.Call) and outer._match(
                                arg, helpers, klass, func) is not None:
                            slot = (('arg', pos), arg)
                            break
                        if not _simple(arg):
                            break
                if slot is None:
                    return None
                hit = outer._match(slot[1], helpers, klass, func)
                if hit is None or _is_generator(hit[0]) or \
                        outer._expr_body(hit[0]) is not None:
                    return None
                outer.counter += 1
                name = f'{hit[0].name.strip("_")}_value{outer.counter}'
                ref = ast.Name(id=name, ctx=ast.Load())
                if slot[0] == 'iter':
                    stmt.iter = ref
                elif slot[0] == 'test':
                    stmt.test = ref
                elif isinstance(slot[0], tuple):
                    stmt.value.args[slot[0][1]] = ref
                else:
                    stmt.test.operand = ref
                assign = ast.Assign(
                    targets=[ast.Name(id=name, ctx=ast.Store())],
                    value=slot[1], lineno=stmt.lineno)
                assign._slot = slot[0]      # pylint: disable=protected-access
                return assign

            def unhoist(stmt, assign):
                kind = assign._slot         # pylint: disable=protected-access
                if kind == 'iter':
                    stmt.iter = assign.value
                elif kind == 'test':
                    stmt.test = assign.value
                elif isinstance(kind, tuple):
                    stmt.value.args[kind[1]] = assign.value
                else:
                    stmt.test.operand = assign.value

            def one(stmt):
                call, mode = None, None
                if isinstance(stmt, ast.For) and isinstance(
                        stmt.iter, ast.Call) and not stmt.orelse:
                    call, mode = stmt.iter, 'for'
                elif isinstance(stmt, ast.Assign) and isinstance(
                        stmt.value, ast.Call) and isinstance(
                            stmt.value.func, ast.Name) and \
                        stmt.value.func.id == 'list' and len(
                            stmt.value.args) == 1 and isinstance(
                                stmt.value.args[0], ast.Call) and len(
                                    stmt.targets) == 1 and isinstance(
                                        stmt.targets[0], ast.Name):
                    call, mode = stmt.value.args[0], 'list'
                elif isinstance(stmt, ast.Expr) and isinstance(stmt.value,
                                                               ast.Call):
                    call, mode = stmt.value, 'expr'
                elif isinstance(stmt, ast.Assign) and isinstance(
                        stmt.value, ast.Call):
                    call, mode = stmt.value, 'assign'
                elif isinstance(stmt, ast.Return) and isinstance(
                        stmt.value, ast.Call):
                    call, mode = stmt.value, 'return'
                elif isinstance(stmt, ast.With) and len(
                        stmt.items) == 1 and isinstance(
                            stmt.items[0].context_expr, ast.Call) and (
                                stmt.items[0].optional_vars is None or
                                isinstance(stmt.items[0].optional_vars,
                                           ast.Name)):
                    call, mode = stmt.items[0].context_expr, 'with'
                if call is None:
                    return None
                hit = outer._match(call, helpers, klass, func)
                if hit is None:
                    return None
                fdef, rmap = hit
                if outer._expr_body(fdef) is not None:
                    return None         # done by inline_expressions
                if _is_cm(fdef) != (mode == 'with'):
                    return None
                if mode != 'with' and _is_generator(fdef) != (
                        mode in ('for', 'list')):
                    return None
                if mode == 'for':
                    # the consumer body is spliced at the yield: it must not
                    # leave or restart the loop by itself
                    yields = [n for n in ast.walk(fdef)
                              if isinstance(n, ast.Yield)]
                    if len(yields) > 6 or _contains(
                            ast.Module(body=stmt.body, type_ignores=[]),
                            (ast.Break, ast.Continue, ast.Return)):
                        return None
                bound = _bind(fdef, call, rmap)
                if bound is None:
                    return None
                outer.counter += 1
                retvar = None if mode in ('expr', 'return', 'for',
                                          'list', 'with') else \
                    f'{fdef.name.strip("_")}_result{outer.counter}'
                direct = None
                body = copy.deepcopy(_strip_doc(fdef.body))
                if mode == 'return':
                    # `return h(...)`: the returns of the helper ARE returns
                    # of the caller; falling off its end returns None
                    if not _terminates(body):
                        body.append(ast.Return(value=ast.Constant(
                            value=None)))
                else:
                    try:
                        body = _single_exit(body, retvar)
                    except _Unsupported:
                        return None
                stored = _stores(fdef)
                pre = []
                mapping, renames = {}, {}
                for par, actual in bound.items():
                    if par in stored or not _simple(actual):
                        new = par if par not in caller_names else \
                            f'{par}_{fdef.name.strip("_")}{outer.counter}'
                        if new != par:
                            renames[par] = new
                        pre.append(ast.Assign(
                            targets=[ast.Name(id=new, ctx=ast.Store())],
                            value=copy.deepcopy(actual),
                            lineno=stmt.lineno))
                    elif not (isinstance(actual, ast.Name) and
                              actual.id == par):
                        mapping[par] = actual
                # `for a, b in gen(): ...` with `yield x, y` in the helper:
                # x and y ARE a and b
                joined = {}
                if mode == 'for' and len([
                        n for n in ast.walk(fdef)
                        if isinstance(n, ast.Yield)]) == 1:
                    yval = next(n for n in ast.walk(fdef)
                                if isinstance(n, ast.Yield)).value
                    src = yval.elts if isinstance(yval, ast.Tuple) else \
                        [yval]
                    dst = stmt.target.elts if isinstance(
                        stmt.target, ast.Tuple) else [stmt.target]
                    if len(src) == len(dst) and all(
                            isinstance(e, ast.Name) for e in src + dst) and \
                            len({e.id for e in src}) == len(src):
                        for one_src, one_dst in zip(src, dst):
                            if one_src.id in stored - set(bound) and (
                                    one_dst.id == one_src.id or
                                    one_dst.id not in stored):
                                joined[one_src.id] = one_dst.id
                for nam, new_name in joined.items():
                    if new_name != nam:
                        renames[nam] = new_name
                for nam in stored - set(bound) - set(joined):
                    if nam in caller_names or nam in {
                            n.id for a in bound.values()
                            for n in ast.walk(a) if isinstance(n, ast.Name)}:
                        renames[nam] = f'{nam}_{fdef.name.strip("_")}' \
                                       f'{outer.counter}'
                sub = _Subst(mapping, renames)
                body = [sub.visit(s) for s in body]
                if mode == 'assign' and len(stmt.targets) == 1 and all(
                        isinstance(n, (ast.Name, ast.Tuple, ast.Store))
                        for n in ast.walk(stmt.targets[0])):
                    tnames = {n.id for n in ast.walk(stmt.targets[0])
                              if isinstance(n, ast.Name)}
                    inside = {n.id for b in pre + body for n in ast.walk(b)
                              if isinstance(n, ast.Name)}
                    if not tnames & inside:
                        direct = stmt.targets[0]
                if mode == 'with':
                    def enter(val):
                        head = []
                        if stmt.items[0].optional_vars is not None:
                            head = [ast.Assign(
                                targets=[copy.deepcopy(
                                    stmt.items[0].optional_vars)],
                                value=val if val is not None else
                                ast.Constant(value=None),
                                lineno=stmt.lineno)]
                        return head + list(stmt.body)
                    body = _replace_yields(body, enter)
                elif mode == 'for':
                    def splice(val):
                        head = []
                        if ast.unparse(val).strip('()') != ast.unparse(
                                stmt.target).strip('()'):
                            head = [ast.Assign(
                                targets=[copy.deepcopy(stmt.target)],
                                value=val, lineno=stmt.lineno)]
                        return head + copy.deepcopy(stmt.body)
                    body = _replace_yields(body, splice)
                elif mode == 'list':
                    acc = stmt.targets[0].id
                    body = [ast.Assign(
                        targets=[ast.Name(id=acc, ctx=ast.Store())],
                        value=ast.List(elts=[], ctx=ast.Load()),
                        lineno=stmt.lineno)] + _replace_yields(
                            body, lambda val: [ast.Expr(value=ast.Call(
                                func=ast.Attribute(
                                    value=ast.Name(id=acc, ctx=ast.Load()),
                                    attr='append', ctx=ast.Load()),
                                args=[val], keywords=[]))])
                new = pre + body
                if mode == 'assign' and direct is not None:
                    # every `result = E` of the helper is `<targets> = E`
                    for sub in [n for b in new for n in ast.walk(b)]:
                        if isinstance(sub, ast.Assign) and len(
                                sub.targets) == 1 and isinstance(
                                    sub.targets[0], ast.Name) and \
                                sub.targets[0].id == retvar:
                            sub.targets = [copy.deepcopy(direct)]
                elif mode == 'assign':
                    new.append(ast.Assign(
                        targets=stmt.targets,
                        value=ast.Name(id=retvar, ctx=ast.Load()),
                        lineno=stmt.lineno))
                if not new:
                    new = [ast.Pass()]
                for node in new:
                    ast.copy_location(node, stmt)
                outer.n_inlined += 1
                outer.inlined_names.add(fdef.name)
                caller_names.update(n.id for s in new for n in ast.walk(s)
                                    if isinstance(n, ast.Name))
                return new
            func.body = block(func.body)
        self._each_function(run)

    def _each_function(self, action):
        def visit(body, klass):
            for node in body:
                if isinstance(node, ast.FunctionDef):
                    action(node, klass)
                elif isinstance(node, ast.ClassDef):
                    visit(node.body, node)
        visit(self.tree.body, None)

    # -- removal
    def remove_unreferenced(self, helpers):
        removed = 0
        for (kname, hname), fdef in helpers.items():
            if hname not in self.inlined_names:
                # never called from this module: an entry point, not a helper
                continue
            refs = 0
            for node in ast.walk(self.tree):
                if isinstance(node, ast.Name) and node.id == hname:
                    refs += 1
                elif isinstance(node, ast.Attribute) and node.attr == hname:
                    refs += 1
                elif isinstance(node, ast.Constant) and isinstance(
                        node.value, str) and node.value == hname:
                    refs += 1
            name_re = re.escape(hname)
            if refs or re.search(
                    r'(\.%s\b|\b%s\s*\(|import[^\n]*\b%s\b|[\'"]%s[\'"])'
                    % (name_re, name_re, name_re, name_re), self.foreign):
                continue
            holder = next((lst for n in ast.walk(self.tree)
                           for fld in ('body', 'orelse', 'finalbody')
                           for lst in [getattr(n, fld, None)]
                           if isinstance(lst, list) and
                           any(x is fdef for x in lst)), None)
            if holder is None:
                continue
            holder.remove(fdef)
            if not holder:
                holder.append(ast.Pass())
            removed += 1
        return removed


def _fuse_iter_temps(tree):
    '''x = <call>; for t in x: ...  ->  for t in <call>: ...   when x is
    used nowhere else (a helper parameter bound to a generator call).'''
    for func in [n for n in ast.walk(tree)
                 if isinstance(n, ast.FunctionDef)]:
        counts = {}
        for node in ast.walk(func):
            if isinstance(node, ast.Name):
                counts[node.id] = counts.get(node.id, 0) + 1
        for holder in ast.walk(func):
            for fld in ('body', 'orelse', 'finalbody'):
                block = getattr(holder, fld, None)
                if not (isinstance(block, list) and block and isinstance(
                        block[0], ast.stmt)):
                    continue
                idx = 0
                while idx + 1 < len(block):
                    one, two = block[idx], block[idx + 1]
                    if isinstance(one, ast.Assign) and len(
                            one.targets) == 1 and isinstance(
                                one.targets[0], ast.Name) and isinstance(
                                    one.value, ast.Call) and isinstance(
                                        two, ast.For) and isinstance(
                                            two.iter, ast.Name) and \
                            two.iter.id == one.targets[0].id and \
                            counts.get(two.iter.id) == 2:
                        two.iter = one.value
                        del block[idx]
                        continue
                    idx += 1
    return tree


def _split_tuple_assigns(tree):
    '''a, b = (x, y)  ->  a = x; b = y   when no target is read by a later
    right-hand side (same meaning, and every name keeps a definition of its
    own for the rules that follow values through assignments).'''
    for holder in ast.walk(tree):
        for fld in ('body', 'orelse', 'finalbody'):
            block = getattr(holder, fld, None)
            if not (isinstance(block, list) and block and isinstance(
                    block[0], ast.stmt)):
                continue
            out = []
            for stmt in block:
                if isinstance(stmt, ast.Assign) and len(stmt.targets) == 1 \
                        and isinstance(stmt.targets[0], ast.Tuple) and \
                        isinstance(stmt.value, ast.Tuple) and len(
                            stmt.targets[0].elts) == len(stmt.value.elts) \
                        and all(isinstance(t, ast.Name)
                                for t in stmt.targets[0].elts):
                    names = [t.id for t in stmt.targets[0].elts]
                    safe = all(
                        not any(isinstance(n, ast.Name) and n.id in
                                names[:idx] for n in ast.walk(val))
                        for idx, val in enumerate(stmt.value.elts))
                    if safe:
                        for tgt, val in zip(stmt.targets[0].elts,
                                            stmt.value.elts):
                            out.append(ast.copy_location(ast.Assign(
                                targets=[tgt], value=val,
                                lineno=stmt.lineno), stmt))
                        continue
                out.append(stmt)
            setattr(holder, fld, out)
        if isinstance(holder, ast.Try):
            for hdl in holder.handlers:
                pass
    return tree


class _Operators(ast.NodeTransformer):
    '''operator.add(a, b) -> a + b  (after a helper parameter was bound to
    the function object).'''
    BIN = {'add': ast.Add, 'sub': ast.Sub, 'mul': ast.Mult,
           'truediv': ast.Div, 'floordiv': ast.FloorDiv, 'mod': ast.Mod,
           'pow': ast.Pow, 'and_': ast.BitAnd, 'or_': ast.BitOr,
           'xor': ast.BitXor}
    CMP = {'lt': ast.Lt, 'le': ast.LtE, 'gt': ast.Gt, 'ge': ast.GtE,
           'eq': ast.Eq, 'ne': ast.NotEq}

    def visit_BinOp(self, node):
        self.generic_visit(node)
        # x + -1 -> x - 1 ; x - -1 -> x + 1 (a constant bound to a parameter)
        if isinstance(node.op, (ast.Add, ast.Sub)) and isinstance(
                node.right, ast.UnaryOp) and isinstance(
                    node.right.op, ast.USub) and isinstance(
                        node.right.operand, ast.Constant):
            flip = ast.Sub() if isinstance(node.op, ast.Add) else ast.Add()
            return ast.copy_location(ast.BinOp(
                left=node.left, op=flip, right=node.right.operand), node)
        return node

    def visit_Call(self, node):
        self.generic_visit(node)
        if isinstance(node.func, ast.Attribute) and isinstance(
                node.func.value, ast.Name) and \
                node.func.value.id == 'operator' and not node.keywords:
            name = node.func.attr
            if name in self.BIN and len(node.args) == 2:
                return ast.copy_location(ast.BinOp(
                    left=node.args[0], op=self.BIN[name](),
                    right=node.args[1]), node)
            if name in self.CMP and len(node.args) == 2:
                return ast.copy_location(ast.Compare(
                    left=node.args[0], ops=[self.CMP[name]()],
                    comparators=[node.args[1]]), node)
            if name == 'neg' and len(node.args) == 1:
                return ast.copy_location(ast.UnaryOp(
                    op=ast.USub(), operand=node.args[0]), node)
            if name == 'not_' and len(node.args) == 1:
                return ast.copy_location(ast.UnaryOp(
                    op=ast.Not(), operand=node.args[0]), node)
        return node


# ------------------------------------------------------ dispatch tables ---

def _const_key(node):
    if isinstance(node, ast.Constant):
        return True
    while isinstance(node, ast.Attribute):
        node = node.value
    return isinstance(node, ast.Name)


def _callable_value(node):
    if isinstance(node, ast.Lambda):
        return False
    while isinstance(node, ast.Attribute):
        node = node.value
    return isinstance(node, ast.Name)


def _table_literal(value):
    '''[(key, callable)] of a dict display of callables keyed by
    constants, else None.'''
    if not isinstance(value, ast.Dict) or len(value.keys) < 2:
        return None
    if any(k is None or not _const_key(k) for k in value.keys):
        return None
    if not all(_callable_value(v) for v in value.values):
        return None
    if len({ast.unparse(k) for k in value.keys}) != len(value.keys):
        return None
    return list(zip(value.keys, value.values))


def _lookup(expr, tables):
    '''(table name, key expr, default expr or None, kind) when `expr` is
    T[k] / T.get(k) / T.get(k, d) on a known table.'''
    def tname(node):
        if isinstance(node, ast.Name) and node.id in tables:
            return node.id
        if isinstance(node, ast.Attribute) and isinstance(
                node.value, ast.Name) and node.attr in tables and \
                tables[node.attr][1] != 'local':
            return node.attr
        return None
    if isinstance(expr, ast.Subscript) and isinstance(expr.ctx, ast.Load):
        name = tname(expr.value)
        if name is not None:
            return name, expr.slice, None, 'item'
    if isinstance(expr, ast.Call) and isinstance(expr.func, ast.Attribute) \
            and expr.func.attr == 'get' and not expr.keywords and \
            len(expr.args) in (1, 2):
        name = tname(expr.func.value)
        if name is not None:
            dflt = expr.args[1] if len(expr.args) == 2 else None
            if dflt is not None:
                # T.get(k, T[None]): the default is an entry of the table
                inner = _lookup(dflt, tables)
                if inner is not None and inner[0] == name and \
                        inner[3] == 'item':
                    hit = [v for k, v in tables[name][0]
                           if ast.unparse(k) == ast.unparse(inner[1])]
                    dflt = hit[0] if hit else None
                    if dflt is None:
                        return None
                elif not _callable_value(dflt):
                    return None
            return name, expr.args[0], dflt, 'get'
    return None


def _desugar_dispatch(tree, foreign_text=''):
    '''`T = {K1: f1, K2: f2}; ...; T[k](args)` (also T.get(k, d)(args) and
    `h = T.get(k); if h is not None: h(args)`) becomes the if / elif chain
    on k that it abbreviates.  Tables: a local of the function assigned
    once, or a class / module constant that the module only looks up.
    Returns the number of rewritten sites.'''
    count = [0]
    temp = [0]
    # class and module constants
    shared = {}
    for holder, kind in [(tree, 'module')] + [
            (n, 'class') for n in ast.walk(tree)
            if isinstance(n, ast.ClassDef)]:
        for stmt in holder.body:
            if isinstance(stmt, ast.Assign) and len(stmt.targets) == 1 and \
                    isinstance(stmt.targets[0], ast.Name):
                entries = _table_literal(stmt.value)
                if entries is not None:
                    shared[stmt.targets[0].id] = (entries, kind, stmt)
    for name in list(shared):
        uses = defs = 0
        for node in ast.walk(tree):
            if isinstance(node, ast.Name) and node.id == name:
                if isinstance(node.ctx, ast.Store):
                    defs += 1
                else:
                    uses += 1
            elif isinstance(node, ast.Attribute) and node.attr == name:
                if isinstance(node.ctx, ast.Store):
                    defs += 1
                else:
                    uses += 1
        looked = sum(1 for node in ast.walk(tree)
                     if _lookup(node, {name: shared[name]}) is not None)
        if defs != 1 or looked != uses or re.search(
                r'\b%s\b' % re.escape(name), foreign_text):
            del shared[name]

    def key_test(kexpr, key):
        if isinstance(key, ast.Constant) and key.value is None:
            return ast.Compare(left=copy.deepcopy(kexpr), ops=[ast.Is()],
                               comparators=[ast.Constant(value=None)])
        return ast.Compare(left=copy.deepcopy(kexpr), ops=[ast.Eq()],
                           comparators=[copy.deepcopy(key)])

    def chain(entries, kexpr, dflt, kind, make):
        '''make(callable expr or None) -> list of statements.'''
        pre = []
        keys = {ast.unparse(k) for k, _ in entries}
        if keys == {'True', 'False'} and isinstance(kexpr, ast.Call) and \
                isinstance(kexpr.func, ast.Name) and kexpr.func.id == \
                'bool' and len(kexpr.args) == 1:
            by = {ast.unparse(k): v for k, v in entries}
            return [ast.If(test=copy.deepcopy(kexpr.args[0]),
                           body=make(by['True']),
                           orelse=make(by['False']))]
        if not _simple(kexpr):
            temp[0] += 1
            kname = f'_key{temp[0]}'
            pre.append(ast.Assign(
                targets=[ast.Name(id=kname, ctx=ast.Store())],
                value=kexpr, lineno=0))
            kexpr = ast.Name(id=kname, ctx=ast.Load())
        if dflt is not None:
            last = make(dflt)
        elif kind == 'item':
            last = [ast.Raise(exc=ast.Call(
                func=ast.Name(id='KeyError', ctx=ast.Load()),
                args=[copy.deepcopy(kexpr)], keywords=[]), cause=None)]
        else:
            last = make(None)
        node = None
        for key, val in reversed(entries):
            node = ast.If(test=key_test(kexpr, key), body=make(val),
                          orelse=[node] if node is not None else last)
        return pre + [node]

    def call_stmt_of(stmt):
        '''The call that is the whole value of the statement.'''
        if isinstance(stmt, ast.Expr) and isinstance(stmt.value, ast.Call):
            return stmt.value
        if isinstance(stmt, (ast.Assign, ast.Return)) and isinstance(
                stmt.value, ast.Call):
            return stmt.value
        return None

    def with_func(stmt, call, func_expr):
        new = copy.deepcopy(stmt)
        target = call_stmt_of(new)
        target.func = copy.deepcopy(func_expr)
        return new

    def rewrite_function(func):
        tables = dict(shared)
        local_defs = {}
        for node in _local_nodes(func):
            if isinstance(node, ast.Assign) and len(node.targets) == 1 and \
                    isinstance(node.targets[0], ast.Name):
                entries = _table_literal(node.value)
                name = node.targets[0].id
                if entries is not None and name not in shared:
                    stores = sum(1 for n in ast.walk(func) if isinstance(
                        n, ast.Name) and n.id == name and
                        isinstance(n.ctx, (ast.Store, ast.Del)))
                    if stores == 1:
                        tables[name] = (entries, 'local', node)
                        local_defs[name] = node
        if not tables:
            return
        for name in list(local_defs):
            uses = sum(1 for n in ast.walk(func) if isinstance(
                n, ast.Name) and n.id == name and isinstance(n.ctx, ast.Load))
            looked = sum(1 for n in ast.walk(func) if _lookup(
                n, {name: tables[name]}) is not None)
            if uses != looked:
                del tables[name]
                del local_defs[name]

        def name_uses(ident):
            return sum(1 for n in ast.walk(func)
                       if isinstance(n, ast.Name) and n.id == ident)

        def block(stmts):
            out = []
            idx = 0
            while idx < len(stmts):
                stmt = stmts[idx]
                idx += 1
                if isinstance(stmt, (ast.FunctionDef, ast.AsyncFunctionDef,
                                     ast.ClassDef)):
                    out.append(stmt)
                    continue
                for fld in ('body', 'orelse', 'finalbody'):
                    sub = getattr(stmt, fld, None)
                    if isinstance(sub, list) and sub and isinstance(
                            sub[0], ast.stmt):
                        setattr(stmt, fld, block(sub))
                for hdl in getattr(stmt, 'handlers', []) or []:
                    hdl.body = block(hdl.body)
                # T[k](args) as a whole statement
                call = call_stmt_of(stmt)
                look = _lookup(call.func, tables) if call is not None \
                    else None
                if look is not None:
                    name, kexpr, dflt, kind = look

                    def make(val, stmt=stmt, call=call, kind=kind):
                        if val is None:
                            return [ast.Raise(exc=ast.Call(
                                func=ast.Name(id='TypeError',
                                              ctx=ast.Load()),
                                args=[], keywords=[]), cause=None)]
                        return [with_func(stmt, call, val)]
                    out.extend(chain(tables[name][0], kexpr, dflt, kind,
                                     make))
                    count[0] += 1
                    continue
                # h = T.get(k) ... if h is not None: h(args)  /  h(args)
                if isinstance(stmt, ast.Assign) and len(stmt.targets) == 1 \
                        and isinstance(stmt.targets[0], ast.Name):
                    look = _lookup(stmt.value, tables)
                    hname = stmt.targets[0].id
                    nxt = next((j for j in range(idx, len(stmts))
                                if any(isinstance(n, ast.Name) and
                                       n.id == hname
                                       for n in ast.walk(stmts[j]))), None)
                    if look is not None and nxt is not None:
                        name, kexpr, dflt, kind = look
                        use = stmts[nxt]
                        between = stmts[idx:nxt]
                        guarded = None
                        if isinstance(use, ast.If) and not use.orelse:
                            test = use.test
                            if (isinstance(test, ast.Name) and
                                    test.id == hname) or (
                                        isinstance(test, ast.Compare) and
                                        isinstance(test.left, ast.Name) and
                                        test.left.id == hname and
                                        len(test.ops) == 1 and isinstance(
                                            test.ops[0], ast.IsNot) and
                                        isinstance(test.comparators[0],
                                                   ast.Constant) and
                                        test.comparators[0].value is None):
                                guarded = use.body
                        body = guarded if guarded is not None else [use]
                        calls = [n for b in body for n in ast.walk(b)
                                 if isinstance(n, ast.Call) and isinstance(
                                     n.func, ast.Name) and
                                 n.func.id == hname]
                        n_body = sum(1 for b in body for n in ast.walk(b)
                                     if isinstance(n, ast.Name) and
                                     n.id == hname)
                        expected = 1 + n_body + (1 if guarded is not None
                                                 else 0)
                        # (a single simple statement in which the name is
                        # only ever called: duplicated per entry)
                        simple_use = guarded is not None or isinstance(
                            use, (ast.Expr, ast.Assign, ast.Return,
                                  ast.AugAssign))
                        if calls and len(calls) == n_body and simple_use \
                                and name_uses(hname) == expected and (
                                    guarded is not None or
                                    dflt is not None or kind == 'item'):
                            def make(val, body=body, hname=hname):
                                if val is None:
                                    return [ast.Pass()]
                                new = [copy.deepcopy(b) for b in body]
                                for b in new:
                                    for n in ast.walk(b):
                                        if isinstance(n, ast.Call) and \
                                                isinstance(n.func, ast.Name) \
                                                and n.func.id == hname:
                                            n.func = copy.deepcopy(val)
                                return new
                            out.extend(between)
                            out.extend(chain(tables[name][0], kexpr, dflt,
                                             kind, make))
                            count[0] += 1
                            idx = nxt + 1
                            continue
                out.append(stmt)
            return out

        before = count[0]
        func.body = block(func.body)
        if count[0] == before:
            return
        # a local table that is no longer looked up goes away
        for name, node in local_defs.items():
            if not any(isinstance(n, ast.Name) and n.id == name and
                       isinstance(n.ctx, ast.Load) for n in ast.walk(func)):
                for holder in ast.walk(func):
                    for fld in ('body', 'orelse', 'finalbody'):
                        lst = getattr(holder, fld, None)
                        if isinstance(lst, list) and any(
                                x is node for x in lst):
                            lst.remove(node)
                            if not lst:
                                lst.append(ast.Pass())

    for func in [n for n in ast.walk(tree)
                 if isinstance(n, ast.FunctionDef)]:
        rewrite_function(func)
    # shared tables that are no longer looked up go away
    if count[0]:
        for name, (_entries, _kind, node) in shared.items():
            if not any(_lookup(n, {name: shared[name]}) is not None
                       for n in ast.walk(tree)):
                for holder in ast.walk(tree):
                    lst = getattr(holder, 'body', None)
                    if isinstance(lst, list) and any(x is node for x in lst):
                        lst.remove(node)
                        if not lst:
                            lst.append(ast.Pass())
    return count[0]


def inline_source(src, foreign_text='', known=(), exported=None):
    '''(new source, number of call sites inlined).  `exported`: {module
    name: {function name: FunctionDef}} of the new single-expression helpers
    of the other modules.'''
    tree = ast.parse(src)
    total = 0
    imported = {}
    for node in tree.body:
        if isinstance(node, ast.ImportFrom) and node.module and exported:
            for modname, funcs in exported.items():
                if modname.endswith(node.module.lstrip('.')) or \
                        node.module.endswith(modname.split('.')[-1]):
                    for alias in node.names:
                        if alias.name in funcs:
                            imported[alias.asname or alias.name] = \
                                funcs[alias.name]
    total += _desugar_dispatch(tree, foreign_text)
    ast.fix_missing_locations(tree)
    for _ in range(MAX_ROUNDS):
        inl = _Inliner(tree, foreign_text, known, imported)
        helpers = inl.helpers()
        if not helpers:
            break
        inl.inline_expressions(helpers)
        inl.inline_statements(helpers)
        if not inl.n_inlined:
            break
        total += inl.n_inlined
        inl.remove_unreferenced(inl.helpers())
        _fuse_iter_temps(tree)
    if not total:
        return src, 0
    tree = _Operators().visit(tree)
    tree = _split_tuple_assigns(tree)
    ast.fix_missing_locations(tree)
    new = ast.unparse(tree) + '\n'
    with warnings.catch_warnings():
        warnings.simplefilter('ignore')
        compile(new, '<inlined>', 'exec', dont_inherit=True)
    return new, total


def build_overlay(program, only=None):
    '''Overlay {relpath: source} of the helper-inlined view of the program
    (modules in which nothing could be inlined are absent).'''
    sources = {mod.relpath: mod.src for mod in program.modules.values()}
    overlay = dict(program.overlay)
    # single-expression helpers that a change added to a module and that
    # other modules import by name (`from ..path import task_path`)
    exported = {}
    for mod in program.modules.values():
        known = reference_functions().get(mod.relpath, ())
        try:
            tree = ast.parse(mod.src)
        except SyntaxError:
            continue
        for node in tree.body:
            if isinstance(node, ast.FunctionDef) and _eligible(
                    node, None, known):
                body = _strip_doc(node.body)
                if len(body) == 1 and isinstance(body[0], ast.Return) and \
                        body[0].value is not None:
                    exported.setdefault(mod.name, {})[node.name] = node
    for rel, src in sources.items():
        if only is not None and rel not in only:
            continue
        foreign = '\n'.join(s for r, s in sources.items() if r != rel)
        try:
            new, count = inline_source(
                src, foreign, reference_functions().get(rel, ()), exported)
        except (SyntaxError, ValueError, RecursionError):
            continue
        if count:
            overlay[rel] = new
    return overlay
