'''Small AST helpers shared by the rules.'''
import ast


def dotted(expr):
    '''"self.env.lock" for Name/Attribute chains, else None.'''
    parts = []
    while isinstance(expr, ast.Attribute):
        parts.append(expr.attr)
        expr = expr.value
    if isinstance(expr, ast.Name):
        parts.append(expr.id)
        return '.'.join(reversed(parts))
    return None


def txt(node):
    return ' '.join(ast.unparse(node).split()) if node is not None else ''


def calls_in(node, include_nested_defs=False):
    '''Call nodes inside `node` in source order (does not enter nested
    function definitions / lambdas unless asked).'''
    out = []

    def visit(cur):
        if not include_nested_defs and cur is not node and isinstance(
                cur, (ast.FunctionDef, ast.AsyncFunctionDef, ast.Lambda,
                      ast.ClassDef)):
            return
        if isinstance(cur, ast.Call):
            out.append(cur)
        for child in ast.iter_child_nodes(cur):
            visit(child)
    visit(node)
    out.sort(key=lambda c: (c.lineno, c.col_offset))
    return out


def walk_local(node):
    '''ast.walk that does not enter nested function/class definitions or
    lambdas (the node itself is yielded even if it is one).'''
    todo = [node]
    first = True
    while todo:
        cur = todo.pop()
        if not first and isinstance(cur, (ast.FunctionDef, ast.Lambda,
                                          ast.AsyncFunctionDef,
                                          ast.ClassDef)):
            continue
        first = False
        yield cur
        todo.extend(ast.iter_child_nodes(cur))


def names_loaded(node):
    return {n.id for n in ast.walk(node)
            if isinstance(n, ast.Name) and isinstance(n.ctx, ast.Load)}


def names_stored(node):
    return {n.id for n in ast.walk(node)
            if isinstance(n, ast.Name) and isinstance(n.ctx, (ast.Store,
                                                              ast.Del))}


def call_name(call):
    '''Last component of the callee ("set_status" for x.y.set_status(..)).'''
    fun = call.func
    if isinstance(fun, ast.Attribute):
        return fun.attr
    if isinstance(fun, ast.Name):
        return fun.id
    return None


def receiver(call):
    fun = call.func
    return fun.value if isinstance(fun, ast.Attribute) else None


def is_const(node, value=...):
    if not isinstance(node, ast.Constant):
        return False
    return True if value is ... else node.value is value or \
        node.value == value


def enum_member(expr, enum_name):
    '''"DONE" for TaskStatus.DONE (also module.TaskStatus.DONE).'''
    if isinstance(expr, ast.Attribute):
        base = expr.value
        if isinstance(base, ast.Name) and base.id == enum_name:
            return expr.attr
        if isinstance(base, ast.Attribute) and base.attr == enum_name:
            return expr.attr
    return None


def get_arg(call, pos, name=None):
    if pos is not None and len(call.args) > pos and not any(
            isinstance(a, ast.Starred) for a in call.args[:pos + 1]):
        return call.args[pos]
    if name is not None:
        for kwd in call.keywords:
            if kwd.arg == name:
                return kwd.value
    return None


def stmts_in(body):
    '''All statements (recursively) of a block, in source order, not
    entering nested defs.'''
    for stmt in body:
        yield stmt
        if isinstance(stmt, (ast.FunctionDef, ast.AsyncFunctionDef,
                             ast.ClassDef)):
            continue
        for fld in ('body', 'orelse', 'finalbody'):
            sub = getattr(stmt, fld, None)
            if isinstance(sub, list):
                yield from stmts_in(sub)
        for hdl in getattr(stmt, 'handlers', []) or []:
            yield from stmts_in(hdl.body)


def enclosing_chain(root):
    '''{id(node): parent} for every node below root.'''
    parents = {}
    for node in ast.walk(root):
        for child in ast.iter_child_nodes(node):
            parents[id(child)] = node
    return parents


def lexically_inside(parents, node, pred):
    cur = parents.get(id(node))
    while cur is not None:
        if pred(cur):
            return cur
        cur = parents.get(id(cur))
    return None
