'''MERGE-DONE and EXC-COVER: persisted environments (C04, C14).'''
import ast
import builtins

from ..astutil import (dotted, call_name, receiver, txt, enum_member,
                       calls_in, walk_local, enclosing_chain,
                       lexically_inside)
from ..cfg import CFG
from ..loader import AnalysisError

READ_ENV = 'valjean.cambronne.common:read_env'

# classes the pickle documentation / implementation raise for a damaged
# stream: EOFError and UnpicklingError are reached by plain truncation; the
# others by a stream whose opcodes are cut in the middle of a global
# reference or a memo index.
UNPICKLE_FAILURES = ('EOFError', 'UnpicklingError', 'AttributeError',
                     'ImportError', 'IndexError')
# other decoders of file content and what they raise on a damaged stream
DECODERS = {
    ('zlib', 'decompress'): ('error',),
    ('zlib', 'decompressobj'): ('error',),
    ('gzip', 'decompress'): ('OSError', 'EOFError', 'error'),
    ('bz2', 'decompress'): ('OSError', 'ValueError'),
    ('lzma', 'decompress'): ('LZMAError',),
    ('json', 'loads'): ('ValueError',),
    ('json', 'load'): ('ValueError',),
    ('base64', 'b64decode'): ('ValueError',),
    ('binascii', 'unhexlify'): ('ValueError',),
    ('struct', 'unpack'): ('error',),
    ('marshal', 'loads'): ('ValueError', 'EOFError', 'TypeError'),
}
_HIER = {'UnpicklingError': ('PickleError', 'Exception'),
         'PickleError': ('Exception',),
         'PicklingError': ('PickleError', 'Exception')}


def catches(handler_names, raised):
    '''handler_names: list of class names (last component) or None (bare).'''
    if handler_names is None:
        return True
    for hname in handler_names:
        if hname in ('BaseException', 'Exception'):
            return True
        if hname == raised or hname in _HIER.get(raised, ()):
            return True
        hcls = getattr(builtins, hname, None)
        rcls = getattr(builtins, raised, None)
        if isinstance(hcls, type) and isinstance(rcls, type) and \
                issubclass(rcls, hcls):
            return True
    return False


def handler_names(hdl, mod=None):
    if hdl.type is None:
        return None
    def expand(htype, depth=0):
        # `except DAMAGED_FILE_ERRORS:` - a module-level tuple of classes;
        # `except (OSError,) + DAMAGED_FILE_ERRORS:` - a concatenation
        if isinstance(htype, ast.Name) and mod is not None and isinstance(
                mod.toplevel.get(htype.id), ast.Tuple) and depth < 3:
            return expand(mod.toplevel[htype.id], depth + 1)
        if isinstance(htype, ast.BinOp) and isinstance(htype.op, ast.Add):
            return expand(htype.left, depth) + expand(htype.right, depth)
        if isinstance(htype, ast.Tuple):
            out = []
            for elt in htype.elts:
                out += expand(elt, depth)
            return out
        return [txt(htype).split('.')[-1]]
    return expand(hdl.type)


def find_merge(program):
    '''(read_env FuncInfo, [(from_file var, merge call, merge FuncInfo)]).'''
    func = program.func(READ_ENV)
    loaded = {}
    for node in walk_local(func.node):
        if isinstance(node, ast.Assign) and len(node.targets) == 1 and \
                isinstance(node.targets[0], ast.Name) and \
                isinstance(node.value, ast.Call) and \
                call_name(node.value) in ('from_file', 'load', 'loads'):
            loaded[node.targets[0].id] = node.value
    return func, loaded


def check_merge_done(ctx):
    program = ctx.program
    func, loaded = find_merge(program)
    ctx.floor('MERGE-DONE', len(loaded), 1,
              'value read from a persisted file in read_env')
    merges = []
    for var in loaded:
        for node in walk_local(func.node):
            if isinstance(node, ast.Name) and node.id == var and \
                    isinstance(node.ctx, ast.Load):
                par = enclosing_chain(func.node)
                up = par.get(id(node))
                if isinstance(up, ast.Compare) and any(
                        isinstance(c, ast.Constant) and c.value is None
                        for c in up.comparators):
                    continue
                if isinstance(up, ast.Call) and node in up.args and \
                        receiver(up) is not None:
                    cands, how = program.resolve_call(func, up)
                    if cands:
                        merges.append((up, cands[0]))
                        continue
                if isinstance(up, ast.Call) and call_name(up) in (
                        'debug', 'info', 'len'):
                    continue
                ctx.violated('MERGE-DONE', func,
                             f'persisted environment `{var}` used outside '
                             f'the DONE-only merge: {txt(up)[:60]}',
                             at=func.where(node),
                             detail='entries read from disk must enter the '
                                    'environment only through the merge '
                                    'that keeps DONE entries')
    ctx.floor('MERGE-DONE-call', len(merges), 1,
              'merge call receiving the persisted environment')
    for call, merge in merges:
        program.consulted.add(merge.module.relpath)
        _check_merge_body(ctx, merge)


def _check_merge_body(ctx, merge):
    '''Every store into self[...] is reached only through a test that the
    entry's status equals DONE.'''
    cfg = CFG(merge.node, may_raise=lambda n: False)
    params = [p for p in merge.params if p not in ('self', 'cls')]
    stores = [n for n in cfg.nodes if n.kind == 'stmt' and isinstance(
        n.ast, (ast.Assign, ast.AugAssign)) and any(
            isinstance(t, ast.Subscript) and dotted(t.value) in (
                'self', 'self.dictionary')
            for t in (n.ast.targets if isinstance(n.ast, ast.Assign)
                      else [n.ast.target]))]
    updates = [n for n in cfg.nodes if n.kind == 'stmt' and any(
        call_name(c) in ('update', 'setdefault') and
        dotted(receiver(c)) in ('self', 'self.dictionary')
        for c in calls_in(n.ast))]
    for node in updates:
        ctx.violated('MERGE-DONE', merge, f'bulk write {node.text(60)}',
                     at=merge.where(node.ast),
                     detail='copies entries whatever their status')
    if not stores and not updates:
        raise AnalysisError('MERGE-DONE: no store into the environment '
                            'found in the merge function')
    for store in stores:
        ok_all = True
        n_paths = 0
        try:
            for path in cfg.paths(cfg.entry, stop_ids={store.id}):
                last, _ = path[-1]
                if last is not store:
                    continue
                n_paths += 1
                guarded = False
                for node, label in path:
                    if node.kind == 'test' and _done_test(node.ast) is not \
                            None:
                        eq_when_true = _done_test(node.ast)
                        if (label == 'true') == eq_when_true:
                            guarded = True
                        else:
                            guarded = False
                    if node.kind == 'iter' and label == 'loop':
                        guarded = False      # new entry
                if not guarded:
                    ok_all = False
        except OverflowError:
            ok_all = None
        ctx.decide('MERGE-DONE', merge, f'{store.text(60)} only for '
                   f'entries whose status is DONE',
                   ok_all if n_paths else None, at=merge.where(store.ast),
                   detail={'paths': n_paths})


def _done_test(test):
    '''True if the test is `<x>['status'] == DONE` (true edge = equal),
    False if `!=`, None if not such a test.'''
    if isinstance(test, ast.Compare) and len(test.ops) == 1:
        left, op, right = test.left, test.ops[0], test.comparators[0]
        for sub, other in ((left, right), (right, left)):
            if isinstance(sub, ast.Subscript) and isinstance(
                    sub.slice, ast.Constant) and sub.slice.value == 'status' \
                    and enum_member(other, 'TaskStatus') == 'DONE':
                if isinstance(op, (ast.Eq, ast.Is)):
                    return True
                if isinstance(op, (ast.NotEq, ast.IsNot)):
                    return False
            if isinstance(sub, ast.Call) and call_name(sub) == 'get' and \
                    sub.args and isinstance(sub.args[0], ast.Constant) and \
                    sub.args[0].value == 'status' and \
                    enum_member(other, 'TaskStatus') == 'DONE':
                if isinstance(op, (ast.Eq, ast.Is)):
                    return True
                if isinstance(op, (ast.NotEq, ast.IsNot)):
                    return False
    return None


# ------------------------------------------------------------ EXC-COVER ---

def unpickle_sites(program, start, depth=0, seen=None):
    '''pickle.load(s) calls reachable from `start`: list of
    (chain of (func, call), func, call).'''
    seen = seen if seen is not None else set()
    if start.key in seen or depth > 4:
        return []
    seen.add(start.key)
    out = []
    from ..loader import enclosing_function
    for call in calls_in(start.node, include_nested_defs=True):
        cname = call_name(call)
        inner = enclosing_function(start.module, call.lineno) or start
        if (cname in ('load', 'loads') and dotted(receiver(call)) in (
                'pickle', 'cPickle', '_pickle')) or cname == 'Unpickler':
            out.append(([], inner, call))
            continue
        # <UnpicklerSubclass>(file).load()
        if cname == 'load' and isinstance(receiver(call), ast.Call):
            from ..loader import ClassInfo
            klass = program.resolve_name_expr(inner.module,
                                              receiver(call).func, inner)
            if isinstance(klass, ClassInfo) and any(
                    'Unpickler' in b for b in program.base_names(klass)):
                out.append(([], inner, call))
                continue
        cands, how = program.resolve_call(inner, call)
        if how == 'by-unique-name':
            continue
        for cand in cands:
            for chain, fun, site in unpickle_sites(program, cand, depth + 1,
                                                   seen):
                out.append(([(start, call)] + chain, fun, site))
    return out


def _check_reader_accepts_all(ctx, sites):
    '''"returns exactly the entry that was written": the writer pickles the
    entries as they are; a reader with its own Unpickler subclass whose
    find_class / persistent_load RAISES for some globals refuses entries the
    writer produced (and the handler of damaged files then swallows the
    refusal): an intact DONE entry silently comes back as not done.'''
    from ..loader import ClassInfo
    program = ctx.program
    for _chain, func, call in sites:
        recv = receiver(call)
        if not isinstance(recv, ast.Call):
            continue
        klass = program.resolve_name_expr(func.module, recv.func, func)
        if not isinstance(klass, ClassInfo):
            continue
        for mname in ('find_class', 'persistent_load'):
            meth = klass.methods.get(mname)
            if meth is None:
                continue
            raises = [n for n in walk_local(meth.node)
                      if isinstance(n, ast.Raise)]
            ctx.decide('READ-FAITHFUL', meth,
                       f'{klass.name}.{mname} accepts every global the '
                       f'writer may have pickled', not raises,
                       at=meth.where(raises[0]) if raises else meth.where(),
                       detail=None if not raises else
                       'a restricted unpickler turns a complete, correct '
                       'file into a "damaged" one: the task is re-run on '
                       'every invocation')


def _protection(chain, func, call):
    '''Try statements protecting the call: in its own function (outer
    functions of a nested def included through their call site) and at each
    call site of the chain.  List of (FuncInfo, Try node).'''
    protected_by = []
    hops = [(func, call)] + list(reversed(chain))
    # nested def: the call site of the nested function in its parent
    cur = func
    while cur.parent is not None:
        for sub in calls_in(cur.parent.node):
            if isinstance(sub.func, ast.Name) and \
                    sub.func.id == cur.name:
                hops.insert(1, (cur.parent, sub))
        cur = cur.parent
    for hfunc, hcall in hops:
        parents = enclosing_chain(hfunc.node)
        node = hcall
        while True:
            par = parents.get(id(node))
            if par is None:
                break
            if isinstance(par, ast.Try) and any(
                    node is s or node in list(ast.walk(s))
                    for s in par.body):
                protected_by.append((hfunc, par))
            node = par
    return protected_by


def check_exc_cover(ctx):
    program = ctx.program
    start = program.func(READ_ENV)
    sites = unpickle_sites(program, start)
    ctx.floor('EXC-COVER', len(sites), 1,
              'pickle.load(s) reachable from read_env')
    _check_reader_accepts_all(ctx, sites)
    done = set()
    for chain, func, call in sites:
        if id(call) in done:
            continue
        done.add(id(call))
        program.consulted.add(func.module.relpath)
        protected_by = _protection(chain, func, call)
        where = func.where(call)
        for cls_ in UNPICKLE_FAILURES:
            hit = None
            for hfunc, trynode in protected_by:
                for hdl in trynode.handlers:
                    if catches(handler_names(hdl, hfunc.module), cls_):
                        hit = (hfunc, hdl)
                        break
                if hit:
                    break
            if hit is None:
                ctx.violated(
                    'EXC-COVER', func, f'{txt(call)} !covers {cls_}',
                    at=where,
                    detail=f'{cls_} raised while unpickling a damaged file '
                           f'is not caught on the way to read_env: reading '
                           f'aborts instead of treating the task as not '
                           f'done')
                continue
            hfunc, hdl = hit
            # the handler neither re-raises nor returns an object
            bad = None
            for node in walk_local(ast.Module(body=hdl.body,
                                              type_ignores=[])):
                if isinstance(node, ast.Raise):
                    bad = 're-raises'
                if isinstance(node, ast.Return) and node.value is not None \
                        and not (isinstance(node.value, ast.Constant) and
                                 node.value.value is None):
                    bad = f'returns {txt(node.value)[:30]}'
            ctx.decide('EXC-COVER', func, f'{txt(call)} covers {cls_}',
                       bad is None, at=hfunc.where(hdl),
                       detail=bad and f'handler {bad}')
        # other decoders applied to the content of the file on the way
        for other in calls_in(func.node, include_nested_defs=True):
            key = (dotted(receiver(other)) if receiver(other) is not None
                   else None, call_name(other))
            if key not in DECODERS:
                continue
            guard = _protection(chain, func, other)
            for cls_ in DECODERS[key]:
                covered = any(catches(handler_names(h, _f.module), cls_) or (
                    cls_ == 'error' and any(
                        txt(e) == f'{key[0]}.error' for e in (
                            h.type.elts if isinstance(h.type, ast.Tuple)
                            else [h.type]) if e is not None))
                              for _f, t in guard for h in t.handlers)
                ctx.decide(
                    'EXC-COVER', func,
                    f'{txt(other)[:40]} covers {key[0]}.{cls_}'
                    if cls_ in ('error', 'LZMAError') else
                    f'{txt(other)[:40]} covers {cls_}', covered,
                    at=func.where(other),
                    detail=None if covered else
                    f'a truncated or damaged file makes {key[0]}.{key[1]} '
                    f'raise {cls_}, which is not caught on the way to '
                    f'read_env: the next run aborts instead of treating '
                    f'the task as not done')
        # the open() of the file: OSError covered
        hit = any(catches(handler_names(h, _f.module), 'OSError')
                  for _f, t in protected_by for h in t.handlers)
        ctx.decide('EXC-COVER', func, f'{txt(call)} covers OSError (open)',
                   hit, at=where)


# ---------------------------------------------------- writer side (C14) ---

WRITE_ENV = 'valjean.cambronne.common:write_env'
TO_FILE = 'valjean.cosette.env:Env.to_file'


def check_write_all(ctx):
    '''write_env writes the entry of EVERY task that has an output
    directory, whatever its status: a task that is re-run and does not end
    DONE must overwrite the file an earlier run left, otherwise the next
    read resurrects the stale DONE entry.'''
    program = ctx.program
    func = program.func(WRITE_ENV)
    loops = [n for n in walk_local(func.node) if isinstance(n, ast.For) and
             any(isinstance(c, ast.Call) and call_name(c) == 'to_file'
                 for c in ast.walk(n))]
    ctx.floor('WRITE-ALL', len(loops), 1, 'per-task loop calling to_file in '
              'write_env')
    loop = loops[0]
    guards = []

    def visit(stmts, conds):
        for stmt in stmts:
            if isinstance(stmt, ast.If):
                leaves = any(isinstance(s, (ast.Continue, ast.Break,
                                            ast.Return)) for s in stmt.body)
                has_write = any(isinstance(c, ast.Call) and call_name(c) ==
                                'to_file' for c in ast.walk(stmt))
                if leaves or has_write:
                    guards.append(stmt.test)
                visit(stmt.body, conds + [stmt.test])
                visit(stmt.orelse, conds + [stmt.test])
    visit(loop.body, [])
    bad = [g for g in guards if 'status' in txt(g) or 'TaskStatus' in txt(g)
           or 'is_done' in txt(g)]
    # a skip decided on clocks / times: the master changes a status (DONE ->
    # WAITING -> SKIPPED when a dependency is re-run and fails) without
    # touching the clocks, so "did not run since" does not mean "unchanged"
    def guard_text(test):
        # the guard and the bodies of the module helpers it calls
        out = txt(test)
        for sub in ast.walk(test):
            if isinstance(sub, ast.Call):
                cands, how = program.resolve_call(func, sub)
                if how != 'by-unique-name':
                    for cand in cands[:2]:
                        out += ' ' + ast.unparse(cand.node)
        return out
    clocky = [g for g in guards if g not in bad and any(
        word in guard_text(g) for word in ('clock', 'since', 'mtime',
                                           'st_mtime', 'time.time'))]
    for test in clocky:
        ctx.violated('WRITE-ALL', func, f'write_env: writing skipped on a '
                     f'clock: `{txt(test)[:60]}`', at=func.where(test),
                     detail='only the workers update the clocks; the master '
                            'moves a restored DONE task to SKIPPED without '
                            'them, and its file keeps saying DONE')
    other = [g for g in guards if g not in bad and g not in clocky and
             'output_dir' not in txt(g)]
    for test in other:
        ctx.undecided('WRITE-ALL', func, f'write_env: writing guarded by '
                      f'`{txt(test)[:60]}`', at=func.where(test))
    if bad:
        for test in bad:
            ctx.violated('WRITE-ALL', func, f'write_env: writing guarded by '
                         f'`{txt(test)[:60]}`', at=func.where(test),
                         detail='entries are written only for some statuses: '
                                'the file of a task that was DONE in an '
                                'earlier run and is not any more is never '
                                'overwritten, and is read back as DONE')
    else:
        ctx.holds('WRITE-ALL', func, f'write_env: the only skip guards are '
                  f'{[txt(g)[:40] for g in guards]} (no status filter)',
                  at=func.where(loop))
    # every entry of the environment is visited
    good = 'items()' in txt(loop.iter) or txt(loop.iter) in func.params
    ctx.decide('WRITE-ALL', func, f'write_env visits {txt(loop.iter)}',
               True if good else None, at=func.where(loop),
               nontrivial=False)


def check_write_invalidates(ctx):
    '''Env.to_file opens the DESTINATION itself for writing (truncating it)
    before it serializes: a write that fails half-way leaves an unreadable
    file (= not done), never the entry of an earlier run.  Writing to a side
    file that is renamed over the destination keeps the old entry alive when
    the write is interrupted.'''
    program = ctx.program
    func = program.func(TO_FILE)
    path_par = func.params[1] if len(func.params) > 1 else 'path'
    opens = []
    for node in ast.walk(func.node):
        if isinstance(node, ast.Call) and call_name(node) == 'open' and (
                node.args or isinstance(node.func, ast.Attribute)):
            opens.append(node)
    ctx.floor('WRITE-INVALIDATE', len(opens), 1, 'open(...) in Env.to_file')
    assigns = {}
    for node in walk_local(func.node):
        if isinstance(node, ast.Assign) and isinstance(node.targets[0],
                                                       ast.Name):
            assigns[node.targets[0].id] = node.value
    for call in opens:
        if isinstance(call.func, ast.Attribute) and dotted(
                call.func.value) not in ('io', 'os', 'builtins', 'codecs'):
            # <path expression>.open(mode)
            target = call.func.value
            mode = call.args[0] if call.args else None
        else:
            target = call.args[0]
            mode = call.args[1] if len(call.args) > 1 else None
        for kwd in call.keywords:
            if kwd.arg == 'mode':
                mode = kwd.value
        if isinstance(mode, ast.Name):
            mode = assigns.get(mode.id, mode)
        mtxt = mode.value if isinstance(mode, ast.Constant) else None
        direct = txt(target) == path_par or (
            isinstance(target, ast.Call) and call_name(target) in (
                'str', 'Path', 'fspath') and target.args and
            txt(target.args[0]) == path_par)
        ctx.decide('WRITE-INVALIDATE', func,
                   f'to_file: open({txt(target)}, {mtxt!r})',
                   True if direct and mtxt in ('wb', 'w+b', 'bw') else
                   False if not direct else None, at=func.where(call),
                   detail='the entry is serialized to another file than the '
                          'destination: if the write is interrupted (or the '
                          'rename never happens) the destination keeps the '
                          'entry of an earlier run, which is read back as '
                          'DONE' if not direct else None)
    renames = [n for n in ast.walk(func.node) if isinstance(n, ast.Call) and
               call_name(n) in ('replace', 'rename', 'move', 'renames',
                                'link', 'copyfile') and dotted(receiver(n))
               in ('os', 'shutil')]
    for call in renames:
        ctx.violated('WRITE-INVALIDATE', func, f'to_file: {txt(call)[:50]}',
                     at=func.where(call),
                     detail='write-then-rename: see above')


# ------------------------------------------------------------ READ-PATH ---

PATTERN_CALLS = {'glob', 'iglob', 'rglob', 'fnmatch', 'fnmatchcase',
                 'filter', 'match', 'search', 'fullmatch', 'compile',
                 'translate'}


def check_read_path(ctx):
    """The reader opens, for every task it is asked about, THE file the
    writer wrote: the path is composed from the root, the task name and the
    file name.  A path found by pattern matching (glob / fnmatch / regular
    expression built from those strings) reads them as patterns: `[`, `]`,
    `*`, `?` in the output root or the file name, or a task name starting
    with a dot, and an intact DONE entry silently comes back as not done."""
    from . import verdict as V
    program = ctx.program
    func = program.func('valjean.cambronne.common:read_env')
    program.consulted.add(func.module.relpath)
    tainted = set()
    for node in ast.walk(func.node):
        src, tgts = None, []
        if isinstance(node, ast.Assign):
            src, tgts = node.value, node.targets
        elif isinstance(node, (ast.For, ast.comprehension)):
            src, tgts = node.iter, [node.target]
        if src is None:
            continue
        if any(isinstance(c, ast.Call) and call_name(c) in PATTERN_CALLS
               and (call_name(c) not in ('filter', 'match', 'search',
                                         'compile') or
                    'fnmatch' in txt(c) or 're.' in txt(c))
               for c in ast.walk(src)):
            for tgt in tgts:
                tainted |= {n.id for n in ast.walk(tgt)
                            if isinstance(n, ast.Name)}
    derived = V.derived_names(func.node, tainted) if tainted else set()
    n = 0
    for call in calls_in(func.node):
        if call_name(call) != 'from_file' or not call.args:
            continue
        n += 1
        arg = call.args[0]
        via = V.mentions(arg, derived) if derived else False
        direct = any(isinstance(c, ast.Call) and call_name(c) in (
            'glob', 'iglob', 'rglob') for c in ast.walk(arg))
        ctx.decide('READ-PATH', func,
                   f'read_env: path handed to from_file: {txt(arg)[:50]}',
                   not (via or direct), at=func.where(call),
                   detail=None if not (via or direct) else
                   'the path comes out of a pattern match on the names: '
                   'special characters of the root / file name and hidden '
                   'task directories make intact entries invisible')
    ctx.floor('READ-PATH', n, 1, 'from_file call in read_env')
    # the file read is the file written: <directory of the task> / filename,
    # `filename` being the parameter both functions receive
    defs = {}
    for node in walk_local(func.node):
        if isinstance(node, ast.Assign) and len(node.targets) == 1 and \
                isinstance(node.targets[0], ast.Name):
            defs.setdefault(node.targets[0].id, []).append(node.value)

    def last_component(expr, depth=0):
        if depth > 4:
            return None
        if isinstance(expr, ast.Name) and len(defs.get(expr.id, [])) == 1:
            return last_component(defs[expr.id][0], depth + 1)
        if isinstance(expr, ast.Call) and call_name(expr) in (
                'str', 'fspath', 'Path') and len(expr.args) == 1:
            return last_component(expr.args[0], depth + 1)
        if isinstance(expr, ast.Call) and call_name(expr) in (
                'join', 'joinpath') and expr.args:
            return last_component(expr.args[-1], depth + 1)
        if isinstance(expr, ast.BinOp) and isinstance(expr.op, ast.Div):
            return expr.right
        return expr
    for call in calls_in(func.node):
        if call_name(call) != 'from_file' or not call.args:
            continue
        last = last_component(call.args[0])
        ok = isinstance(last, ast.Name) and last.id in func.params and \
            last.id == 'filename'
        ctx.decide('READ-PATH', func,
                   f'read_env: {txt(call)[:60]} reads <task directory> / '
                   f'filename (last component: {txt(last)[:30]})', ok,
                   at=func.where(call),
                   detail=None if ok else
                   'an entry is taken from a file other than the one '
                   'write_env wrote last for the task (a backup, a '
                   'side file): a task that is not DONE any more comes back '
                   'DONE with the entry of an earlier run')


# --------------------------------------------------------- READ-NORAISE ---

def check_read_noraise(ctx):
    """"reading neither raises nor returns a partial entry": an
    exception-escape analysis below cambronne.common.read_env (explicit raise
    sites of the repo functions it reaches, propagated through the handlers
    around each call site) - no exception class may leave read_env.  A
    helper that VALIDATES a name and raises (sanitize_filename on a task name
    with a slash) turns "file not there: not done" into an abort of the run
    before anything is scheduled."""
    from ..excdom import ExcAnalysis
    program = ctx.program
    func = program.func('valjean.cambronne.common:read_env')
    ana = ExcAnalysis(program, tainted_modules=set(), by_unique_name=False)
    esc = ana.escapes(func)
    for key in ana.functions:
        program.consulted.add(program.func(key).module.relpath)
    for cls_, chain in sorted(esc.items()):
        origin = chain[-1].split(' (')[0][:90]
        ctx.violated('READ-NORAISE', func,
                     f'{cls_} can leave read_env: {origin}', at=func.where(),
                     detail={'witness_chain': chain})
    if not esc and ana.opaque_hits:
        ctx.undecided('READ-NORAISE', func, f'what leaves read_env is decided '
                      f'by the exit handler of {sorted(ana.opaque_hits)[0]}',
                      at=func.where())
    elif not esc:
        ctx.holds('READ-NORAISE', func,
                  f'no exception leaves read_env '
                  f'({len(ana.functions)} functions, {ana.n_raise_sites} '
                  f'raise sites examined)', at=func.where(),
                  nontrivial=True)
    ctx.floor('READ-NORAISE', len(ana.functions), 3, 'functions reachable '
              'from read_env')
