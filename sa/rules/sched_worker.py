'''Rules on the worker loop and on the function that starts the workers:
PUB, WRK-1, WRK-2 (path interpretation of one worker iteration), SHUT-1,
WAIT, SENT.  Serves C01 C02 C03 C04 C19.'''
import ast
import builtins

from ..astutil import (dotted, call_name, receiver, txt, enum_member,
                       calls_in, walk_local, enclosing_chain,
                       lexically_inside, get_arg)
from ..cfg import CFG
from ..loader import AnalysisError

BACKENDS = 'valjean.cosette.backends.'
PRIMITIVE_ENV_P = ('apply', 'set_start_end_clock', 'update', '__setitem__')
TRUSTED_CALL_PREFIX = ('LOGGER', 'logging', 'time')
MAPPING_TYPES = {'dict', 'Mapping', 'MutableMapping', 'OrderedDict',
                 'type(None)', 'NoneType'}


# ---------------------------------------------------------------- site ---

class Worker:
    '''The worker function and the roles of its expressions.'''

    def __init__(self, program, func, do_call, task_var):
        self.program = program
        self.func = func
        self.do_call = do_call
        self.task = task_var
        self.env = txt(do_call.args[0])
        self.queue = None
        self.loop = None
        parents = enclosing_chain(func.node)
        self.parents = parents
        self.loop = lexically_inside(
            parents, do_call, lambda n: isinstance(n, (ast.While, ast.For)))
        for node in ast.walk(func.node):
            if isinstance(node, ast.Assign) and len(node.targets) == 1 and \
                    txt(node.targets[0]) == task_var and \
                    isinstance(node.value, ast.Call) and \
                    call_name(node.value) == 'get':
                self.queue = dotted(receiver(node.value))
                self.get_stmt = node


def find_workers(program):
    out = []
    for func in program.all_functions():
        if not func.module.name.startswith(BACKENDS):
            continue
        for call in calls_in(func.node):
            if call_name(call) == 'do' and len(call.args) == 2 and \
                    isinstance(receiver(call), ast.Name):
                tvar = receiver(call).id
                wrk = Worker(program, func, call, tvar)
                if wrk.queue is not None and wrk.loop is not None:
                    out.append(wrk)
    return out


# ------------------------------------------------------------- events ---

class Event:
    __slots__ = ('kind', 'node', 'value', 'region', 'cond', 'where', 'raw')

    def __init__(self, kind, node, value=None, region=None, cond=False,
                 where=None, raw=False):
        self.raw = raw          # written through env[...] without Env API
        self.kind = kind        # DO S P TASK_DONE NOTIFY
        self.node = node
        self.value = value      # for S: expression of the status
        self.region = region    # atomic region id or None
        self.cond = cond        # inside a branch of an inlined helper
        self.where = where

    def __repr__(self):
        return f'{self.kind}({txt(self.node)[:40]})'


def _env_lock_region(ctx_chain, env_txt):
    '''Innermost enclosing `with <env>.lock` in a lexical context.'''
    for node, _fld in reversed(ctx_chain):
        if isinstance(node, ast.With) and any(
                dotted(i.context_expr) == env_txt + '.lock'
                for i in node.items):
            return ('with', id(node))
    return None


def stmt_events(wrk, func, stmt_or_expr, env_txt, task_txt, lexctx,
                depth=0, bind=None, cond=False):
    '''Events of one simple statement (or expression) in source order.
    `bind` maps callee parameter names to caller expressions (inlining).'''
    program = wrk.program
    events = []
    for call in calls_in(stmt_or_expr):
        cname = call_name(call)
        recv = receiver(call)
        rtxt = dotted(recv) if recv is not None else None
        where = func.where(call)
        region = _env_lock_region(lexctx, env_txt)
        if call is wrk.do_call:
            events.append(Event('DO', call, where=where))
            continue
        if rtxt == env_txt and cname:
            if cname == 'set_status' and len(call.args) == 2 and \
                    txt(call.args[0]) == task_txt:
                events.append(Event('S', call, call.args[1], region, cond,
                                    where))
                continue
            if cname.startswith('set_') and cname[4:].upper() in (
                    'WAITING', 'PENDING', 'DONE', 'FAILED', 'SKIPPED') and \
                    len(call.args) == 1 and txt(call.args[0]) == task_txt:
                events.append(Event('S', call, ('const', cname[4:].upper()),
                                    region, cond, where))
                continue
            if cname == 'apply' and len(call.args) == 1:
                carried = status_carried_by(program, func, call.args[0])
                if carried is not None:
                    # the update handed to Env.apply also holds the task's
                    # final status: status and payload are published by
                    # one call, which is atomic only if Env.apply holds the
                    # lock over the WHOLE update
                    atomic = apply_is_atomic(program)
                    reg = ('apply-atomic', id(call)) if atomic else None
                    events.append(Event('S', call, carried, reg, cond,
                                        where))
                    events.append(Event('P', call, None, reg, cond, where))
                    continue
            if cname in PRIMITIVE_ENV_P:
                events.append(Event('P', call, None, region, cond, where))
                continue
            if cname == 'atomically' and len(call.args) == 1:
                inner = _callable_body(program, func, call.args[0])
                if inner is not None:
                    ifunc, body, param, extra = inner
                    reg = ('atomically', id(call))
                    for sub in body:
                        for evt in stmt_events(
                                wrk, ifunc, sub, param, task_txt, (),
                                depth + 1, None, cond or _is_branchy(sub)):
                            evt.region = reg
                            events.append(evt)
                    continue
                events.append(Event('UNKNOWN', call, None, region, cond,
                                    where))
                continue
            # other Env method defined in the repo: inline its events
            env_cls = program.modules.get('valjean.cosette.env')
            if env_cls is not None and depth < 3:
                klass = env_cls.classes.get('Env')
                meth = program.find_method(klass, cname) if klass else None
                if meth is not None and cname not in (
                        'get_status', 'get_start_clock', 'get_end_clock',
                        'is_waiting', 'copy', 'to_file') and \
                        not cname.startswith(('is_', 'get_')):
                    events += _inline_method(wrk, meth, call, 'self',
                                             task_txt, depth, cond)
                    continue
        # env[<task>.name].update(status=..., ...): a write into the entry
        # of the task that bypasses the Env API (and its lock)
        if cname in ('update', 'setdefault', '__setitem__') and isinstance(
                recv, ast.Subscript):
            base = recv
            while isinstance(base, ast.Subscript):
                base = base.value
            if dotted(base) in (env_txt, env_txt + '.dictionary'):
                stat = None
                for kwd in call.keywords:
                    if kwd.arg == 'status':
                        stat = kwd.value
                for arg in call.args:
                    if isinstance(arg, ast.Dict):
                        for key, val in zip(arg.keys, arg.values):
                            if isinstance(key, ast.Constant) and \
                                    key.value == 'status':
                                stat = val
                if cname == '__setitem__' and len(call.args) == 2 and \
                        isinstance(call.args[0], ast.Constant) and \
                        call.args[0].value == 'status':
                    stat = call.args[1]
                if stat is not None:
                    events.append(Event('S', call, stat, region, cond,
                                        where, raw=True))
                events.append(Event('P', call, None, region, cond, where,
                                    raw=True))
                continue
        if rtxt == wrk.queue and cname == 'task_done':
            events.append(Event('TASK_DONE', call, where=where))
            continue
        if cname in ('notify', 'notify_all') and rtxt is not None:
            under = any(isinstance(n, ast.With) and any(
                dotted(i.context_expr) == rtxt for i in n.items)
                        for n, _ in lexctx)
            events.append(Event('NOTIFY', call, under, where=where))
            continue
        # helper method of the worker's own class
        if rtxt in ('self', 'cls') and func.cls is not None and depth < 3:
            meth = program.find_method(func.cls, cname)
            if meth is not None:
                events += _inline_method(wrk, meth, call, env_txt, task_txt,
                                         depth, cond)
                continue
    # store env[...] = ...
    if isinstance(stmt_or_expr, (ast.Assign, ast.AugAssign)):
        targets = stmt_or_expr.targets if isinstance(
            stmt_or_expr, ast.Assign) else [stmt_or_expr.target]
        for tgt in targets:
            base = tgt
            subs = []
            while isinstance(base, ast.Subscript):
                subs.append(base.slice)
                base = base.value
            if subs and dotted(base) in (env_txt, env_txt + '.dictionary'):
                region = _env_lock_region(lexctx, env_txt)
                last = subs[0]
                if isinstance(last, ast.Constant) and last.value == 'status':
                    events.append(Event('S', stmt_or_expr,
                                        stmt_or_expr.value, region, cond,
                                        func.where(stmt_or_expr), raw=True))
                else:
                    events.append(Event('P', stmt_or_expr, None, region,
                                        cond, func.where(stmt_or_expr),
                                        raw=True))
    return events


def apply_is_atomic(program):
    '''Env.apply publishes the whole update inside ONE `with self.lock`
    region: no lock statement of its own body is nested in a loop.'''
    meth = program.maybe_func('valjean.cosette.env:Env.apply')
    if meth is None:
        return False
    parents = enclosing_chain(meth.node)
    locks = []
    for node in ast.walk(meth.node):
        if isinstance(node, ast.With) and any(
                dotted(i.context_expr) == 'self.lock' for i in node.items):
            inner_def = lexically_inside(
                parents, node, lambda n: isinstance(
                    n, (ast.FunctionDef, ast.Lambda)) and n is not meth.node)
            if inner_def is not None:
                continue
            in_loop = lexically_inside(
                parents, node, lambda n: isinstance(
                    n, (ast.For, ast.While, ast.ListComp, ast.GeneratorExp)))
            locks.append(in_loop is None)
    return bool(locks) and all(locks)


def status_carried_by(program, func, expr, depth=0):
    '''If the mapping `expr` (argument of Env.apply) is built with a
    'status' entry, the expression of that status as seen from `func`
    (a caller expression, or ('unknown',)); else None.'''
    if depth > 3 or expr is None:
        return None
    if isinstance(expr, ast.Dict):
        for key, val in zip(expr.keys, expr.values):
            if isinstance(key, ast.Constant) and key.value == 'status':
                return val
            if isinstance(val, ast.Dict):
                res = status_carried_by(program, func, val, depth + 1)
                if res is not None:
                    return res
        return None
    if isinstance(expr, ast.Name):
        for node in walk_local(func.node):
            if isinstance(node, ast.Assign) and len(node.targets) == 1 and \
                    txt(node.targets[0]) == expr.id:
                res = status_carried_by(program, func, node.value,
                                        depth + 1)
                if res is not None:
                    return res
            # name[...]['status'] = v   /  name[...].update(status=v)
            if isinstance(node, ast.Assign) and isinstance(
                    node.targets[0], ast.Subscript):
                tgt = node.targets[0]
                base = tgt
                while isinstance(base, ast.Subscript):
                    base = base.value
                if txt(base) == expr.id and isinstance(
                        tgt.slice, ast.Constant) and \
                        tgt.slice.value == 'status':
                    return node.value
        return None
    if isinstance(expr, ast.Call):
        cands, how = program.resolve_call(func, expr)
        if len(cands) != 1 or how == 'by-unique-name':
            return None
        callee = cands[0]
        found = None
        for node in ast.walk(callee.node):
            if isinstance(node, ast.keyword) and node.arg == 'status':
                found = node.value
            elif isinstance(node, ast.Dict):
                for key, val in zip(node.keys, node.values):
                    if isinstance(key, ast.Constant) and \
                            key.value == 'status':
                        found = val
            elif isinstance(node, ast.Assign) and isinstance(
                    node.targets[0], ast.Subscript) and isinstance(
                        node.targets[0].slice, ast.Constant) and \
                    node.targets[0].slice.value == 'status':
                found = node.value
        if found is None:
            return None
        # map a parameter of the helper back to the caller's argument
        if isinstance(found, ast.Name):
            params = callee.params
            static = any(txt(d) == 'staticmethod'
                         for d in callee.node.decorator_list)
            offset = 0 if static or how in ('name', 'dotted') else 1
            if found.id in params:
                pos = params.index(found.id) - offset
                if 0 <= pos < len(expr.args):
                    return expr.args[pos]
                for kwd in expr.keywords:
                    if kwd.arg == found.id:
                        return kwd.value
        mem = enum_member(found, 'TaskStatus')
        if mem:
            return found
        return ('unknown',)
    return None


def _is_branchy(stmt):
    return isinstance(stmt, (ast.If, ast.For, ast.While, ast.Try))


def _callable_body(program, func, expr):
    '''(FuncInfo-like, list of statements, env parameter name, None) for a
    lambda / nested def / partial(nested def, ...) handed to atomically.'''
    if isinstance(expr, ast.Lambda) and expr.args.args:
        return func, [ast.Expr(value=expr.body)], expr.args.args[0].arg, None
    target = expr
    if isinstance(expr, ast.Call) and call_name(expr) == 'partial' and \
            expr.args:
        target = expr.args[0]
    res = program.resolve_name_expr(func.module, target, func)
    if res is None and isinstance(target, ast.Attribute) and \
            dotted(target.value) in ('self', 'cls') and func.cls is not None:
        res = program.find_method(func.cls, target.attr)
    if res is not None and hasattr(res, 'params'):
        params = [p for p in res.params if p not in ('self', 'cls')]
        if params:
            return res, list(_flat(res.node.body)), params[-1], None
    return None


def _flat(body):
    '''Statements of a helper in lexical order; compound statements are
    kept whole (their events are flagged conditional).'''
    for stmt in body:
        if isinstance(stmt, ast.With):
            yield from _flat(stmt.body)
        else:
            yield stmt


def _inline_method(wrk, meth, call, env_txt_in_callee, task_txt, depth,
                   cond):
    '''Events of a helper method, with the task parameter renamed.'''
    params = [p for p in meth.params if p not in ('self', 'cls')]
    bind = {}
    for par, arg in zip(params, call.args):
        bind[par] = txt(arg)
    for kwd in call.keywords:
        if kwd.arg:
            bind[kwd.arg] = txt(kwd.value)
    callee_task = next((p for p, a in bind.items() if a == task_txt),
                       task_txt)
    # is the env the receiver (Env method) or the same attribute text?
    callee_env = env_txt_in_callee
    events = []

    def visit(body, lexctx, conditional):
        for stmt in body:
            if isinstance(stmt, ast.With):
                visit(stmt.body, lexctx + ((stmt, 'body'),), conditional)
            elif isinstance(stmt, (ast.If, ast.For, ast.While)):
                visit(stmt.body, lexctx, True)
                visit(stmt.orelse, lexctx, True)
            elif isinstance(stmt, ast.Try):
                visit(stmt.body, lexctx, True)
                for hdl in stmt.handlers:
                    visit(hdl.body, lexctx, True)
                visit(stmt.orelse, lexctx, True)
                visit(stmt.finalbody, lexctx, conditional)
            elif isinstance(stmt, (ast.FunctionDef, ast.ClassDef)):
                continue
            else:
                for evt in stmt_events(wrk, meth, stmt, callee_env,
                                       callee_task, lexctx, depth + 1, None,
                                       conditional or cond):
                    if evt.kind == 'S' and isinstance(evt.value, ast.Name) \
                            and evt.value.id in bind:
                        evt.value = ('caller', bind[evt.value.id])
                    events.append(evt)
    visit(meth.node.body, (), False)
    # an Env method holding the lock over its whole body is one region
    return events


# --------------------------------------------------- abstract values ---

def builtin_catches(handler_names, raised):
    '''Does a handler naming these classes catch the raised class name?
    "Exception*" as raised class stands for an arbitrary Exception.'''
    if handler_names is None:
        return True
    for hname in handler_names:
        if hname in ('BaseException', 'Exception'):
            return True
        if raised == 'Exception*':
            continue
        hcls = getattr(builtins, hname, None)
        rcls = getattr(builtins, raised, None)
        if isinstance(hcls, type) and isinstance(rcls, type) and \
                issubclass(rcls, hcls):
            return True
        if hname == raised:
            return True
    return False


def handler_names(hdl):
    if hdl.type is None:
        return None
    if isinstance(hdl.type, ast.Tuple):
        return [txt(e).split('.')[-1] for e in hdl.type.elts]
    return [txt(hdl.type).split('.')[-1]]


def derefs_param(program, func, pname, depth=0, seen=None):
    '''Does `func` use parameter `pname` in a way that raises for a value of
    the wrong kind (attribute call, subscript, iteration), without an
    isinstance test on it?  Follows the value into nested / repo callees.'''
    seen = seen or set()
    if (func.key, pname) in seen or depth > 3:
        return False
    seen.add((func.key, pname))
    for node in walk_local(func.node):
        if isinstance(node, ast.Call) and call_name(node) == 'isinstance' \
                and node.args and txt(node.args[0]) == pname:
            return False
    for node in walk_local(func.node):
        if isinstance(node, ast.Attribute) and isinstance(node.value,
                                                          ast.Name) and \
                node.value.id == pname:
            return True
        if isinstance(node, ast.Subscript) and isinstance(
                node.value, ast.Name) and node.value.id == pname and \
                isinstance(node.ctx, ast.Load):
            return True
        if isinstance(node, (ast.For, ast.comprehension)) and isinstance(
                node.iter, ast.Name) and node.iter.id == pname:
            return True
        if isinstance(node, ast.Call):
            for idx, arg in enumerate(node.args):
                if isinstance(arg, ast.Name) and arg.id == pname:
                    cands, _ = program.resolve_call(func, node)
                    for cand in cands:
                        cparams = [p for p in cand.params
                                   if p not in ('self', 'cls')]
                        if idx < len(cparams) and derefs_param(
                                program, cand, cparams[idx], depth + 1, seen):
                            return True
    return False


class PathState:
    def __init__(self):
        self.vals = {}        # name -> abstract value tuple
        self.events = []
        self.notes = []
        self.handler_depth = 0
        self.failed_validation = False   # the path went through a handler
        #                                  or a rejecting branch
        self.exc = None       # classes in flight

    def clone(self):
        new = PathState()
        new.vals = dict(self.vals)
        new.events = list(self.events)
        new.notes = list(self.notes)
        new.failed_validation = self.failed_validation
        new.exc = self.exc
        return new


class WorkerInterp:
    '''Enumerates the paths of one loop iteration with a small abstract
    state: taint of the values derived from the result of do(), constants
    assigned to status variables, validation by isinstance / conversion.'''

    def __init__(self, wrk):
        self.wrk = wrk
        self.program = wrk.program
        self.func = wrk.func
        self.tainted_names = self._taint_closure()
        self.cfg = CFG(wrk.func.node, may_raise=self._may_raise_static)
        self.paths = []
        heads = [n for n in self.cfg.nodes
                 if n.kind in ('test', 'iter') and
                 (n.extra is wrk.loop or n.ast is wrk.loop)]
        if not heads:
            raise AnalysisError('worker loop head not found in the CFG')
        self.head = heads[0]

    # taint ----------------------------------------------------------------

    def _taint_closure(self):
        tainted = set()
        changed = True
        while changed:
            changed = False
            for node in walk_local(self.func.node):
                if isinstance(node, ast.Assign):
                    src_tainted = self._expr_tainted(node.value, tainted)
                    if not src_tainted:
                        continue
                    for tgt in node.targets:
                        for nam in ast.walk(tgt):
                            if isinstance(nam, ast.Name) and \
                                    nam.id not in tainted:
                                tainted.add(nam.id)
                                changed = True
        return tainted

    def _expr_tainted(self, expr, tainted):
        # a validating conversion yields a clean value
        if isinstance(expr, ast.Call) and call_name(expr) == 'TaskStatus':
            return False
        if isinstance(expr, ast.Call) and expr is not self.wrk.do_call and \
                not any(sub is self.wrk.do_call for sub in ast.walk(expr)):
            # result of some other call on tainted data: a helper such as
            # self._check(task_result) -- treated as tainted unless the
            # callee validates (handled by summary below)
            if any(isinstance(n, ast.Name) and n.id in tainted
                   for n in ast.walk(expr)):
                cands, _ = self.program.resolve_call(self.func, expr)
                if cands and all(_returns_validated(c, self.program)
                                 for c in cands):
                    return False
                return True
            return False
        for sub in ast.walk(expr):
            if sub is self.wrk.do_call:
                return True
            if isinstance(sub, ast.Name) and sub.id in tainted:
                return True
        return False

    # static may-raise (for CFG construction) ---------------------------

    def _may_raise_static(self, node):
        return bool(self._raise_classes(node, None))

    def _raise_classes(self, node, state):
        '''Exception classes that `node` (a statement or expression) may
        raise under the witness model.  With a PathState, validated names do
        not raise.'''
        if node is None:
            return set()
        out = set()

        def is_t(name):
            if name not in self.tainted_names:
                return False
            if state is not None:
                val = state.vals.get(name)
                if val is not None and val[0] in ('validated', 'const',
                                                  'mapping', 'none',
                                                  'final'):
                    return False
            return True

        if isinstance(node, ast.Raise):
            out.add(txt(node.exc).split('(')[0].split('.')[-1]
                    if node.exc is not None else 'Exception*')
            return out
        if isinstance(node, ast.Assert):
            out.add('AssertionError')
        for sub in walk_local(node):
            if sub is self.wrk.do_call:
                out.add('Exception*')
            elif isinstance(sub, ast.Assign):
                for tgt in sub.targets:
                    if isinstance(tgt, (ast.Tuple, ast.List)) and \
                            isinstance(sub.value, ast.Name) and \
                            is_t(sub.value.id):
                        val = state.vals.get(sub.value.id) if state else None
                        if val is not None and val[0] == 'pair':
                            continue
                        out |= {'TypeError', 'ValueError'}
            elif isinstance(sub, ast.Subscript) and isinstance(
                    sub.value, ast.Name) and is_t(sub.value.id) and \
                    isinstance(sub.ctx, ast.Load):
                val = state.vals.get(sub.value.id) if state else None
                if not (val is not None and val[0] == 'pair'):
                    out |= {'TypeError', 'IndexError', 'KeyError'}
            elif isinstance(sub, ast.Call):
                cname = call_name(sub)
                recv = receiver(sub)
                if cname == 'TaskStatus' and sub.args and isinstance(
                        sub.args[0], ast.Name) and is_t(sub.args[0].id):
                    out.add('ValueError')
                elif recv is not None and isinstance(recv, ast.Name) and \
                        is_t(recv.id):
                    out |= {'AttributeError', 'TypeError'}
                elif cname in ('len', 'iter', 'tuple', 'list', 'dict') and \
                        sub.args and isinstance(sub.args[0], ast.Name) and \
                        is_t(sub.args[0].id):
                    out.add('TypeError')
                else:
                    targs = [(i, a) for i, a in enumerate(sub.args)
                             if isinstance(a, ast.Name) and is_t(a.id)]
                    if targs and not _trusted_call(sub):
                        cands, _ = self.program.resolve_call(self.func, sub)
                        for cand in cands:
                            cparams = [p for p in cand.params
                                       if p not in ('self', 'cls')]
                            for idx, _arg in targs:
                                if idx < len(cparams) and derefs_param(
                                        self.program, cand, cparams[idx]):
                                    out |= {'AttributeError', 'TypeError'}
        return out

    # abstract values ------------------------------------------------------

    def absval(self, expr, state):
        if isinstance(expr, tuple):
            if expr[0] == 'caller':
                return state.vals.get(expr[1], ('unknown',)) \
                    if expr[1] not in self.tainted_names or \
                    expr[1] in state.vals else ('tainted',)
            return expr
        mem = enum_member(expr, 'TaskStatus')
        if mem:
            return ('const', mem)
        if isinstance(expr, ast.Constant) and expr.value is None:
            return ('none',)
        if isinstance(expr, ast.Name):
            if expr.id in state.vals:
                return state.vals[expr.id]
            if expr.id in self.tainted_names:
                return ('tainted',)
            return ('unknown',)
        if isinstance(expr, ast.Call) and call_name(expr) == 'TaskStatus':
            return ('validated',)
        if isinstance(expr, ast.Call) and expr is not self.wrk.do_call and \
                any(isinstance(n, ast.Name) and n.id in self.tainted_names
                    for a in expr.args for n in ast.walk(a)):
            # the result of a validating helper applied to the task result
            cands, _ = self.program.resolve_call(self.func, expr)
            if cands and all(_returns_validated(c, self.program)
                             for c in cands):
                if all(_checks_final(c, self.program) for c in cands):
                    return ('final', 'helper')
                return ('validated', 'helper')
        if isinstance(expr, (ast.Attribute, ast.Subscript)) and isinstance(
                expr.value, ast.Name) and state.vals.get(
                    expr.value.id, ('',))[0] in ('validated', 'final'):
            # a field of the value object built by a validating helper
            return (state.vals[expr.value.id][0], 'helper')
        if isinstance(expr, ast.Dict):
            return ('mapping',)
        if self._expr_tainted(expr, self.tainted_names):
            return ('tainted',)
        return ('unknown',)

    def assign(self, stmt, state):
        if not isinstance(stmt, ast.Assign):
            return
        for tgt in stmt.targets:
            if isinstance(tgt, ast.Name):
                state.vals[tgt.id] = self.absval(stmt.value, state)
            elif isinstance(tgt, (ast.Tuple, ast.List)):
                if isinstance(stmt.value, (ast.Tuple, ast.List)) and \
                        len(stmt.value.elts) == len(tgt.elts):
                    for sub, val in zip(tgt.elts, stmt.value.elts):
                        if isinstance(sub, ast.Name):
                            state.vals[sub.id] = self.absval(val, state)
                else:
                    src = self.absval(stmt.value, state)
                    for sub in tgt.elts:
                        if isinstance(sub, ast.Name):
                            state.vals[sub.id] = ('tainted',) if src[0] in (
                                'tainted', 'pair') else ('unknown',)

    def refine(self, test, outcome, state):
        '''Refinement by a branch condition taking `outcome`.'''
        if isinstance(test, ast.UnaryOp) and isinstance(test.op, ast.Not):
            self.refine(test.operand, not outcome, state)
            return
        if isinstance(test, ast.BoolOp):
            if isinstance(test.op, ast.And) and outcome:
                for val in test.values:
                    self.refine(val, True, state)
            elif isinstance(test.op, ast.Or) and not outcome:
                for val in test.values:
                    self.refine(val, False, state)
            else:
                # `x is not None and not isinstance(x, Mapping)` FALSE: x is
                # None or a mapping - the accepting outcome of the test
                if isinstance(test.op, ast.And) and not outcome and len(
                        test.values) == 2:
                    one, two = test.values
                    if isinstance(one, ast.Compare) and isinstance(
                            one.ops[0], ast.IsNot) and isinstance(
                                one.comparators[0], ast.Constant) and \
                            one.comparators[0].value is None and isinstance(
                                one.left, ast.Name) and isinstance(
                                    two, ast.UnaryOp) and isinstance(
                                        two.op, ast.Not) and isinstance(
                                            two.operand, ast.Call) and \
                            call_name(two.operand) == 'isinstance' and txt(
                                two.operand.args[0]) == one.left.id:
                        types = {t.split('.')[-1] for t in (
                            [txt(e) for e in two.operand.args[1].elts]
                            if isinstance(two.operand.args[1], ast.Tuple)
                            else [txt(two.operand.args[1])])}
                        if types <= MAPPING_TYPES:
                            state.vals[one.left.id] = ('mapping',)
                            return
                # a rejecting disjunction: the path failed validation
                if any(_is_validation(v) for v in ast.walk(test)
                       if isinstance(v, ast.Call)):
                    state.failed_validation = True
            return
        if isinstance(test, ast.Call) and call_name(test) == 'isinstance' \
                and len(test.args) == 2 and isinstance(test.args[0],
                                                       ast.Name):
            name = test.args[0].id
            types = {t.split('.')[-1] for t in
                     ([txt(e) for e in test.args[1].elts]
                      if isinstance(test.args[1], ast.Tuple)
                      else [txt(test.args[1])])}
            if outcome:
                if types <= {'TaskStatus'}:
                    state.vals[name] = ('validated',)
                elif types <= MAPPING_TYPES:
                    state.vals[name] = ('mapping',)
                elif types <= {'tuple', 'list'}:
                    state.vals[name] = ('sequence',)
            else:
                state.failed_validation = True
            return
        if isinstance(test, ast.Compare) and len(test.ops) == 1 and \
                isinstance(test.ops[0], (ast.In, ast.NotIn)) and isinstance(
                    test.left, ast.Name):
            # `status in (DONE, FAILED, SKIPPED)`: the accepting outcome
            # knows that the status is one the master treats as settled
            mems = _status_set(self.program, self.func, test.comparators[0])
            accepting = isinstance(test.ops[0], ast.In) == outcome
            if mems is not None and accepting and mems <= FINAL_STATUSES and \
                    state.vals.get(test.left.id, ('',))[0] in (
                        'validated', 'final'):
                state.vals[test.left.id] = ('final',)
            elif mems is not None and not accepting and \
                    test.left.id in self.tainted_names:
                state.failed_validation = True
            return
        if isinstance(test, ast.Compare) and len(test.ops) == 1:
            left, op, right = test.left, test.ops[0], test.comparators[0]
            if isinstance(left, ast.Name) and isinstance(
                    right, ast.Constant) and right.value is None and \
                    left.id in self.tainted_names:
                isnone = isinstance(op, (ast.Is, ast.Eq))
                if isnone == outcome:
                    state.vals[left.id] = ('none',)
                    state.failed_validation = True
                return
            # len(x) == 2 on a validated sequence
            if isinstance(left, ast.Call) and call_name(left) == 'len' and \
                    left.args and isinstance(left.args[0], ast.Name) and \
                    isinstance(right, ast.Constant) and right.value == 2:
                name = left.args[0].id
                eq = isinstance(op, ast.Eq)
                if state.vals.get(name, ('',))[0] == 'sequence' and \
                        eq == outcome:
                    state.vals[name] = ('pair',)
                elif eq != outcome:
                    state.failed_validation = True

    # path enumeration -----------------------------------------------------

    def run(self, limit=4000):
        start = PathState()
        stack = [(self.head, 'loop-entry', start, frozenset())]
        # enter the body: follow the 'true'/'loop' edge of the head
        stack = []
        for nxt, label in self.head.succ:
            if label in ('true', 'loop'):
                stack.append((nxt, start.clone(), frozenset()))
        done = []
        while stack:
            node, state, seen = stack.pop()
            if len(done) > limit:
                raise AnalysisError('too many paths in the worker loop')
            if node is self.head:
                done.append(('back', state))
                continue
            if node.kind == 'exit':
                done.append(('exit', state))
                continue
            if node.kind == 'raise':
                done.append(('raise', state))
                continue
            if node.id in seen:
                state.notes.append('inner loop')
                done.append(('inner-loop', state))
                continue
            seen = seen | {node.id}
            lexctx = node.ctx
            # events of the node
            astnode = node.ast
            if node.kind in ('stmt', 'return') and astnode is not None \
                    and not isinstance(astnode, (ast.FunctionDef,
                                                 ast.ClassDef)):
                evts = stmt_events(self.wrk, self.func, astnode,
                                   self.wrk.env, self.wrk.task, lexctx)
            elif node.kind in ('test', 'iter', 'with') and \
                    astnode is not None:
                target = astnode if node.kind == 'test' else (
                    astnode.iter if node.kind == 'iter' else
                    ast.Tuple(elts=[i.context_expr for i in astnode.items],
                              ctx=ast.Load()))
                evts = stmt_events(self.wrk, self.func, target,
                                   self.wrk.env, self.wrk.task, lexctx)
            else:
                evts = []
            if node.kind == 'handler':
                state = state.clone()
                state.failed_validation = True
                state.exc = None
            for nxt, label in node.succ:
                nstate = state.clone()
                if label == 'exc':
                    classes = self._raise_classes(
                        astnode if node.kind != 'test' else astnode, nstate) \
                        if node.kind not in ('raisestmt',) else \
                        self._raise_classes(astnode, nstate)
                    if node.kind == 'with':
                        classes = set()
                    if not classes:
                        continue
                    # events before the raising point: the DO call itself
                    for evt in evts:
                        if evt.kind == 'DO':
                            nstate.events.append(evt)
                    nstate.exc = frozenset(classes)
                    nstate.notes.append(
                        f'{sorted(classes)} raised by `{node.text(60)}` '
                        f'(line {node.lineno})')
                    stack.append((nxt, nstate, seen))
                    continue
                if label.startswith('handler:'):
                    idx = int(label.split(':')[1])
                    hdls = node.ast.handlers
                    raised = nstate.exc or frozenset()
                    caught = set()
                    for cls_ in raised:
                        for jdx, hdl in enumerate(hdls):
                            if builtin_catches(handler_names(hdl), cls_):
                                if jdx == idx:
                                    caught.add(cls_)
                                break
                    if not caught:
                        continue
                    nstate.exc = frozenset(caught)
                    stack.append((nxt, nstate, seen))
                    continue
                if label == 'propagate':
                    raised = nstate.exc or frozenset()
                    left = {c for c in raised if not any(
                        builtin_catches(handler_names(h), c)
                        for h in node.ast.handlers)}
                    if not left:
                        continue
                    nstate.exc = frozenset(left)
                    stack.append((nxt, nstate, seen))
                    continue
                # normal edges
                nstate.events += evts
                if node.kind in ('stmt',):
                    self.assign(astnode, nstate)
                if node.kind == 'test' and label in ('true', 'false'):
                    self.refine(astnode, label == 'true', nstate)
                stack.append((nxt, nstate, seen))
        self.paths = done
        return done


def _trusted_call(call):
    recv = receiver(call)
    rtxt = dotted(recv) if recv is not None else None
    if rtxt is not None and rtxt.split('.')[0] in TRUSTED_CALL_PREFIX:
        return True
    return call_name(call) in ('debug', 'info', 'warning', 'error', 'note',
                               'exception', 'critical', 'format', 'repr',
                               'str', 'isinstance', 'type')


def _is_validation(call):
    return call_name(call) in ('isinstance', 'len')


def _returns_validated(func, program=None, depth=0):
    '''A helper whose every return is a pair (mapping-checked, TaskStatus
    checked) -- recognised only in the simplest form: it contains
    isinstance tests against TaskStatus and a mapping type, or returns
    constants.'''
    has_status = has_map = False
    for node in walk_local(func.node):
        if isinstance(node, ast.Call) and call_name(node) == 'isinstance' \
                and len(node.args) == 2:
            typ = txt(node.args[1])
            if 'TaskStatus' in typ:
                has_status = True
            if any(m in typ for m in MAPPING_TYPES):
                has_map = True
        if isinstance(node, ast.Call) and call_name(node) == 'TaskStatus':
            has_status = True
    if has_status and has_map:
        return True
    # the validation may sit one or two resolved calls further (a helper
    # that delegates to a constructor-like classmethod of a value class)
    if program is not None and depth < 2:
        for call in calls_in(func.node):
            if not any(isinstance(n, ast.Name) and n.id in
                       {a.arg for a in func.node.args.args}
                       for a_ in call.args for n in ast.walk(a_)):
                continue
            cands, _ = program.resolve_call(func, call)
            if cands and all(c.key != func.key and _returns_validated(
                    c, program, depth + 1) for c in cands):
                return True
    return False


# --------------------------------------------------------------- rules ---

def _status_may_be_done(val):
    return not (val[0] == 'const' and val[1] != 'DONE')


def analyse_worker(ctx):
    program = ctx.program
    workers = find_workers(program)
    ctx.floor('WORKER', len(workers), 1,
              'backend function with t.do(env, config), t from queue.get()')
    if len(workers) > 1:
        raise AnalysisError('several worker loops found')
    wrk = workers[0]
    program.consulted.add(wrk.func.module.relpath)
    program.consulted.add('valjean/cosette/env.py')
    interp = WorkerInterp(wrk)
    paths = interp.run()
    ctx.stats['worker_paths'] = len(paths)
    ctx.stats['worker_cfg_nodes'] = len(interp.cfg.nodes)
    return wrk, interp, paths


def check_raw_lock(ctx, shared=None):
    '''Writes of the worker into the environment that bypass the Env API
    must sit inside `with env.lock`.'''
    wrk, interp, paths = shared or analyse_worker(ctx)
    func = wrk.func
    raw_seen = set()
    for kind, state in paths:
        for evt in state.events:
            if evt.kind in ('S', 'P') and evt.raw and id(evt.node) not in \
                    raw_seen:
                raw_seen.add(id(evt.node))
                ctx.decide('LOCK', func,
                           f'{txt(evt.node)[:70]}: worker write into the '
                           f'environment under the environment lock',
                           evt.region is not None, at=evt.where,
                           detail='the entry is written through env[...] '
                                  'without the Env API and outside `with '
                                  'env.lock`: the master, which decides '
                                  'under the lock (atomically), can see the '
                                  'status change between two of its tests'
                           if evt.region is None else None)


def check_pub(ctx, shared=None):
    wrk, interp, paths = shared or analyse_worker(ctx)
    func = wrk.func
    n_s = n_p = 0
    reported = {}
    seen_pairs = set()
    for kind, state in paths:
        open_s = []
        for evt in state.events:
            if evt.kind == 'S':
                n_s += 1
                val = interp.absval(evt.value, state)
                if _status_may_be_done(val):
                    open_s.append(evt)
            elif evt.kind == 'P':
                n_p += 1
                for sev in open_s:
                    pair = (id(sev.node), id(evt.node))
                    same = sev.region is not None and \
                        sev.region == evt.region
                    cond = sev.cond or evt.cond
                    key = f'{txt(sev.node)[:60]} before {txt(evt.node)[:60]}'
                    if same:
                        outcome = True
                    elif cond:
                        outcome = None
                    else:
                        outcome = False
                    prev = reported.get(key)
                    if prev is None or (prev[0] is True and
                                        outcome is not True):
                        reported[key] = (outcome, evt.where, sev.where)
                    seen_pairs.add(pair)
            elif evt.kind == 'UNKNOWN':
                reported.setdefault(
                    f'callable handed to atomically not resolved: '
                    f'{txt(evt.node)[:60]}', (None, evt.where, None))
    check_raw_lock(ctx, (wrk, interp, paths))
    for key, (outcome, pwhere, swhere) in reported.items():
        ctx.decide('PUB', func, key, outcome, at=pwhere,
                   detail='a status that may be DONE is written (at '
                          f'{swhere}) before this payload write and they '
                          'are not in one atomic region: the master can '
                          'release a dependent that reads the environment '
                          'without the payload / with a stale end clock'
                   if outcome is not True else 'same atomic region')
    if not reported:
        # payload-then-status on every path
        ctx.holds('PUB', func, 'no payload write follows a status write '
                  'that may be DONE on any path of the iteration',
                  at=func.where(wrk.do_call),
                  detail={'paths': len(paths)})
    ctx.stats['pub_status_writes_on_paths'] = n_s
    ctx.stats['pub_payload_writes_on_paths'] = n_p
    s_nodes = {id(e.node) for _, st in paths for e in st.events
               if e.kind == 'S'}
    p_nodes = {id(e.node) for _, st in paths for e in st.events
               if e.kind == 'P'}
    ctx.floor('PUB-S', len(s_nodes), 1, 'status writes for the task')
    ctx.floor('PUB-P', len(p_nodes), 1, 'payload writes (apply / clocks)')


def check_wrk1(ctx, shared=None):
    '''Every path of an iteration: task_done exactly once, then a
    notification under the condition variable; no path leaves the function
    exceptionally.'''
    wrk, interp, paths = shared or analyse_worker(ctx)
    func = wrk.func
    seen = {}
    for kind, state in paths:
        evs = state.events
        if not any(e.kind == 'DO' for e in evs) and kind != 'raise':
            # sentinel path / path that does not execute a task
            continue
        n_done = sum(1 for e in evs if e.kind == 'TASK_DONE')
        if kind == 'raise':
            note = state.notes[-1] if state.notes else 'exception'
            key = f'exception leaves the worker: {note}'
            seen.setdefault(key, (False, note))
            continue
        if kind == 'inner-loop':
            seen.setdefault('inner loop in the worker iteration',
                            (None, ''))
            continue
        if n_done != 1:
            key = f'task_done() executed {n_done} times on a path'
            seen.setdefault(key, (False, '; '.join(state.notes[-2:])))
            continue
        idx_done = next(i for i, e in enumerate(evs)
                        if e.kind == 'TASK_DONE')
        notifies = [(i, e) for i, e in enumerate(evs) if e.kind == 'NOTIFY']
        after = [e for i, e in notifies if i > idx_done]
        if not after:
            seen.setdefault('no notification after task_done() on a path',
                            (False, '; '.join(state.notes[-2:])))
            continue
        if not all(e.value for e in after):
            seen.setdefault('notification outside `with cond_var`',
                            (False, after[0].where))
            continue
        last_pub = max([i for i, e in enumerate(evs)
                        if e.kind in ('S', 'P')], default=-1)
        first_notify = min(i for i, e in notifies)
        if last_pub > first_notify:
            seen.setdefault('publication after the notification',
                            (False, evs[last_pub].where))
            continue
        seen.setdefault('task_done() once, then notify under the condition '
                        'variable, after the last publication', (True, ''))
    for key, (outcome, note) in seen.items():
        ctx.decide('WRK-1', func, key, outcome, at=func.where(wrk.loop),
                   detail=note or None)
    if not seen:
        raise AnalysisError('WRK-1: no path through the worker iteration')


def check_wrk2(ctx, shared=None):
    '''Result mapping is total and validated.'''
    wrk, interp, paths = shared or analyse_worker(ctx)
    func = wrk.func
    seen = {}
    # the do call is executed at most once per dequeue: not in an inner loop
    inner = lexically_inside(wrk.parents, wrk.do_call,
                             lambda n: isinstance(n, (ast.For, ast.While)))
    ctx.decide('WRK-2', func, 'do() is called once per dequeued task',
               inner is wrk.loop, at=func.where(wrk.do_call))
    for kind, state in paths:
        evs = state.events
        if kind == 'raise':
            continue            # WRK-1 reports it
        if not any(e.kind == 'DO' for e in evs):
            continue
        s_events = [e for e in evs if e.kind == 'S']
        if not s_events:
            seen.setdefault('a path of the iteration writes no status',
                            (False, '; '.join(state.notes[-2:])))
            continue
        # the update proposed by the task is merged verbatim: applied AFTER
        # the status write, a 'status' entry of the task's own key in it
        # replaces the status the task returned
        last_s = max(i for i, e in enumerate(evs) if e.kind == 'S')
        for pev in evs[last_s + 1:]:
            if pev.kind == 'P' and call_name(pev.node) in (
                    'apply', 'update') and not any(
                        pev.node is e.node for e in s_events):
                seen.setdefault(
                    f'{txt(pev.node)[:60]} merges the update of the task '
                    f'after the status write', (False, pev.where))
        for sev in s_events:
            val = interp.absval(sev.value, state)
            desc = txt(sev.node)[:70]
            if sev.cond:
                seen.setdefault(f'{desc}: conditional write in a helper',
                                (None, sev.where))
            elif val[0] == 'const':
                ok = not (state.failed_validation and val[1] == 'DONE')
                seen.setdefault(f'{desc} writes constant {val[1]}'
                                + (' on a failed-validation path'
                                   if not ok else ''), (ok, sev.where))
            elif val[0] in ('validated', 'final') and \
                    state.failed_validation:
                seen.setdefault(
                    f'{desc} writes the status returned by the task on a '
                    f'path where the result failed validation',
                    (False, sev.where))
            elif val[0] in ('validated', 'final'):
                seen.setdefault(f'{desc} writes a validated status',
                                (True, sev.where))
            elif val[0] == 'tainted':
                seen.setdefault(
                    f'{desc} writes the unvalidated status returned by the '
                    f'task', (False, sev.where))
            else:
                seen.setdefault(f'{desc} writes a value of unknown origin',
                                (None, sev.where))
    for key, (outcome, where) in seen.items():
        ctx.decide('WRK-2', func, key, outcome, at=where or func.where(),
                   detail=('Env.apply merges the mapping returned by the '
                           'task verbatim: a status entry under the task\'s '
                           'own key overrides the status it returned (a task '
                           'forwarding the entry of a dependency ends with '
                           'that dependency\'s status)'
                           if 'after the status write' in key else
                           'a malformed result (exception, bad pair, bad '
                           'update) must fail the task: here the status '
                           'proposed by the task (possibly DONE) survives '
                           'the failed validation'
                           if 'failed validation' in key else
                           'a status that is not a TaskStatus is stored '
                           'verbatim and makes Env.get_status raise in the '
                           'master') if outcome is False else None)
    s_nodes = {id(e.node) for _, st in paths for e in st.events
               if e.kind == 'S'}
    ctx.floor('WRK-2', len(s_nodes), 1, 'status writes in the worker')


FINAL_STATUSES = frozenset({'DONE', 'FAILED', 'SKIPPED'})


def _status_set(program, func, expr, depth=0):
    '''Names of the TaskStatus members of a tuple / set / list display (or
    of a module / class constant bound to one, or frozenset(...) of one),
    else None.'''
    if isinstance(expr, ast.Call) and call_name(expr) in (
            'frozenset', 'set', 'tuple', 'list') and len(expr.args) == 1:
        return _status_set(program, func, expr.args[0], depth)
    if isinstance(expr, (ast.Tuple, ast.Set, ast.List)):
        mems = [enum_member(e, 'TaskStatus') for e in expr.elts]
        return frozenset(mems) if mems and all(mems) else None
    if depth < 2 and isinstance(expr, (ast.Name, ast.Attribute)):
        name = expr.id if isinstance(expr, ast.Name) else expr.attr
        holders = [func.module.tree.body]
        cls_ = func.cls
        while cls_ is not None:
            holders.append(cls_.node.body)
            cls_ = getattr(cls_, 'parent_cls', None)
        for body in holders:
            for stmt in body:
                if isinstance(stmt, ast.Assign) and len(
                        stmt.targets) == 1 and isinstance(
                            stmt.targets[0], ast.Name) and \
                        stmt.targets[0].id == name:
                    return _status_set(program, func, stmt.value, depth + 1)
    return None


def _checks_final(func, program, depth=0):
    '''The helper rejects (raises on) a status outside a set of settled
    statuses, itself or in a resolved callee that receives its argument.'''
    for node in walk_local(func.node):
        if isinstance(node, ast.If) and isinstance(
                node.test, ast.Compare) and len(node.test.ops) == 1 and \
                isinstance(node.test.ops[0], (ast.In, ast.NotIn)):
            mems = _status_set(program, func, node.test.comparators[0])
            reject = node.body if isinstance(node.test.ops[0], ast.NotIn) \
                else node.orelse
            if mems is not None and mems <= FINAL_STATUSES and any(
                    isinstance(st, ast.Raise) for st in reject):
                return True
    if depth < 2:
        pars = {a.arg for a in func.node.args.args}
        for call in calls_in(func.node):
            if not any(isinstance(n, ast.Name) and n.id in pars
                       for a in call.args for n in ast.walk(a)):
                continue
            cands, _ = program.resolve_call(func, call)
            if cands and all(c.key != func.key and _checks_final(
                    c, program, depth + 1) for c in cands):
                return True
    return False


def check_wrk_final(ctx, shared=None):
    '''The master releases a task when its dependencies are DONE, FAILED
    or SKIPPED and sleeps until a worker notifies it.  A status published
    by the worker for a task it has run must therefore be one of those: a
    task whose do() returns TaskStatus.PENDING or WAITING (valid members,
    accepted by `TaskStatus(status)`) would leave its dependents WAITING
    for ever - no other notification comes - and schedule() would never
    return.'''
    wrk, interp, paths = shared or analyse_worker(ctx)
    func = wrk.func
    seen = {}
    for kind, state in paths:
        evs = state.events
        if kind == 'raise' or not any(e.kind == 'DO' for e in evs):
            continue
        for sev in [e for e in evs if e.kind == 'S']:
            val = interp.absval(sev.value, state)
            desc = txt(sev.node)[:70]
            if sev.cond:
                seen.setdefault(f'{desc}: conditional write in a helper',
                                (None, sev.where))
            elif val[0] == 'const':
                seen.setdefault(f'{desc} writes {val[1]}',
                                (val[1] in FINAL_STATUSES, sev.where))
            elif val[0] == 'final':
                seen.setdefault(f'{desc} writes a status checked to be '
                                f'DONE, FAILED or SKIPPED', (True, sev.where))
            elif val == ('validated',):
                seen.setdefault(
                    f'{desc} writes any TaskStatus member the task returned',
                    (False, sev.where))
            else:
                # validated by a helper, tainted (WRK-2 reports that) or of
                # unknown origin: whether it is final is not read here
                seen.setdefault(f'{desc}: finality of the status not read',
                                (None, sev.where))
    for key, (outcome, where) in seen.items():
        ctx.decide('WRK-FINAL', func, key, outcome,
                   at=where or func.where(),
                   detail='PENDING and WAITING are members of TaskStatus too: '
                          'published for a task that has run, they keep its '
                          'dependents WAITING for ever and the scheduling '
                          'call never comes back' if outcome is False
                   else None)
    ctx.floor('WRK-FINAL', len(seen), 1, 'status writes in the worker')


def _went_through_handler(state):
    return any('raised by' in n for n in state.notes)


# -------------------------------------------------- SHUT-1, WAIT, SENT ---

def find_master(program):
    '''Backend functions that start() an instance of a Thread subclass.'''
    out = []
    for func in program.all_functions():
        if not func.module.name.startswith(BACKENDS):
            continue
        starts = [c for c in calls_in(func.node)
                  if call_name(c) == 'start' and not c.args]
        if not starts:
            continue
        # the started object is built from a Thread subclass of the repo
        ok = False
        for node in walk_local(func.node):
            if isinstance(node, ast.Assign) and isinstance(node.value,
                                                           ast.Call):
                res = program.resolve_name_expr(func.module,
                                                node.value.func, func)
                if hasattr(res, 'bases') and 'Thread' in ' '.join(
                        program.base_names(res)):
                    ok = True
        if ok:
            out.append((func, starts))
    return out


def raise_witness(program, func, depth=0, seen=None, partial_ok=True):
    '''An explicit raise / assert reachable from `func` through resolved
    repo calls (and function values handed to partial / atomically), not
    caught on the way.  Returns a chain of strings or None.'''
    seen = seen if seen is not None else set()
    if func.key in seen or depth > 4:
        return None
    seen.add(func.key)
    parents = enclosing_chain(func.node)

    def caught(node):
        cur = node
        while True:
            par = parents.get(id(cur))
            if par is None:
                return False
            if isinstance(par, ast.Try) and cur in par.body and any(
                    h.type is None or txt(h.type) in ('Exception',
                                                      'BaseException')
                    for h in par.handlers):
                return True
            cur = par

    for node in walk_local(func.node):
        if isinstance(node, ast.Raise) and not caught(node):
            # a re-raise inside a handler counts as well
            return [f'{func.key} raises '
                    f'{txt(node.exc)[:50] if node.exc else "(re-raise)"} '
                    f'({func.where(node)})']
        if isinstance(node, ast.Assert) and not caught(node):
            return [f'{func.key}: {txt(node)[:60]} ({func.where(node)})']
    for call in calls_in(func.node):
        if caught(call):
            continue
        targets = []
        cands, how = program.resolve_call(func, call)
        targets += cands
        for arg in list(call.args) + [k.value for k in call.keywords]:
            if isinstance(arg, ast.Call) and call_name(arg) == 'partial' \
                    and arg.args:
                arg = arg.args[0]
            if isinstance(arg, (ast.Name, ast.Attribute)):
                res = program.resolve_name_expr(func.module, arg, func)
                if res is None and isinstance(arg, ast.Attribute) and \
                        dotted(arg.value) in ('self', 'cls') and \
                        func.cls is not None:
                    res = program.find_method(func.cls, arg.attr)
                if res is not None and hasattr(res, 'params'):
                    targets.append(res)
        for cand in targets:
            chain = raise_witness(program, cand, depth + 1, seen)
            if chain:
                return [f'{func.key} calls {txt(call.func)} '
                        f'({func.where(call)})'] + chain
    return None


def check_shut(ctx):
    program = ctx.program
    masters = find_master(program)
    ctx.floor('SHUT-1', len(masters), 1,
              'backend function starting Thread-subclass instances')
    for func, starts in masters:
        program.consulted.add(func.module.relpath)
        witnesses = {}

        def may_raise(node, func=func, witnesses=witnesses):
            if node is None:
                return False
            if isinstance(node, (ast.Raise, ast.Assert)):
                return True
            for call in calls_in(node):
                cands, _ = program.resolve_call(func, call)
                for cand in cands:
                    if cand.module.name.startswith('valjean.chrono'):
                        continue
                    chain = raise_witness(program, cand)
                    if chain:
                        witnesses[id(node)] = [
                            f'{txt(call.func)} ({func.where(call)})'] + chain
                        return True
            return False

        cfg = CFG(func.node, may_raise=may_raise)
        start_nodes = [n for n in cfg.nodes if n.kind == 'stmt' and any(
            c in starts for c in calls_in(n.ast))]
        if not start_nodes:
            raise AnalysisError('start() statement not found in the CFG')
        first = min(start_nodes, key=lambda n: n.id)
        # identify the thread list and queue from the code
        join_vars = set()

        def is_put_none(node):
            if node.kind == 'iter':
                return any(call_name(c) == 'put' and c.args and isinstance(
                    c.args[0], ast.Constant) and c.args[0].value is None
                           for s in node.ast.body for c in calls_in(s))
            return False

        def is_join(node):
            if node.kind == 'iter' and isinstance(node.ast.target, ast.Name):
                tvar = node.ast.target.id
                return any(call_name(c) == 'join' and
                           dotted(receiver(c)) == tvar
                           for s in node.ast.body for c in calls_in(s))
            return False

        n_paths = 0
        bad = {}
        try:
            for path in cfg.paths(first, limit=50000):
                n_paths += 1
                last, how = path[-1]
                if how in ('back',):
                    continue
                nodes = [n for n, _ in path]
                if last.kind not in ('exit', 'raise'):
                    continue
                put_i = [i for i, n in enumerate(nodes) if is_put_none(n)]
                join_i = [i for i, n in enumerate(nodes) if is_join(n)]
                ok = bool(put_i) and bool(join_i) and \
                    min(put_i) < max(join_i)
                if not ok:
                    # which statement raised?
                    raiser = next((n for n, lab in path if lab == 'exc'),
                                  None)
                    if last.kind == 'raise' and raiser is not None:
                        key = f'exception in `{raiser.text(70)}` leaves ' \
                              f'the function without stopping the workers'
                        bad.setdefault(key, (raiser, witnesses.get(
                            id(raiser.ast))))
                    else:
                        key = 'a normal exit does not stop and join the ' \
                              'workers'
                        bad.setdefault(key, (last, None))
        except OverflowError:
            ctx.undecided('SHUT-1', func, 'too many paths', at=func.where())
            continue
        ctx.stats['shut_paths'] = n_paths
        for key, (node, chain) in bad.items():
            ctx.violated('SHUT-1', func, key,
                         at=func.where(node.ast) if node.ast is not None
                         else func.where(),
                         detail={'witness': chain})
        if not bad:
            ctx.holds('SHUT-1', func,
                      'every exit after the first start() passes the '
                      'sentinel loop and the join loop',
                      at=func.where(first.ast), detail={'paths': n_paths})
        # SHUT-2: as many sentinels as started workers.  The queue outlives
        # the call: a sentinel nobody consumes stays in it and stops a
        # worker of the NEXT call before it has done anything.
        spawn = [n for n in cfg.nodes if n.kind == 'iter' and any(
            c in starts for s in n.ast.body for c in calls_in(s))]
        sent = [n for n in cfg.nodes if is_put_none(n)]
        joins = [n for n in cfg.nodes if is_join(n)]
        thread_lists = {txt(n.ast.iter) for n in joins}
        for snode in sent:
            construct = f'sentinel loop `for ... in {txt(snode.ast.iter)}`'
            if any(tl and tl in txt(snode.ast.iter) for tl in thread_lists):
                ctx.holds('SHUT-2', func, construct + ' counts the started '
                          'threads', at=func.where(snode.ast))
                continue
            if len(spawn) != 1 or txt(spawn[0].ast.iter) != txt(
                    snode.ast.iter):
                ctx.undecided('SHUT-2', func, construct,
                              at=func.where(snode.ast),
                              detail='spawn loop and sentinel loop do not '
                                     'iterate over the same expression')
                continue
            witness = None
            try:
                for path in cfg.paths(cfg.entry, limit=50000):
                    nodes = [n for n, _ in path]
                    if snode not in nodes:
                        continue
                    upto = path[:nodes.index(snode)]
                    if not any(n is spawn[0] and lab == 'exhausted'
                               for n, lab in upto):
                        raiser = next((n for n, lab in upto
                                       if lab == 'exc'), None)
                        witness = raiser
                        break
            except OverflowError:
                ctx.undecided('SHUT-2', func, construct,
                              at=func.where(snode.ast))
                continue
            found = witness is not None
            ctx.decide(
                'SHUT-2', func, construct + ' is reached only after all '
                'the workers were started', not found,
                at=func.where(snode.ast),
                detail=None if not found else {
                    'path': f'exception in `{witness.text(60)}` reaches the '
                            f'sentinel loop before the spawn loop is over',
                    'why': 'more sentinels than workers: the extra ones '
                           'stay in the queue of the backend after the call '
                           'and kill the workers of the next call'})
        ctx.floor('SHUT-2', len(sent), 1, 'sentinel loops')


def check_wait_sent(ctx):
    program = ctx.program
    masters = find_master(program)
    ctx.floor('WAIT', len(masters), 1, 'master function')
    func, starts = masters[0]
    parents = enclosing_chain(func.node)
    n_wait = 0
    for call in calls_in(func.node):
        cname = call_name(call)
        recv = receiver(call)
        if cname == 'wait' and recv is not None:
            n_wait += 1
            cond = dotted(recv)
            with_node = lexically_inside(
                parents, call, lambda n: isinstance(n, ast.With) and any(
                    dotted(i.context_expr) == cond for i in n.items))
            ctx.decide('WAIT', func, f'{txt(call)} is inside `with {cond}`',
                       with_node is not None, at=func.where(call))
            if with_node is not None:
                # the inspection of the states (the enqueue call that reads
                # the environment) is in the same with block, before wait
                inspect = [c for s in with_node.body for c in calls_in(s)
                           if c.lineno < call.lineno and any(
                               txt(a) in ('env', 'self.env')
                               for a in c.args)]
                ctx.decide('WAIT', func,
                           'state inspection and wait() share one '
                           f'`with {cond}` block',
                           bool(inspect), at=func.where(with_node),
                           detail='otherwise a worker can notify between '
                                  'the inspection and the wait (lost '
                                  'wake-up)')
        if cname in ('notify', 'notify_all') and recv is not None:
            cond = dotted(recv)
            with_node = lexically_inside(
                parents, call, lambda n: isinstance(n, ast.With) and any(
                    dotted(i.context_expr) == cond for i in n.items))
            ctx.decide('WAIT', func, f'{txt(call)} under `with {cond}`',
                       with_node is not None, at=func.where(call))
    ctx.floor('WAIT-wait', n_wait, 1, 'cond_var.wait() in the master')
    # SENT
    loops = [n for n in walk_local(func.node) if isinstance(n, ast.For)]
    start_loop = next((l for l in loops if any(
        c in starts for s in l.body for c in calls_in(s))), None)
    put_loop = next((l for l in loops if any(
        call_name(c) == 'put' and c.args and isinstance(c.args[0],
                                                        ast.Constant)
        and c.args[0].value is None for s in l.body for c in calls_in(s))),
                    None)
    if start_loop is None or put_loop is None:
        ctx.undecided('SENT', func, 'start loop / sentinel loop not found',
                      at=func.where())
    else:
        # `threads = started` : the list the sentinels are counted on may be
        # an alias of the list the start loop fills
        alias = {}
        for node in walk_local(func.node):
            if isinstance(node, ast.Assign) and len(node.targets) == 1 and \
                    isinstance(node.targets[0], ast.Name) and isinstance(
                        node.value, ast.Name):
                alias[node.targets[0].id] = node.value.id

        def root(name):
            seen = set()
            while name in alias and name not in seen:
                seen.add(name)
                name = alias[name]
            return name
        ctx.decide('SENT', func,
                   f'workers started over `{txt(start_loop.iter)}`, '
                   f'sentinels put over `{txt(put_loop.iter)}`',
                   txt(start_loop.iter) == txt(put_loop.iter) or
                   root(txt(put_loop.iter)) in {
                       root(dotted(receiver(c)) or '')
                       for s in start_loop.body
                       for c in calls_in(s) if call_name(c) == 'append'},
                   at=func.where(put_loop),
                   detail='one sentinel per started worker')
        joins = [c for c in calls_in(func.node) if call_name(c) == 'join'
                 and not c.args and 'queue' in (dotted(receiver(c)) or '')]
        before = [c for c in joins if c.lineno < put_loop.lineno]
        in_finally = lexically_inside(
            parents, put_loop, lambda n: isinstance(n, ast.Try) and
            put_loop in list(ast.walk(ast.Module(body=n.finalbody,
                                                 type_ignores=[]))))
        ctx.decide('SENT', func, 'queue.join() precedes the sentinels on '
                   'the normal path', bool(before) or None,
                   at=func.where(put_loop))
    # worker side
    workers = find_workers(program)
    if workers:
        wrk = workers[0]
        wparents = wrk.parents
        exits = []
        for node in walk_local(wrk.loop):
            if isinstance(node, ast.If) and isinstance(node.test,
                                                       ast.Compare):
                tst = node.test
                if txt(tst.left) == wrk.task and isinstance(
                        tst.comparators[0], ast.Constant) and \
                        tst.comparators[0].value is None and any(
                            isinstance(s, (ast.Break, ast.Return))
                            for s in node.body):
                    exits.append(node)
        ctx.decide('SENT', wrk.func, 'worker leaves its loop on the '
                   'sentinel', bool(exits), at=wrk.func.where(wrk.loop))
        # Q-BALANCE: the queue that the master joins lives as long as the
        # backend (created in its __init__): every item taken from it must
        # be acknowledged, the sentinels too, or the NEXT scheduling call on
        # the same backend blocks for ever in queue.join()
        long_lived = None
        backend_cls = func.cls
        if backend_cls is not None:
            init = backend_cls.methods.get('__init__')
            in_init = init is not None and any(
                isinstance(n, ast.Assign) and any(
                    txt(t) == 'self.queue' for t in n.targets)
                for n in ast.walk(init.node))
            in_call = any(isinstance(n, ast.Assign) and any(
                txt(t) in ('self.queue', 'queue') for t in n.targets) and
                          isinstance(n.value, ast.Call) and 'Queue' in txt(
                              n.value.func)
                          for n in ast.walk(func.node))
            long_lived = in_init and not in_call
        for node in exits:
            acked = any(isinstance(c, ast.Call) and call_name(c) ==
                        'task_done' for s in node.body for c in ast.walk(s))
            ctx.decide('SENT', wrk.func,
                       'the sentinel is acknowledged (task_done) before the '
                       'worker leaves'
                       if long_lived else 'sentinel path (queue created per '
                       'call: no acknowledgement needed)',
                       True if acked or long_lived is False else
                       False if long_lived else None,
                       at=wrk.func.where(node),
                       detail='the queue belongs to the backend object and '
                              'is joined by every scheduling call: n_workers '
                              'unacknowledged sentinels make the next '
                              'queue.join() block for ever'
                       if long_lived and not acked else None)
        # notifications in the worker are under the condition variable
        for call in calls_in(wrk.func.node):
            if call_name(call) in ('notify', 'notify_all'):
                cond = dotted(receiver(call))
                with_node = lexically_inside(
                    wparents, call, lambda n: isinstance(n, ast.With) and
                    any(dotted(i.context_expr) == cond for i in n.items))
                ctx.decide('WAIT', wrk.func,
                           f'{txt(call)} under `with {cond}`',
                           with_node is not None, at=wrk.func.where(call))


# ------------------------------------------------------------ CLOCK-SRC ---

WALL_CLOCKS = {'time.time', 'time.time_ns'}
LOCAL_ORIGIN_CLOCKS = {'time.perf_counter', 'time.perf_counter_ns',
                       'time.monotonic', 'time.monotonic_ns',
                       'time.process_time', 'time.process_time_ns',
                       'time.thread_time', 'time.thread_time_ns',
                       'timeit.default_timer', 'time.clock'}


def _clock_origins(program, func, expr, depth=0):
    """Set of origins of a recorded clock: "wall" (time.time: seconds since
    the epoch, comparable between runs, processes and reboots), "local:<fn>"
    (a clock whose origin is arbitrary: perf_counter, monotonic, process
    time) or "unknown:<text>".  Follows local names, `with K() as x` /
    `x = K()` objects of package classes and their `self.<attr>` stores."""
    from ..loader import ClassInfo
    if depth > 4:
        return {'unknown:depth'}
    if isinstance(expr, ast.Call):
        res = program.resolve_name_expr(func.module, expr.func, func)
        if isinstance(res, tuple) and res[0] == 'ext':
            if res[1] in WALL_CLOCKS:
                return {'wall'}
            if res[1] in LOCAL_ORIGIN_CLOCKS:
                return {f'local:{res[1]}'}
        if call_name(expr) in ('float', 'int') and expr.args:
            return _clock_origins(program, func, expr.args[0], depth + 1)
        return {f'unknown:{txt(expr)[:40]}'}
    if isinstance(expr, ast.Name):
        defs = [n.value for n in walk_local(func.node)
                if isinstance(n, ast.Assign) and any(
                    isinstance(t, ast.Name) and t.id == expr.id
                    for t in n.targets)]
        if not defs:
            return {f'unknown:{expr.id}'}
        out = set()
        for val in defs:
            out |= _clock_origins(program, func, val, depth + 1)
        return out
    if isinstance(expr, ast.Attribute) and isinstance(expr.value, ast.Name):
        base = expr.value.id
        makers = []
        for node in walk_local(func.node):
            if isinstance(node, ast.With):
                for item in node.items:
                    if isinstance(item.optional_vars, ast.Name) and \
                            item.optional_vars.id == base:
                        makers.append(item.context_expr)
            if isinstance(node, ast.Assign) and any(
                    isinstance(t, ast.Name) and t.id == base
                    for t in node.targets):
                makers.append(node.value)
        out = set()
        for maker in makers:
            klass = program.resolve_name_expr(
                func.module, maker.func, func) if isinstance(
                    maker, ast.Call) else None
            if not isinstance(klass, ClassInfo):
                out.add(f'unknown:{txt(maker)[:40]}')
                continue
            stores = []
            for meth in klass.methods.values():
                for node in walk_local(meth.node):
                    if isinstance(node, ast.Assign) and any(
                            txt(t) == f'self.{expr.attr}'
                            for t in node.targets) and not (
                                isinstance(node.value, ast.Constant) and
                                node.value.value is None):
                        stores.append((meth, node.value))
            if not stores:
                out.add(f'unknown:{klass.name}.{expr.attr}')
            for meth, val in stores:
                out |= _clock_origins(program, meth, val, depth + 1)
        return out or {f'unknown:{txt(expr)[:40]}'}
    return {f'unknown:{txt(expr)[:40]}'}


def check_clock_src(ctx):
    """The clocks persisted with a task (start_clock / end_clock) are
    compared with those of OTHER runs of the job, possibly in another process
    or after a reboot: they must be wall-clock readings (time.time()).
    perf_counter / monotonic / process_time have an arbitrary origin that
    changes from one process (or boot) to the next, so a task persisted
    before looks newer or older than its dependencies at random.

    Sites: arguments of set_start_end_clock, start_clock= / end_clock=
    keywords, 'start_clock' / 'end_clock' dictionary keys and subscript
    stores; a function that records one of its own parameters is a setter
    and the arguments of its calls become sites (fixpoint)."""
    program = ctx.program
    funcs = [f for m in program.modules.values()
             if m.name.startswith('valjean.cosette')
             for f in m.functions.values()]
    # setter name -> {(kind, positional index or None, keyword name)}
    setters = {'set_start_end_clock': {('start', 1, 'start'),
                                       ('end', 2, 'end')}}
    decided = {}
    changed = True
    while changed:
        changed = False
        for func in funcs:
            sites = []
            for call in calls_in(func.node):
                for kind, pos, kwd in setters.get(call_name(call), ()):
                    arg = get_arg(call, pos, kwd)
                    if arg is not None:
                        sites.append((kind, arg, call))
                for kwd in call.keywords:
                    if kwd.arg in ('start_clock', 'end_clock'):
                        sites.append((kwd.arg[:-6], kwd.value, call))
            for node in walk_local(func.node):
                if isinstance(node, ast.Dict):
                    for key, val in zip(node.keys, node.values):
                        if isinstance(key, ast.Constant) and key.value in (
                                'start_clock', 'end_clock'):
                            sites.append((key.value[:-6], val, node))
                if isinstance(node, ast.Assign):
                    for tgt in node.targets:
                        if isinstance(tgt, ast.Subscript) and isinstance(
                                tgt.slice, ast.Constant) and \
                                tgt.slice.value in ('start_clock',
                                                    'end_clock'):
                            sites.append((tgt.slice.value[:-6], node.value,
                                          node))
            for kind, arg, where in sites:
                if isinstance(arg, ast.Name) and arg.id in func.params:
                    # a setter forwarding its parameter
                    plist = [p for p in func.params
                             if p not in ('self', 'cls')]
                    args = func.node.args
                    positional = [a.arg for a in args.posonlyargs + args.args
                                  if a.arg not in ('self', 'cls')]
                    pos = positional.index(arg.id) \
                        if arg.id in positional else None
                    entry = (kind, pos, arg.id)
                    if entry not in setters.setdefault(func.name, set()) \
                            and arg.id in plist:
                        setters[func.name].add(entry)
                        changed = True
                    continue
                key = (func.key, kind, txt(where)[:50])
                if key in decided:
                    continue
                origins = _clock_origins(program, func, arg)
                decided[key] = (func, kind, where, origins)
    for func, kind, where, origins in decided.values():
        local = sorted(o for o in origins if o.startswith('local:'))
        ctx.decide(
            'CLOCK-SRC', func,
            f'{kind} clock recorded by {txt(where)[:50]}',
            False if local else True if origins == {'wall'} else None,
            at=func.where(where),
            detail={'origins': sorted(origins),
                    'why': 'a clock with an arbitrary origin is persisted '
                           'and compared across runs' if local else None})
    ctx.floor('CLOCK-SRC', len(decided), 2, 'recorded start / end clocks')


# -------------------------------------------------------- BACKEND-OWNED ---

def check_backend_owned(ctx):
    """The work queue belongs to a backend instance and sentinels, tasks and
    queue.join() of one schedule() call assume that nobody else uses it.  A
    backend built ONCE for the process - class attribute, module-level
    object, default value of a parameter - is shared by every Scheduler that
    does not name its own: two calls alive at the same time (a task that
    schedules a sub-graph, two threads) steal each other's sentinels and
    tasks and block in queue.join()."""
    from ..loader import ClassInfo
    program = ctx.program
    # a backend is a class of the backends package that implements the
    # scheduling interface (value classes next to it are not backends)
    backends = [c for c in program.all_classes()
                if c.module.name.startswith(BACKENDS) and
                c.parent_cls is None and 'execute_tasks' in c.methods]
    ctx.floor('BACKEND-OWNED', len(backends), 1, 'backend classes')
    names_ = {c.name for c in backends}
    n = 0
    for mod in program.modules.values():
        if not mod.name.startswith('valjean.cosette'):
            continue
        program.consulted.add(mod.relpath)
        shared = []

        def ctor_calls(node):
            for sub in ast.walk(node):
                if isinstance(sub, ast.Call):
                    res = program.resolve_name_expr(mod, sub.func)
                    if isinstance(res, ClassInfo) and res.name in names_:
                        yield sub

        def scan(body, where):
            for stmt in body:
                if isinstance(stmt, (ast.FunctionDef, ast.AsyncFunctionDef)):
                    for dflt in stmt.args.defaults + [
                            d for d in stmt.args.kw_defaults if d]:
                        for call in ctor_calls(dflt):
                            shared.append((call, f'default value of a '
                                           f'parameter of {stmt.name}'))
                    continue
                if isinstance(stmt, ast.ClassDef):
                    scan(stmt.body, f'class attribute of {stmt.name}')
                    continue
                if isinstance(stmt, (ast.If, ast.Try, ast.With)):
                    for fld in ('body', 'orelse', 'finalbody'):
                        scan(getattr(stmt, fld, []) or [], where)
                    continue
                for call in ctor_calls(stmt):
                    shared.append((call, where))

        scan(mod.tree.body, 'module-level object')
        for call, where in shared:
            n += 1
            ctx.violated('BACKEND-OWNED', f'{mod.name}',
                         f'{txt(call)[:50]} built once as {where}',
                         at=f'{mod.relpath}:{call.lineno}',
                         detail='one queue for every scheduler of the '
                                'process: overlapping schedule() calls mix '
                                'their tasks and sentinels and never come '
                                'back')
        # per-call constructions (inside functions) are what is expected
        for func in mod.functions.values():
            for call in calls_in(func.node):
                res = program.resolve_name_expr(mod, call.func, func)
                if isinstance(res, ClassInfo) and res.name in names_ and \
                        not any(call is c for c, _ in shared):
                    n += 1
                    ctx.holds('BACKEND-OWNED', func,
                              f'{txt(call)[:50]} built per call of '
                              f'{func.name}', at=func.where(call))
    ctx.floor('BACKEND-OWNED', n, 1, 'constructions of a backend')


# ----------------------------------------------------- BACKEND-STATELESS ---

_STATE_MUTATORS = {'append', 'extend', 'add', 'update', 'setdefault',
                   'insert', 'pop', 'remove', 'discard', 'appendleft'}


def check_backend_stateless(ctx):
    """One backend object serves several schedule() calls (possibly of
    different graphs): what the master remembers about a graph - dependency
    lists per task name, "dependencies still blocking a task" - belongs to ONE
    call.  An attribute of the backend filled while scheduling and never
    reset at the start of execute_tasks makes the next run decide with the
    dependencies / blockers of the previous one: a task starts while a
    dependency is still running, or is skipped for a dependency it does not
    have."""
    program = ctx.program
    n = 0
    for klass in program.all_classes():
        if not klass.module.name.startswith(BACKENDS) or \
                klass.parent_cls is not None:
            continue
        exe = klass.methods.get('execute_tasks')
        if exe is None:
            continue
        program.consulted.add(klass.module.relpath)
        reset = set()
        for node in walk_local(exe.node):
            if isinstance(node, ast.Assign):
                for tgt in node.targets:
                    if isinstance(tgt, ast.Attribute) and dotted(
                            tgt.value) == 'self':
                        reset.add(tgt.attr)
            if isinstance(node, ast.Call) and call_name(node) == 'clear' \
                    and isinstance(receiver(node), ast.Attribute) and \
                    dotted(receiver(node).value) == 'self':
                reset.add(receiver(node).attr)
        filled = {}
        for meth in klass.methods.values():
            if meth.name == '__init__':
                continue
            for node in walk_local(meth.node):
                attr = None
                if isinstance(node, ast.Call) and call_name(node) in \
                        _STATE_MUTATORS:
                    recv = receiver(node)
                    while isinstance(recv, ast.Subscript):
                        recv = recv.value
                    if isinstance(recv, ast.Attribute) and dotted(
                            recv.value) == 'self':
                        attr = recv.attr
                elif isinstance(node, (ast.Assign, ast.AugAssign)):
                    tgts = node.targets if isinstance(node, ast.Assign) \
                        else [node.target]
                    for tgt in tgts:
                        base = tgt
                        while isinstance(base, ast.Subscript):
                            base = base.value
                        if base is not tgt and isinstance(
                                base, ast.Attribute) and dotted(
                                    base.value) == 'self':
                            attr = base.attr
                if attr is not None:
                    filled.setdefault(attr, (meth, node))
        n += 1
        for attr, (meth, node) in sorted(filled.items()):
            ctx.decide('BACKEND-STATELESS', meth,
                       f'{klass.name}.{attr} (filled in {meth.name}) is '
                       f'reset by execute_tasks', attr in reset,
                       at=meth.where(node),
                       detail=None if attr in reset else
                       'survives the call: the next schedule() on the same '
                       'backend decides with what this one left')
        if not filled:
            ctx.holds('BACKEND-STATELESS', klass.node.name,
                      f'{klass.name}: no attribute is filled while '
                      f'scheduling', nontrivial=False)
    ctx.floor('BACKEND-STATELESS', n, 1, 'backend classes with '
              'execute_tasks')


# --------------------------------------------------------------- DO-ONCE ---

def check_do_once(ctx):
    '''A task taken from the queue is executed ONCE: in every backend
    function, the call `<task>.do(env, config)` occurs at one site, and that
    site is not inside a loop other than the loop that takes the tasks from
    the queue.  A second site / a retry loop runs the task twice and reports
    the outcome of the last attempt only (a task whose do() raised ends
    DONE, its hard dependents run).'''
    program = ctx.program
    n_sites = 0
    for func in program.all_functions():
        if not func.module.name.startswith(BACKENDS):
            continue
        dos = [call for call in calls_in(func.node)
               if call_name(call) == 'do' and len(call.args) == 2 and
               isinstance(receiver(call), ast.Name)]
        if not dos:
            continue
        n_sites += len(dos)
        parents = enclosing_chain(func.node)
        by_task = {}
        for call in dos:
            by_task.setdefault(receiver(call).id, []).append(call)
        for tvar, calls in by_task.items():
            if len(calls) > 1:
                ctx.violated(
                    'DO-ONCE', func,
                    f'{func.name}: {tvar}.do(...) at {len(calls)} sites '
                    f'(lines {", ".join(str(c.lineno) for c in calls)})',
                    at=func.where(calls[1]),
                    detail='the task can be executed twice; only the last '
                           'outcome is reported')
                continue
            call = calls[0]
            # loops around the call that do not (re)bind the task variable
            bad_loop = None
            cur = parents.get(id(call))
            while cur is not None and cur is not func.node:
                if isinstance(cur, (ast.For, ast.While)):
                    rebinds = any(
                        isinstance(n, ast.Name) and n.id == tvar and
                        isinstance(n.ctx, ast.Store)
                        for n in ast.walk(cur))
                    if not rebinds:
                        bad_loop = cur
                        break
                cur = parents.get(id(cur))
            ctx.decide('DO-ONCE', func,
                       f'{func.name}: {txt(call)[:40]} at one site, '
                       + ('inside a loop that does not take a new task'
                          if bad_loop is not None else
                          'once per task taken'),
                       bad_loop is None, at=func.where(call),
                       detail='retry loop: the task is executed again'
                       if bad_loop is not None else None)
    ctx.floor('DO-ONCE', n_sites, 1, '<task>.do(env, config) call sites in '
              'the backends')


# ----------------------------------------------------------- QUEUE-API ---

QUEUE_PUBLIC = {'put', 'get', 'task_done', 'join', 'qsize', 'empty', 'full',
                'put_nowait', 'get_nowait', 'maxsize'}


def check_queue_api(ctx):
    '''queue.join() returns when the count of put() equals the count of
    task_done(): the backends use the work queue only through its public
    interface.  Reaching into the object (`.queue` deque, `.mutex`,
    `.unfinished_tasks`, `.all_tasks_done` ...) changes the content without
    the accounting: tasks dropped from the deque are never task_done(), the
    next join() of that backend never returns.'''
    program = ctx.program
    qattrs = set()
    for func in program.all_functions():
        if not func.module.name.startswith(BACKENDS):
            continue
        for node in ast.walk(func.node):
            if isinstance(node, ast.Assign) and isinstance(
                    node.value, ast.Call) and (dotted(
                        node.value.func) or '').split('.')[-1] in (
                            'Queue', 'LifoQueue', 'PriorityQueue',
                            'SimpleQueue'):
                for tgt in node.targets:
                    if isinstance(tgt, ast.Attribute):
                        qattrs.add(tgt.attr)
                    elif isinstance(tgt, ast.Name):
                        qattrs.add(tgt.id)
    ctx.floor('QUEUE-API', len(qattrs), 1, 'work queue created in a backend')
    n_use = n_bad = 0
    for func in program.all_functions():
        if not func.module.name.startswith(BACKENDS):
            continue
        for node in ast.walk(func.node):
            if not (isinstance(node, ast.Attribute) and isinstance(
                    node.ctx, ast.Load)):
                continue
            base = node.value
            bname = base.attr if isinstance(base, ast.Attribute) else \
                base.id if isinstance(base, ast.Name) else None
            if bname not in qattrs:
                continue
            # <x>.queue.<attr> where <x>.queue is the work queue
            if isinstance(base, ast.Name) and func.module.imports.get(
                    bname, (None,))[0] == 'module':
                continue
            n_use += 1
            if node.attr in QUEUE_PUBLIC:
                continue
            n_bad += 1
            ctx.violated('QUEUE-API', func,
                         f'{func.name}: {txt(node)} reaches into the work '
                         f'queue', at=func.where(node),
                         detail='the content changes without the put / '
                                'task_done accounting that join() waits on')
    ctx.floor('QUEUE-API-uses', n_use, 4, 'uses of the work queue')
    if not n_bad:
        ctx.holds('QUEUE-API', 'backends',
                  f'{n_use} uses of the work queue '
                  f'({", ".join(sorted(qattrs))}) go through its public '
                  f'interface', nontrivial=False)
