'''C20 - written report: VALIDATE-FIRST, RESERVED, DUP-KEY, PAGE-FLOW, TOC-REL,
FIG-NAME.'''
import ast

from ..astutil import (txt, call_name, receiver, walk_local, dotted,
                       calls_in)
from ..cfg import CFG
from ..loader import AnalysisError

RST = 'valjean.javert.rst'
FS_CALLS = {'setup', 'ensure', 'mkdir', 'open', 'write_text', 'save',
            'configure', 'touch', 'makedirs', 'write_bytes', 'copy',
            'copyfile', 'rename', 'replace', 'unlink', 'rmtree'}


def _self_method(program, func, call):
    if isinstance(call.func, ast.Attribute) and isinstance(
            call.func.value, ast.Name) and call.func.value.id in (
                'self', 'cls') and func.cls is not None:
        return program.find_method(func.cls, call.func.attr)
    return None


def has_fs_effect(program, func, depth=0, seen=None):
    '''A filesystem effect in the function or in the methods of its class
    that it calls.'''
    seen = seen if seen is not None else set()
    if func.key in seen or depth > 4:
        return None
    seen.add(func.key)
    for call in calls_in(func.node, include_nested_defs=True):
        cname = call_name(call)
        meth = _self_method(program, func, call)
        if meth is not None:
            sub = has_fs_effect(program, meth, depth + 1, seen)
            if sub is not None:
                return sub
            continue
        if cname in FS_CALLS:
            if cname == 'open':
                args = [a.value for a in call.args
                        if isinstance(a, ast.Constant)]
                if args and not any(m in str(args[0]) for m in 'wax+'):
                    continue
            return f'{func.qual}: {txt(call)[:50]}'
    return None


def validates_titles(program, func, depth=0, seen=None):
    '''The function loops over the section keys of the report and passes
    every title to sanitize_filename.  Returns the set of dictionaries the
    loop ranges over (names), or None.'''
    seen = seen if seen is not None else set()
    if func.key in seen or depth > 3:
        return None
    seen.add(func.key)
    mentions = {name for name in ('text_dict', 'tree_dict')
                if any(isinstance(n, ast.Attribute) and n.attr == name
                       for n in ast.walk(func.node))}
    for loop in walk_local(func.node):
        if not isinstance(loop, (ast.For, ast.ListComp, ast.GeneratorExp,
                                 ast.SetComp)):
            continue
        for sub in ast.walk(loop):
            if isinstance(sub, ast.Call) and call_name(sub) in (
                    'sanitize_filename', 'tree_to_path'):
                if mentions:
                    return mentions
    for call in calls_in(func.node):
        meth = _self_method(program, func, call)
        if meth is not None and meth is not func:
            sub = validates_titles(program, meth, depth + 1, seen)
            if sub:
                return sub
    return None


def check_validate_first(ctx):
    program = ctx.program
    write = program.func(f'{RST}:FormattedRst.write')
    cfg = CFG(write.node, may_raise=lambda n: False)
    effects, validators = [], []
    for node in cfg.nodes:
        if node.ast is None or node.kind not in ('stmt', 'test', 'return',
                                                 'with', 'iter'):
            continue
        expr = node.ast if node.kind != 'iter' else node.ast.iter
        if node.kind == 'with':
            expr = ast.Module(body=[ast.Expr(value=i.context_expr)
                                    for i in node.ast.items],
                              type_ignores=[])
        for call in calls_in(expr):
            meth = _self_method(program, write, call)
            if meth is not None:
                if validates_titles(program, meth):
                    validators.append((node, call, meth))
                    continue
                eff = has_fs_effect(program, meth)
                if eff:
                    effects.append((node, call, eff))
            elif call_name(call) in FS_CALLS and call_name(call) != 'open':
                effects.append((node, call, txt(call)[:50]))
    ctx.floor('VALIDATE-FIRST', len(effects), 2,
              'filesystem effects reachable from FormattedRst.write')
    first = None
    for node, call, eff in effects:
        if first is None or node.lineno < first[0].lineno:
            first = (node, call, eff)
    if not validators:
        ctx.violated('VALIDATE-FIRST', write,
                     f'no validation of the section titles before '
                     f'{txt(first[1])[:40]}', at=write.where(first[1]),
                     detail='titles are only checked while the pages are '
                            'written: a bad title is rejected after files '
                            'were created (' + first[2] + ')')
        return
    val_ids = {n.id for n, _, _ in validators}
    n_paths = 0
    bad = 0
    for node, call, eff in effects:
        try:
            for path in cfg.paths(cfg.entry, stop_ids={node.id}):
                if path[-1][0] is not node:
                    continue
                n_paths += 1
                if not any(p.id in val_ids for p, _ in path[:-1]):
                    bad += 1
        except OverflowError:
            bad = None
            break
        if bad:
            ctx.violated('VALIDATE-FIRST', write,
                         f'{txt(call)[:50]} can run before the titles are '
                         f'validated', at=write.where(call), detail=eff)
            return
    ctx.count('cfg_paths', n_paths)
    vnode, vcall, vmeth = validators[0]
    covered = validates_titles(program, vmeth)
    ctx.decide('VALIDATE-FIRST', write,
               f'{txt(vcall)} precedes every filesystem effect '
               f'({len(effects)} effect sites, {n_paths} paths)',
               None if bad is None else True, at=write.where(vcall),
               detail={'validator': vmeth.key,
                       'ranges_over': sorted(covered or ())})
    ctx.decide('VALIDATE-FIRST', vmeth,
               f'{vmeth.name} covers the sections that get a page '
               f'(ranges over {sorted(covered or ())})',
               bool(covered) and ('tree_dict' in covered or
                                  'text_dict' in covered),
               at=vmeth.where())


# -------------------------------------------------------------- RESERVED --

def root_page_name(program):
    '''(literal, expression text) of the root page in _write_rec.'''
    rec = program.func(f'{RST}:FormattedRst._write_rec')
    for node in walk_local(rec.node):
        if isinstance(node, ast.If) and txt(node.test) in ('tree',
                                                           'not tree'):
            branch = node.orelse if txt(node.test) == 'tree' else node.body
            for sub in ast.walk(ast.Module(body=branch, type_ignores=[])):
                if isinstance(sub, ast.BinOp) and isinstance(sub.op,
                                                             ast.Div):
                    right = sub.right
                    lit = _literal(program, rec, right)
                    if lit is not None:
                        return lit, txt(right), rec
    raise AnalysisError('RESERVED: root page name not found in _write_rec')


def _literal(program, func, expr):
    if isinstance(expr, ast.Constant) and isinstance(expr.value, str):
        return expr.value
    if isinstance(expr, ast.Attribute) and isinstance(
            expr.value, ast.Name) and expr.value.id in ('self', 'cls') and \
            func.cls is not None:
        for klass in program.mro(func.cls):
            for stmt in klass.node.body:
                if isinstance(stmt, ast.Assign) and any(
                        txt(t) == expr.attr for t in stmt.targets) and \
                        isinstance(stmt.value, ast.Constant):
                    return stmt.value.value
    return None


def check_reserved(ctx):
    program = ctx.program
    lit, expr_txt, rec = root_page_name(program)
    klass = rec.cls
    found = []
    for meth in list(klass.methods.values()) + [program.func(
            f'{RST}:Rst.format_report_rec')]:
        for node in walk_local(meth.node):
            if not isinstance(node, ast.If):
                continue
            mentions = False
            for sub in ast.walk(node.test):
                if isinstance(sub, ast.Constant) and sub.value == lit:
                    mentions = True
                if isinstance(sub, ast.Attribute) and _literal(
                        program, meth, sub) == lit:
                    mentions = True
            if not mentions:
                continue
            raises = any(isinstance(s, ast.Raise) for s in ast.walk(
                ast.Module(body=node.body, type_ignores=[])))
            negated = isinstance(node.test, ast.Compare) and isinstance(
                node.test.ops[0], (ast.NotEq, ast.NotIn))
            if raises and not negated:
                found.append((meth, node))
    if not found:
        ctx.violated('RESERVED', rec, f'no section title is refused '
                     f'although the root page is written to {expr_txt} '
                     f'({lit!r})', at=rec.where(),
                     detail=f'a first-level section titled {lit!r} is '
                            f'written over the root page')
        return
    meth, node = found[0]
    # the guard must run before pages are written: in the validator called
    # by write() before the effects, or at registration time
    write = program.func(f'{RST}:FormattedRst.write')
    early = meth.name == 'format_report_rec' or any(
        _self_method(program, write, c) is meth
        for c in calls_in(write.node)) and validates_titles(program, meth)
    ctx.decide('RESERVED', meth, f'if {txt(node.test)[:60]}: raise  (root '
               f'page {lit!r})', True if early else None,
               at=meth.where(node))


# --------------------------------------------------------------- DUP-KEY --

def _tree_dict_aliases(func):
    '''Local names standing for (a view of) the parent's list in tree_dict:
    `subtrees = self.tree_dict[tree]`, `seen = set(subtrees)`.'''
    names = set()
    for _ in range(3):
        for node in walk_local(func.node):
            if isinstance(node, ast.Assign) and len(node.targets) == 1 and \
                    isinstance(node.targets[0], ast.Name):
                val = node.value
                if isinstance(val, ast.Call) and call_name(val) in (
                        'set', 'list', 'frozenset') and val.args:
                    val = val.args[0]
                if 'tree_dict' in txt(val) or (isinstance(val, ast.Name) and
                                               val.id in names):
                    names.add(node.targets[0].id)
    return names


def check_dup_key(ctx):
    '''Where a section is registered under its parent, a membership test
    rejects (or renames) a title already used by a sibling.'''
    program = ctx.program
    func = program.func(f'{RST}:Rst.format_report_rec')
    cfg = CFG(func.node, may_raise=lambda n: False)
    regs = []
    aliases = _tree_dict_aliases(func)
    for node in cfg.nodes:
        if node.kind != 'stmt':
            continue
        for call in calls_in(node.ast):
            if call_name(call) in ('append', 'extend') and (
                    'tree_dict' in txt(receiver(call)) or txt(
                        receiver(call)) in aliases):
                regs.append((node, call))
    ctx.floor('DUP-KEY', len(regs), 1, 'registration of a sub-section in '
              'tree_dict')
    for node, call in regs:
        key = txt(call.args[0]) if call.args else '?'
        ok_all, n_paths = True, 0
        for path in cfg.paths(cfg.entry, stop_ids={node.id}):
            if path[-1][0] is not node:
                continue
            n_paths += 1
            guarded = False
            for pnode, label in path[:-1]:
                if pnode.kind == 'test':
                    mem = _membership(pnode.ast, key, aliases)
                    if mem is not None and (label == 'true') != mem:
                        guarded = True
                if pnode.kind == 'stmt' and isinstance(
                        pnode.ast, ast.Assign) and txt(
                            pnode.ast.targets[0]) == key and guarded:
                    pass
            if not guarded:
                ok_all = False
        ctx.count('cfg_paths', n_paths)
        ctx.decide('DUP-KEY', func, f'{txt(call)[:60]} only for a title no '
                   f'sibling uses', ok_all if n_paths else None,
                   at=func.where(call),
                   detail='two sibling sections with one title share a '
                          'dictionary key: one page holds both, listed '
                          'twice in the table of contents'
                   if not ok_all else {'paths': n_paths})


def _membership(test, key, aliases=()):
    '''True if `key in <tree/text dict ...>`, False if `not in`.'''
    if isinstance(test, ast.UnaryOp) and isinstance(test.op, ast.Not):
        inner = _membership(test.operand, key, aliases)
        return None if inner is None else not inner
    if isinstance(test, ast.Compare) and len(test.ops) == 1 and \
            txt(test.left) == key and ('tree_dict' in txt(
                test.comparators[0]) or 'text_dict' in txt(
                    test.comparators[0]) or txt(
                        test.comparators[0]) in aliases):
        if isinstance(test.ops[0], ast.In):
            return True
        if isinstance(test.ops[0], ast.NotIn):
            return False
    return None


# ------------------------------------------------------------- PAGE-FLOW --

def check_page_flow(ctx):
    program = ctx.program
    func = program.func(f'{RST}:Rst.format_report_rec')
    params = func.params
    tree_par = 'tree' if 'tree' in params else None
    if tree_par is None:
        raise AnalysisError('format_report_rec has no tree parameter')
    n = 0
    for node in walk_local(func.node):
        if isinstance(node, ast.Call) and call_name(node) in (
                'extend', 'append') and 'text_dict' in txt(receiver(node)):
            n += 1
            recv = receiver(node)
            key = txt(recv.slice) if isinstance(recv, ast.Subscript) else '?'
            ctx.decide('PAGE-FLOW', func, f'{txt(node)[:60]}: text filed '
                       f'under the section being formatted',
                       key == tree_par, at=func.where(node),
                       detail='a result appears on the page of the section '
                              'that holds it')
    # recursion passes the sub-section key it registered
    for node in walk_local(func.node):
        if isinstance(node, ast.Call) and call_name(node) == \
                'format_report_rec':
            n += 1
            kws = {k.arg: txt(k.value) for k in node.keywords}
            reg = None
            aliases = _tree_dict_aliases(func)
            for sub in walk_local(func.node):
                if isinstance(sub, ast.Call) and call_name(sub) == 'append' \
                        and ('tree_dict' in txt(receiver(sub)) or txt(
                            receiver(sub)) in aliases):
                    reg = txt(sub.args[0])
            ctx.decide('PAGE-FLOW', func, f'recursion with tree='
                       f'{kws.get("tree")} (registered: {reg})',
                       kws.get('tree') == reg and reg is not None,
                       at=func.where(node))
    ctx.floor('PAGE-FLOW', n, 3, 'text_dict stores and the recursion')
    # writer: the page of `tree` holds text_dict[tree]; the toc and the
    # recursion range over the same sub-sections
    rec = program.func(f'{RST}:FormattedRst._write_rec')
    assigns = {}
    for node in walk_local(rec.node):
        if isinstance(node, ast.Assign) and isinstance(node.targets[0],
                                                       ast.Name):
            assigns.setdefault(node.targets[0].id, []).append(node.value)
    texts = [n for n in ast.walk(rec.node) if isinstance(n, ast.Subscript)
             and 'text_dict' in txt(n.value)]
    for sub in texts:
        ctx.decide('PAGE-FLOW', rec, f'page of `tree` written from '
                   f'{txt(sub)}', txt(sub.slice) == 'tree',
                   at=rec.where(sub))
    paths = [v for v in assigns.get('tree_path', []) if isinstance(
        v, ast.Call) and call_name(v) == 'tree_to_path']
    for call in paths:
        kws = {k.arg: txt(k.value) for k in call.keywords}
        ctx.decide('PAGE-FLOW', rec, f'page path = {txt(call)}',
                   kws.get('tree') == 'tree', at=rec.where(call),
                   detail='path given by the whole chain of titles')
    sub_src = [txt(v) for v in assigns.get('subtrees', [])]
    loops = [n for n in walk_local(rec.node) if isinstance(n, ast.For)]
    rec_loop = [l for l in loops if any(
        isinstance(c, ast.Call) and call_name(c) == '_write_rec'
        for c in ast.walk(l))]
    toc_calls = [c for c in ast.walk(rec.node) if isinstance(c, ast.Call)
                 and call_name(c) == 'toc']
    if rec_loop and toc_calls and sub_src:
        same = txt(rec_loop[0].iter) == 'subtrees' and any(
            txt(a) == 'subtrees' for a in toc_calls[0].args) and \
            len(sub_src) == 1 and sub_src[0].replace(' ', '') in (
                'self.tree_dict[tree]', 'self.tree_dict.get(tree,[])',
                'self.tree_dict.get(tree,())',
                'list(self.tree_dict[tree])',
                'self.tree_dict.get(tree,list())')
        ctx.decide('PAGE-FLOW', rec, f'toc entries and written sub-pages '
                   f'both range over {sub_src}', same,
                   at=rec.where(rec_loop[0]),
                   detail='every table-of-contents entry points to a page '
                          'that is written')
    else:
        ctx.undecided('PAGE-FLOW', rec, 'toc / recursion shape not '
                      'recognised', at=rec.where())
    # the file name of a page is the title itself (sanitize_filename is the
    # identity on what it accepts): a rewritten title makes two titles share
    # one page behind the back of the duplicate / reserved-name guards
    t2p = program.func(f'{RST}:FormattedRst.tree_to_path')
    n_map = 0
    for node in walk_local(t2p.node):
        if isinstance(node, (ast.ListComp, ast.GeneratorExp)) and len(
                node.generators) == 1 and txt(node.generators[0].iter) == \
                'tree':
            n_map += 1
            var = txt(node.generators[0].target)
            elt = node.elt
            direct = isinstance(elt, ast.Call) and call_name(elt) == \
                'sanitize_filename' and len(elt.args) == 1 and txt(
                    elt.args[0]) == var
            lossy = [c for c in ast.walk(elt) if isinstance(c, ast.Call) and
                     call_name(c) in ('strip', 'lstrip', 'rstrip', 'lower',
                                      'upper', 'replace', 'sub', 'title',
                                      'casefold', 'translate', 'split',
                                      'join', 'normalize', 'quote')] + [
                         c for c in ast.walk(elt) if isinstance(
                             c, ast.Subscript)]
            ctx.decide('PAGE-FLOW', t2p, f'page name of a title = '
                       f'{txt(elt)[:60]}', True if direct else False
                       if lossy else None, at=t2p.where(node),
                       detail='the title is rewritten before it becomes a '
                              'file name: distinct titles (checked as '
                              'distinct, and against the reserved name, on '
                              'their raw text) can collide on disk'
                       if lossy else None)
    ctx.floor('PAGE-FLOW-name', n_map, 1, 'title -> file name mapping in '
              'tree_to_path')
    # TOC-REL: entries relative to the directory of the current page
    toc = program.func(f'{RST}:FormattedRst.toc')
    n_toc = 0
    for node in walk_local(toc.node):
        if isinstance(node, ast.Call) and call_name(node) == 'tree_to_path':
            kws = {k.arg: k.value for k in node.keywords}
            tree = kws.get('tree')
            n_toc += 1
            good = None
            if isinstance(tree, ast.Subscript) and isinstance(
                    tree.slice, ast.Slice):
                lower, upper = tree.slice.lower, tree.slice.upper
                good = upper is None and isinstance(
                    lower, ast.UnaryOp) and isinstance(
                        lower.op, ast.USub) and isinstance(
                            lower.operand, ast.Constant) and \
                    lower.operand.value == 2
                if not good and (upper is not None or lower is not None):
                    good = False
            elif isinstance(tree, ast.Name):
                good = False
            ctx.decide('TOC-REL', toc, f'toc entry = {txt(node)[:70]}',
                       good, at=toc.where(node),
                       detail='the page of a section lies one directory '
                              'below the page of its parent: the entry '
                              'relative to the parent page is the last two '
                              'titles')
    ctx.floor('TOC-REL', n_toc, 1, 'toc entry path')


def check_report_owns(ctx):
    '''FormattedRst.__init__ copies tree_dict / text_dict / plots: the Rst
    object that built the report empties its own dictionaries in place
    (Rst.clear) when it formats the next report.'''
    from .. import effects
    program = ctx.program
    init = program.func(f'{RST}:FormattedRst.__init__')
    analyzer = effects.Analyzer(program, max_depth=2)
    summ = analyzer.summary(init)
    clear = program.maybe_func(f'{RST}:Rst.clear')
    clears = set()
    if clear is not None:
        for node in walk_local(clear.node):
            if isinstance(node, ast.Call) and call_name(node) == 'clear':
                clears.add(txt(receiver(node)).split('.')[-1])
    n = 0
    for fld in ('tree_dict', 'text_dict', 'plots'):
        if fld not in init.params:
            continue
        n += 1
        val = summ.field_map.get(fld, frozenset())
        aliased = [v for v in val if isinstance(v[0], int) and v[0] != 0 and
                   v[1] == 0 and v[2] == 0]
        ctx.decide('REPORT-OWNS', init, f'FormattedRst.{fld} is a copy of '
                   f'the argument', not aliased, at=init.where(),
                   detail=f'the formatted report keeps the very dictionary '
                          f'of the Rst object' + (
                              ', which Rst.clear() empties in place when '
                              'the next report is formatted: writing the '
                              'first report afterwards writes the pages of '
                              'the second' if fld in clears else '')
                   if aliased else None)
    ctx.floor('REPORT-OWNS', n, 3, 'dictionary arguments of FormattedRst')


# -------------------------------------------------------------- FIG-NAME --

def _template(expr):
    '''f-string with every formatted value replaced by {} ; None if not a
    literal template.'''
    if isinstance(expr, ast.Constant) and isinstance(expr.value, str):
        return expr.value
    if isinstance(expr, ast.JoinedStr):
        out = ''
        for val in expr.values:
            if isinstance(val, ast.Constant):
                out += val.value
            else:
                out += '{}'
        return out
    return None


def check_fig_name(ctx):
    program = ctx.program
    plot = program.cls(f'{RST}:RstPlot')
    fname = plot.methods.get('filename')
    strm = plot.methods.get('__str__')
    write = program.func(f'{RST}:FormattedRst.write')
    if fname is None or strm is None:
        raise AnalysisError('RstPlot.filename / __str__ not found')
    ref = None
    for node in walk_local(fname.node):
        if isinstance(node, ast.Return):
            ref = _template(node.value)
            ref_vals = [txt(v.value) for v in getattr(node.value, 'values',
                                                      [])
                        if isinstance(v, ast.FormattedValue)]
    directive = None
    for node in walk_local(strm.node):
        if isinstance(node, ast.Return):
            directive = _template(node.value)
    wr = None
    wr_dir = None
    for node in ast.walk(write.node):
        if isinstance(node, ast.BinOp) and isinstance(node.op, ast.Div) and \
                _template(node.right) and '{}' in (_template(node.right)
                                                   or ''):
            wr = _template(node.right)
            wr_vals = [txt(v.value) for v in node.right.values
                       if isinstance(v, ast.FormattedValue)]
            if isinstance(node.left, ast.BinOp):
                wr_dir = _template(node.left.right)
    ctx.floor('FIG-NAME', int(ref is not None) + int(wr is not None), 2,
              'file-name templates of the image directive and the writer')
    ctx.decide('FIG-NAME', write, f'writer {wr_dir}/{wr} vs directive '
               f'{directive} + {ref}', ref == wr and wr_dir is not None and
               directive is not None and f'/{wr_dir}/' in directive,
               at=write.where(),
               detail='every referenced figure exists: same directory and '
                      'same file-name template')
    # same fingerprint: plots keyed by fmt.fingerprint, the name formats
    # self.fingerprint, the writer formats the key of the plots mapping
    fres = program.func(f'{RST}:Rst.format_result')
    keyed = None
    for node in walk_local(fres.node):
        if isinstance(node, ast.Assign) and isinstance(
                node.targets[0], ast.Subscript) and 'plots' in txt(
                    node.targets[0].value):
            keyed = (txt(node.targets[0].slice), txt(node.value))
    items_ok = any(isinstance(n, (ast.comprehension, ast.For)) and
                   'self.plots.items()' in txt(n.iter) and isinstance(
                       n.target, ast.Tuple) and
                   txt(n.target.elts[0]) in wr_vals
                   for n in ast.walk(write.node)) if wr else False
    ctx.decide('FIG-NAME', fres, f'plots[{keyed[0] if keyed else "?"}] = '
               f'{keyed[1] if keyed else "?"}; name from {ref_vals}; writer '
               f'formats the key',
               keyed is not None and keyed[0].endswith('.fingerprint') and
               ref_vals == ['self.fingerprint'] and items_ok,
               at=fres.where())


# -------------------------------------------------------------- FIG-ALL ---

def _at_least_one(expr):
    """True: the integer expression is >= 1 whatever its operands (non-
    negative sizes); False: it can be 0; None: unknown."""
    if isinstance(expr, ast.Constant) and isinstance(expr.value, int):
        return expr.value >= 1
    if isinstance(expr, ast.Call) and call_name(expr) == 'max' and any(
            isinstance(a, ast.Constant) and isinstance(a.value, int) and
            a.value >= 1 for a in expr.args):
        return True
    if isinstance(expr, ast.BoolOp) and isinstance(expr.op, ast.Or) and \
            isinstance(expr.values[-1], ast.Constant) and isinstance(
                expr.values[-1].value, int) and expr.values[-1].value >= 1:
        return True
    if isinstance(expr, ast.BinOp) and isinstance(expr.op, ast.Add) and any(
            isinstance(s, ast.Constant) and isinstance(s.value, int) and
            s.value >= 1 for s in (expr.left, expr.right)):
        return True
    if isinstance(expr, ast.BinOp) and isinstance(expr.op, (ast.FloorDiv,
                                                            ast.Sub,
                                                            ast.Mod)):
        return False
    if isinstance(expr, ast.Call) and call_name(expr) in ('int', 'round',
                                                          'floor'):
        return False if expr.args and isinstance(
            expr.args[0], ast.BinOp) and isinstance(
                expr.args[0].op, ast.Div) else None
    return None


def check_fig_all(ctx):
    """"every referenced figure exists": FormattedRst.write hands EVERY
    collected plot to the figure writer, in the sequential branch (a loop
    over the items) and in the parallel one (Pool.map over the same items).
    A chunksize that can be 0 (len(items) // n_workers with fewer figures
    than workers) makes Pool.map return at once without calling the writer:
    the pages reference figures that were never written, silently."""
    program = ctx.program
    write = program.func(f'{RST}:FormattedRst.write')
    program.consulted.add(write.module.relpath)
    defs = {}
    for node in walk_local(write.node):
        if isinstance(node, ast.Assign) and len(node.targets) == 1 and \
                isinstance(node.targets[0], ast.Name):
            defs.setdefault(node.targets[0].id, []).append(node.value)
    items = [name for name, vals in defs.items()
             if any('self.plots' in txt(v) for v in vals)]
    # or filled by a loop over the plots: `for fp, plot in
    # self.plots.items(): items.append(...)`
    for loop in [n for n in walk_local(write.node)
                 if isinstance(n, ast.For) and 'self.plots' in txt(n.iter)]:
        skipping = any(isinstance(n, (ast.Continue, ast.Break))
                       for n in ast.walk(loop))
        for call in ast.walk(loop):
            if isinstance(call, ast.Call) and call_name(call) == 'append' \
                    and isinstance(receiver(call), ast.Name) and \
                    not skipping and receiver(call).id not in items:
                items.append(receiver(call).id)
    n = 0
    for call in [c for c in ast.walk(write.node) if isinstance(c, ast.Call)]:
        cname = call_name(call)
        if cname in ('map', 'imap', 'imap_unordered', 'map_async',
                     'starmap') and len(call.args) >= 2 and \
                'writer' in txt(call.args[0]):
            n += 1
            over = txt(call.args[1])
            ctx.decide('FIG-ALL', write,
                       f'write: {txt(call)[:60]} covers every plot',
                       over in items, at=write.where(call),
                       detail={'iterates_over': over, 'plots': items})
            chunk = next((k.value for k in call.keywords
                          if k.arg == 'chunksize'), None)
            if chunk is None and len(call.args) >= 3:
                chunk = call.args[2]
            if chunk is not None:
                expr = chunk
                if isinstance(expr, ast.Name) and len(
                        defs.get(expr.id, [])) == 1:
                    expr = defs[expr.id][0]
                ok = _at_least_one(expr)
                ctx.decide('FIG-ALL', write,
                           f'write: chunksize={txt(expr)[:40]} is at least 1',
                           ok, at=write.where(call),
                           detail=None if ok else
                           'with chunksize 0 Pool.map builds no task and '
                           'returns at once: no figure is written (fewer '
                           'figures than workers), no error is raised')
    for loop in [l for l in walk_local(write.node)
                 if isinstance(l, ast.For)]:
        if any('writer' in txt(c.func) for s_ in loop.body
               for c in ast.walk(s_) if isinstance(c, ast.Call)):
            n += 1
            ctx.decide('FIG-ALL', write,
                       f'write: sequential loop over {txt(loop.iter)[:40]} '
                       f'covers every plot', txt(loop.iter) in items,
                       at=write.where(loop))
    ctx.floor('FIG-ALL', n, 2, 'figure-writing branches of '
                               'FormattedRst.write')


# --------------------------------------------------------- HEADER-DEPTH ---

def check_header_depth(ctx):
    """RstFormatter.header knows len(HEADER_CHARS) levels and raises beyond.
    The levels are consumed by the SECTIONS: a section at tree depth k gets
    the header of depth k = len(tree), so trees of len(HEADER_CHARS) levels
    are the deepest that can be written.  A header asked at len(tree) + 1
    (e.g. one per result, "one level below its section") makes the
    formatting of a result held by a deepest-level section raise ValueError:
    that report is no longer written at all."""
    program = ctx.program
    rst = program.cls(f'{RST}:Rst')
    program.consulted.add(rst.module.relpath)
    n = 0
    for meth in rst.methods.values():
        for call in calls_in(meth.node):
            if call_name(call) != 'header' or len(call.args) < 2:
                continue
            depth = call.args[1]
            exprs = [(meth, depth)]
            if isinstance(depth, ast.Name) and depth.id in meth.params:
                exprs = []
                for other in rst.methods.values():
                    for sub in calls_in(other.node):
                        if call_name(sub) != meth.name:
                            continue
                        for kwd in sub.keywords:
                            if kwd.arg == depth.id:
                                exprs.append((other, kwd.value))
                        pos = meth.params.index(depth.id) - 1
                        if 0 <= pos < len(sub.args):
                            exprs.append((other, sub.args[pos]))
                if not exprs:
                    exprs = [(meth, depth)]
            for where, expr in exprs:
                n += 1
                verdict = None
                if txt(expr) == 'len(tree)' or isinstance(
                        expr, ast.Constant) and expr.value == 0:
                    verdict = True
                elif isinstance(expr, ast.BinOp) and 'len(tree)' in txt(
                        expr.left) and isinstance(expr.right, ast.Constant):
                    verdict = isinstance(expr.op, ast.Sub) or (
                        isinstance(expr.op, ast.Add) and
                        expr.right.value <= 0)
                ctx.decide('HEADER-DEPTH', where,
                           f'{meth.name}: header depth = {txt(expr)[:40]}',
                           verdict, at=where.where(expr),
                           detail=None if verdict is not False else
                           'deeper than the section that holds it: the '
                           'deepest supported level has no header left, '
                           'format_report raises and nothing is written')
    ctx.floor('HEADER-DEPTH', n, 1, 'header() calls of Rst')


# -------------------------------------------------------- CLEAR-COMPLETE ---

STATE_MUTATORS = {'append', 'extend', 'add', 'update', 'setdefault',
                  'insert', 'pop', 'remove', 'discard', 'appendleft'}


def check_clear_complete(ctx):
    """format_report() starts with clear() so that an Rst object can format
    several reports: everything the formatting methods ACCUMULATE on the
    object (pages, trees, plots - and any later bookkeeping such as "pages
    that already declare the highlight role") must be reset there.  State
    that survives clear() makes the second report depend on the first one:
    its pages lose what the first report was deemed to have written."""
    program = ctx.program
    klass = program.cls(f'{RST}:Rst')
    program.consulted.add(klass.module.relpath)
    clear = klass.methods.get('clear')
    if clear is None:
        raise AnalysisError('Rst.clear not found')
    reset = set()
    for node in walk_local(clear.node):
        if isinstance(node, ast.Assign):
            for tgt in node.targets:
                if isinstance(tgt, ast.Attribute) and dotted(
                        tgt.value) == 'self':
                    reset.add(tgt.attr)
        if isinstance(node, ast.Call) and call_name(node) == 'clear' and \
                isinstance(receiver(node), ast.Attribute) and dotted(
                    receiver(node).value) == 'self':
            reset.add(receiver(node).attr)
    mutated = {}
    for meth in klass.methods.values():
        if meth.name in ('__init__', 'clear'):
            continue
        for node in walk_local(meth.node):
            attr = None
            if isinstance(node, ast.Call) and call_name(node) in \
                    STATE_MUTATORS:
                recv = receiver(node)
                while isinstance(recv, ast.Subscript):
                    recv = recv.value
                if isinstance(recv, ast.Attribute) and dotted(
                        recv.value) == 'self':
                    attr = recv.attr
            elif isinstance(node, (ast.Assign, ast.AugAssign)):
                tgts = node.targets if isinstance(node, ast.Assign) else \
                    [node.target]
                for tgt in tgts:
                    base = tgt
                    while isinstance(base, ast.Subscript):
                        base = base.value
                    if base is not tgt and isinstance(
                            base, ast.Attribute) and dotted(
                                base.value) == 'self':
                        attr = base.attr
            if attr is not None:
                mutated.setdefault(attr, (meth, node))
    ctx.floor('CLEAR-COMPLETE', len(mutated), 2, 'attributes accumulated by '
              'the formatting methods of Rst')
    for attr, (meth, node) in sorted(mutated.items()):
        ctx.decide('CLEAR-COMPLETE', meth,
                   f'self.{attr} (filled in {meth.name}) is reset by '
                   f'clear()', attr in reset, at=meth.where(node),
                   detail=None if attr in reset else
                   'survives clear(): the second report formatted by the '
                   'same object starts from the state the first one left')


# ----------------------------------------------------------- PAGE-SUFFIX ---

def check_page_suffix(ctx):
    """The file of a page is the path of its titles PLUS '.rst' (appended to
    the name).  `Path.with_suffix('.rst')` REPLACES what follows the last dot
    of the title: 'Fe56, 0.1 MeV' and 'Fe56, 0.5 MeV' both become
    'Fe56, 0.rst' - one page overwrites the other, the table of contents
    points at pages that were never written - and the duplicate-title guard,
    which compares the titles, sees nothing."""
    program = ctx.program
    mod = program.module(RST)
    program.consulted.add(mod.relpath)
    n = 0
    bad = 0
    for func in mod.functions.values():
        if func.cls is None or func.cls.name not in ('FormattedRst', 'Rst'):
            continue
        n += 1
        for call in calls_in(func.node):
            if call_name(call) in ('with_suffix', 'splitext') or (
                    isinstance(call.func, ast.Attribute) and
                    call.func.attr == 'with_suffix'):
                bad += 1
                ctx.violated('PAGE-SUFFIX', func,
                             f'{func.name}: {txt(call)[:60]}',
                             at=func.where(call),
                             detail='a title may contain dots: the part '
                                    'after the last one is taken for a file '
                                    'extension and replaced')
        for node in walk_local(func.node):
            if isinstance(node, ast.Attribute) and node.attr in ('stem',) \
                    and 'tree' in txt(node):
                bad += 1
                ctx.violated('PAGE-SUFFIX', func,
                             f'{func.name}: {txt(node)[:60]}',
                             at=func.where(node),
                             detail='.stem drops what follows the last dot '
                                    'of a title')
    ctx.floor('PAGE-SUFFIX', n, 5, 'methods of Rst / FormattedRst')
    if not bad:
        ctx.holds('PAGE-SUFFIX', RST, f'{n} methods: the page extension is '
                  f'appended, never substituted', nontrivial=False)


# ------------------------------------------------------------ NO-REMOVE ---

REMOVERS = {'rmtree', 'remove', 'unlink', 'rmdir', 'removedirs', 'rename',
            'renames', 'replace', 'move', 'truncate'}


def check_no_remove(ctx):
    """The writer only ADDS to the report directory: pages, the service
    directories (figures, .static, .templates) and the plots share one name
    space (<report>/<title> is the directory of a first-level section and
    <report>/figures the directory of the plots).  A clean-up in the writer
    (rmtree of a "stale" section directory, unlink of an old page) therefore
    removes, for some title, what the same write() created a moment before:
    referenced figures that do not exist, pages that disappear."""
    program = ctx.program
    mod = program.module(RST)
    program.consulted.add(mod.relpath)
    n_fun = 0
    bad = 0
    for func in mod.functions.values():
        n_fun += 1
        for call in calls_in(func.node):
            cname = call_name(call)
            if cname not in REMOVERS:
                continue
            recv = receiver(call)
            rtxt = dotted(recv) if recv is not None else ''
            if cname == 'replace' and rtxt not in ('os',) and not (
                    'path' in (rtxt or '').lower()):
                continue        # str.replace
            if cname in ('remove',) and rtxt not in ('os',):
                continue        # list.remove
            if cname == 'move' and rtxt != 'shutil':
                continue
            bad += 1
            ctx.violated('NO-REMOVE', func,
                         f'{func.name}: {txt(call)[:60]} removes / moves '
                         f'entries of the report directory',
                         at=func.where(call),
                         detail='section directories, service directories '
                                'and plots share the name space of the '
                                'report root: for some title the clean-up '
                                'removes what this write() created')
    ctx.floor('NO-REMOVE', n_fun, 5, 'functions of rst.py')
    if not bad:
        ctx.holds('NO-REMOVE', RST, f'{n_fun} functions of rst.py: nothing '
                  f'is removed or moved in the report directory',
                  nontrivial=False)
