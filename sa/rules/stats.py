'''Rules on the statistical tests: Student (C05), Bonferroni / Holm (C06),
chi-square (C07).'''
import ast

from ..astutil import (dotted, call_name, receiver, txt, calls_in,
                       walk_local, names_loaded, enclosing_chain)
from ..loader import AnalysisError
from . import verdict as V

STU = 'valjean.gavroche.stat_tests.student'
BON = 'valjean.gavroche.stat_tests.bonferroni'
CHI = 'valjean.gavroche.stat_tests.chi2'


def _self_calls(func):
    '''Names of methods called as self.m(...) in func.'''
    return [call_name(c) for c in calls_in(func.node)
            if isinstance(c.func, ast.Attribute) and
            dotted(c.func.value) == 'self']


def _returns(func):
    return [n for n in walk_local(func.node) if isinstance(n, ast.Return)
            and n.value is not None]


def _accept_functions(program, klass):
    '''Methods of the result class called from __bool__ (directly or through
    one self-call) whose return is a comparison: the per-bin accept.'''
    boolm = klass.methods.get('__bool__')
    if boolm is None:
        raise AnalysisError(f'{klass.key} has no __bool__')
    out = []
    seen = set()
    todo = [boolm]
    while todo:
        cur = todo.pop()
        if cur.key in seen:
            continue
        seen.add(cur.key)
        for ret in _returns(cur):
            if _find_comparison(ret.value) is not None:
                out.append((cur, ret))
        for name in _self_calls(cur):
            meth = program.find_method(klass, name)
            if meth is not None:
                todo.append(meth)
    return boolm, out


def _find_comparison(expr):
    '''The comparison form inside a return value (possibly inside a list
    comprehension element).'''
    if isinstance(expr, (ast.ListComp, ast.GeneratorExp)):
        return _find_comparison(expr.elt)
    if isinstance(expr, ast.Compare):
        return expr
    if isinstance(expr, ast.UnaryOp) and isinstance(expr.op, (ast.Not,
                                                              ast.Invert)):
        return expr if _find_comparison(expr.operand) is not None else None
    if isinstance(expr, ast.Call):
        cname = call_name(expr)
        if cname in V._NPCMP:
            return expr
        if cname in ('logical_not', 'invert', 'bool') and expr.args:
            return expr if _find_comparison(expr.args[0]) is not None \
                else None
    return None


def _table_check(ctx, rule, func, expr, subject_pred, bound_pred, oracle,
                 what):
    erased = []

    def role(operand):
        inner, was = V.strip_sign_erasure(operand)
        if subject_pred(inner):
            erased.append(was)
            return 'subject'
        if bound_pred(operand):
            return 'bound'
        return None
    table = V.order_table(expr, role)
    construct = f'{what}: {txt(expr)[:80]}'
    if table is None:
        ctx.undecided(rule, func, construct, at=func.where(expr),
                      detail='comparison form outside the understood ones')
        return None, erased
    ctx.decide(rule, func, construct, table == oracle, at=func.where(expr),
               detail={'table': V.fmt_table(table),
                       'required': V.fmt_table(oracle)})
    return table, erased


def _const_return_guard(func, ret, data_attrs, names=frozenset()):
    '''Classify a constant return: "vacuous" (guarded by emptiness of the
    data), "unrelated" (guarded by something that is not the data) or
    "unguarded".'''
    from ..astutil import enclosing_chain
    parents = enclosing_chain(func.node)
    cur = ret
    while True:
        par = parents.get(id(cur))
        if par is None:
            return 'unguarded', None
        if isinstance(par, ast.If) and (cur in par.body or cur in par.orelse):
            test = par.test
            if V.mentions(test, set(), data_attrs) or any(
                    call_name(c) == 'len' for c in ast.walk(test)
                    if isinstance(c, ast.Call)):
                return 'vacuous', test
            if V.mentions(test, names, ()):
                return 'data', test
            return 'unrelated', test
        cur = par


def check_verd_dep(ctx, klass, method_names, data_attrs, rule='VERD-DEP'):
    '''Every return of the verdict-family methods depends on the recorded
    statistic; a constant return guarded by something unrelated to the data
    is a violation.'''
    n = 0
    for name in method_names:
        meth = klass.methods.get(name)
        if meth is None:
            continue
        n += 1
        derived = V.derived_names(meth.node, set())
        # names derived from data attributes
        changed = True
        names = set()
        while changed:
            changed = False
            for node in ast.walk(meth.node):
                src, tgts = None, []
                if isinstance(node, ast.Assign):
                    src, tgts = node.value, node.targets
                elif isinstance(node, (ast.For, ast.comprehension)):
                    src, tgts = node.iter, [node.target]
                if src is None:
                    continue
                if V.mentions(src, names, data_attrs):
                    for tgt in tgts:
                        for nam in ast.walk(tgt):
                            if isinstance(nam, ast.Name) and \
                                    nam.id not in names:
                                names.add(nam.id)
                                changed = True
        params = {p for p in meth.params if p != 'self'}
        for ret in _returns(meth):
            val = ret.value
            construct = f'{name}: return {txt(val)[:70]}'
            if isinstance(val, ast.Constant):
                kind, test = _const_return_guard(meth, ret, data_attrs,
                                                 names)
                if kind == 'unguarded' and id(ret) in V.early_exit_form(
                        meth.node, lambda e: False) and all(
                            _const_return_guard(meth, oth, data_attrs,
                                                names)[0] == 'data'
                            for oth in _returns(meth) if oth is not ret):
                    kind = 'fallthrough'
                if kind == 'vacuous':
                    ctx.holds(rule, meth, construct, at=meth.where(ret),
                              detail='constant for empty data')
                elif kind == 'data':
                    ctx.holds(rule, meth, construct, at=meth.where(ret),
                              detail=f'early exit guarded by the recorded '
                                     f'statistic: `{txt(test)[:60]}`')
                elif kind == 'fallthrough':
                    ctx.holds(rule, meth, construct, at=meth.where(ret),
                              detail='fall-through of early exits that are '
                                     'all guarded by the recorded statistic')
                elif kind == 'unrelated':
                    ctx.violated(
                        rule, meth, construct, at=meth.where(ret),
                        detail=f'constant verdict {txt(val)} when '
                               f'`{txt(test)}`: this view of the result '
                               f'ignores the recorded statistic and can '
                               f'disagree with the other views')
                else:
                    ctx.violated(rule, meth, construct, at=meth.where(ret),
                                 detail='constant verdict')
                continue
            dep = V.mentions(val, names | params, data_attrs) or any(
                isinstance(c.func, ast.Attribute) and
                dotted(c.func.value) == 'self'
                for c in ast.walk(val) if isinstance(c, ast.Call))
            ctx.decide(rule, meth, construct, True if dep else None,
                       at=meth.where(ret))
    return n


# ---------------------------------------------------------------- C05 ---

def check_student(ctx):
    program = ctx.program
    res = program.cls(f'{STU}:TestResultStudent')
    tst = program.cls(f'{STU}:TestStudent')
    boolm, accepts = _accept_functions(program, res)
    ctx.floor('VERD-TABLE', len(accepts), 1,
              'comparison returned by the accept function of '
              'TestResultStudent')
    accept_names = set()
    for func, ret in accepts:
        accept_names.add(func.name)
        params = {p for p in func.params if p != 'self'}
        cmp_expr = _find_comparison(ret.value)
        oracle = {'lt': True, 'eq': False, 'gt': False, 'unordered': False}
        table, erased = _table_check(
            ctx, 'VERD-TABLE', func, cmp_expr,
            lambda e: V.mentions(e, params, ('self.tstud',)),
            lambda e: any(isinstance(n, ast.Attribute) and
                          (dotted(n) or '').startswith('self.test')
                          for n in ast.walk(e)),
            oracle, 'per-bin accept, |t| vs threshold')
        if table is not None:
            ctx.decide('SIGN-ERASE', func,
                       f'statistic of {txt(cmp_expr)[:60]} is sign-erased',
                       bool(erased) and all(erased), at=func.where(cmp_expr),
                       detail='the verdict must be symmetric in the two '
                              'datasets: t and -t decide alike')
    _check_raw_comparisons(
        ctx, res, accept_names | {'test_pvalue'}, 'self.tstud',
        lambda e: any(isinstance(n, ast.Attribute) and
                      (dotted(n) or '').startswith('self.test')
                      for n in ast.walk(e)),
        {'lt': True, 'eq': False, 'gt': False, 'unordered': False},
        '|t| vs threshold')

    # VERD-AGG
    def is_atom(expr):
        return isinstance(expr, ast.Call) and isinstance(
            expr.func, ast.Attribute) and dotted(expr.func.value) == 'self' \
            and expr.func.attr in accept_names

    forms = V.accumulator_form(boolm.node, is_atom)
    ctx.floor('VERD-AGG', len(forms), 1, 'returns of __bool__')
    for ret, form in forms:
        ok = None if form is None else (form[0] in ('forall',) and
                                        form[1] == 1)
        if form is not None and form[0] == 'scalar':
            ok = None
        ctx.decide('VERD-AGG', boolm, f'__bool__: return {txt(ret.value)}',
                   ok, at=boolm.where(ret),
                   detail={'form': form, 'required': ['forall', 1],
                           'why': 'builtin min()/max() skip or keep a NaN '
                                  'depending on its position: an undefined '
                                  'bin / dataset may pass'
                           if form and str(form[0]).startswith('nan-unsafe')
                           else None})
    oracles = res.methods.get('oracles')
    if oracles is not None:
        for ret in _returns(oracles):
            form = V.aggregation(
                ret.value.args[0].elts[0]
                if isinstance(ret.value, ast.Call) and
                call_name(ret.value) == 'array' and ret.value.args and
                isinstance(ret.value.args[0], ast.List) and
                len(ret.value.args[0].elts) == 1 else ret.value, is_atom)
            ok = None if form is None else form == ('scalar', 1)
            ctx.decide('VERD-AGG', oracles,
                       f'oracles: return {txt(ret.value)[:60]}', ok,
                       at=oracles.where(ret), detail={'form': form})
    # VERD-DEP
    n = check_verd_dep(ctx, res, ['test_alpha', 'oracles', '__bool__',
                                  'test_pvalue'],
                       ('self.tstud', 'self.pvalue'))
    ctx.floor('VERD-DEP', n, 3, 'verdict-family methods')
    # p-value decision table
    pvm = res.methods.get('test_pvalue')
    if pvm is not None:
        names = V.derived_names(pvm.node, set())
        for ret in _returns(pvm):
            cmp_expr = _find_comparison(ret.value)
            if cmp_expr is None:
                continue
            loopvars = set()
            if isinstance(ret.value, (ast.ListComp, ast.GeneratorExp)):
                for gen in ret.value.generators:
                    if V.mentions(gen.iter, set(), ('self.pvalue',)):
                        loopvars |= {n.id for n in ast.walk(gen.target)
                                     if isinstance(n, ast.Name)}
            _table_check(
                ctx, 'VERD-TABLE', pvm, cmp_expr,
                lambda e: V.mentions(e, loopvars, ('self.pvalue',)),
                lambda e: 'alpha' in txt(e),
                {'lt': False, 'eq': False, 'gt': True, 'unordered': False},
                'p-value decision, p vs alpha')
    # SIDED
    n_sided = 0
    sided_funcs = list(tst.methods.values())
    # module-level helpers of student.py that the test calls with its alpha
    mod = program.module(STU)
    for meth in list(tst.methods.values()):
        for call in calls_in(meth.node):
            if isinstance(call.func, ast.Name):
                helper = mod.functions.get(call.func.id)
                if helper is not None and helper.cls is None and \
                        helper not in sided_funcs:
                    sided_funcs.append(helper)
                    _check_alpha_forwarded(ctx, meth, call, helper)
    for meth in sided_funcs:
        params = set(meth.params)
        for call in calls_in(meth.node):
            cname = call_name(call)
            if cname in ('ppf', 'isf') and call.args:
                n_sided += 1
                arg = call.args[0]
                ok = True if V.halved(arg, {'alpha', 'self.alpha'}) else \
                    False if V.plain_alpha(arg, {'alpha', 'self.alpha'}) \
                    else None
                ctx.decide('SIDED', meth, f'{txt(call)[:60]} two-sided '
                           f'quantile', ok, at=meth.where(call),
                           detail='the critical value is taken at alpha/2')
            if cname == 'interval' and call.args:
                n_sided += 1
                ctx.holds('SIDED', meth, f'{txt(call)[:60]}',
                          at=meth.where(call))
        for ret in _returns(meth):
            sfs = [c for c in ast.walk(ret.value) if isinstance(c, ast.Call)
                   and call_name(c) in ('sf', 'cdf')]
            if not sfs:
                continue
            n_sided += 1
            inner = V.doubled(ret.value)
            call = sfs[0]
            if call_name(call) == 'sf':
                arg_erased = V.strip_sign_erasure(call.args[0])[1] \
                    if call.args else False
                if inner is call and arg_erased:
                    ok = True
                elif inner is None and ret.value is call:
                    ok = False
                elif inner is call and not arg_erased:
                    ok = False
                else:
                    ok = None
            else:
                ok = None
                if inner is not None and isinstance(inner, ast.BinOp) and \
                        isinstance(inner.op, ast.Sub) and isinstance(
                            inner.left, ast.Constant) and \
                        inner.left.value in (1, 1.0) and \
                        inner.right is call and call.args and \
                        V.strip_sign_erasure(call.args[0])[1]:
                    # 2 * (1 - cdf(|t|)) is the two-sided tail in exact
                    # arithmetic only: beyond |t| ~ 8.3 it reads 0.0
                    ok = False
                elif ret.value is call:
                    ok = False
            ctx.decide('SIDED', meth, f'p-value {txt(ret.value)[:60]} is '
                       f'two-sided', ok, at=meth.where(ret),
                       detail='2 * upper tail of |t|')
    ctx.floor('SIDED', n_sided, 4, 'ppf / sf calls of TestStudent')
    _check_law_guard(ctx, tst, extra=[f for f in sided_funcs
                                      if f.cls is None])
    _check_stat_dtype(ctx, tst)
    check_nan_mask(ctx, (STU,))
    # NAN-BOTH
    _check_nan_both(ctx, tst)


LOSSY_NUMERIC = {'round', 'around', 'round_', 'trunc', 'floor', 'ceil',
                 'rint', 'float16', 'float32', 'half', 'single', 'int',
                 'format', 'clip', 'nextafter'}


def _check_alpha_forwarded(ctx, meth, call, helper):
    '''The significance level reaches the quantile function as it was
    requested: a helper called with a ROUNDED / narrowed alpha (e.g. to make
    a cache key) computes the critical value of another level (5.7e-7 -> 1e-6;
    3e-7 -> 0, i.e. an infinite threshold).'''
    for par, arg in list(zip(helper.params, call.args)) + [
            (k.arg, k.value) for k in call.keywords]:
        if par is None or 'alpha' not in par:
            continue
        lossy = [c for c in ast.walk(arg) if isinstance(c, ast.Call) and
                 call_name(c) in LOSSY_NUMERIC]
        plain = txt(arg) in ('alpha', 'self.alpha', 'float(alpha)',
                             'float(self.alpha)')
        ctx.decide('SIDED', meth,
                   f'{meth.name}: level handed to {helper.name}: '
                   f'{txt(arg)[:40]}',
                   False if lossy else True if plain else None,
                   at=meth.where(call),
                   detail=None if not lossy else
                   f'`{txt(lossy[0])[:40]}` changes the level: the critical '
                   f'value is the one of another alpha, and the p-value '
                   f'decision (made with the real alpha) disagrees')


UPPER_TAIL = {'sf', 'gammaincc', 'chdtrc', 'logsf'}
LOWER_TAIL = {'cdf', 'gammainc', 'chdtr', 'logcdf'}
NAN_MASKING_CALLS = {'fmin', 'fmax', 'nan_to_num', 'nanmin', 'nanmax',
                     'nansum', 'nanmean', 'nanprod', 'nanmedian',
                     'nanargmin', 'nanargmax', 'nancumsum'}


def check_nan_mask(ctx, modules):
    '''An undefined statistic or p-value (NaN) must stay undefined until the
    comparison that fails it: numpy functions that IGNORE NaN (fmin / fmax
    return the other operand, nan_to_num replaces it, the nan* reductions
    skip it) turn "undefined" into an ordinary number - a p-value "capped to
    1" with np.fmin reads 1.0 for a NaN statistic and the bin passes the
    test and both corrections.'''
    program = ctx.program
    n = 0
    bad = 0
    for modname in modules:
        mod = program.module(modname)
        for func in mod.functions.values():
            if func.parent is not None:
                continue
            n += 1
            for call in calls_in(func.node):
                if call_name(call) in NAN_MASKING_CALLS and isinstance(
                        call.func, ast.Attribute):
                    bad += 1
                    ctx.violated('NAN-MASK', func,
                                 f'{func.name}: {txt(call)[:60]}',
                                 at=func.where(call),
                                 detail='ignores NaN: an undefined value '
                                        'becomes an ordinary one before the '
                                        'comparison that should fail it')
    if not bad:
        ctx.holds('NAN-MASK', ', '.join(modules),
                  f'{n} functions: no NaN-ignoring numpy function',
                  nontrivial=False)


def _check_stat_dtype(ctx, tst):
    '''The statistic is a real number: an array that receives it must not
    inherit the dtype of the INPUT data (zeros_like / empty_like / full_like
    of a dataset value without an explicit float dtype): with integer counts
    as reference the stored statistic is truncated toward zero and a failing
    bin passes.'''
    for meth in tst.methods.values():
        like = {}
        for node in walk_local(meth.node):
            if isinstance(node, ast.Assign) and len(node.targets) == 1 and \
                    isinstance(node.targets[0], ast.Name) and isinstance(
                        node.value, ast.Call) and call_name(node.value) in (
                            'zeros_like', 'empty_like', 'ones_like',
                            'full_like') and node.value.args and \
                    txt(node.value.args[0]).endswith(('.value', '.error')) \
                    and not any(k.arg == 'dtype'
                                for k in node.value.keywords):
                like[node.targets[0].id] = node
        for node in walk_local(meth.node):
            if isinstance(node, ast.Assign) and isinstance(
                    node.targets[0], ast.Subscript) and isinstance(
                        node.targets[0].value, ast.Name) and \
                    node.targets[0].value.id in like and not isinstance(
                        node.value, ast.Constant):
                alloc = like[node.targets[0].value.id]
                ctx.violated(
                    'STAT-DTYPE', meth,
                    f'{meth.name}: {txt(node)[:60]} stored into '
                    f'{txt(alloc.value)[:40]}', at=meth.where(node),
                    detail='the array takes the dtype of the input data: '
                           'integer counts as reference truncate the '
                           'statistic toward zero (|t| = 2.66 becomes 2 and '
                           'passes at 1 %); the verdict also stops being '
                           'symmetric in the two datasets')
    ctx.holds('STAT-DTYPE', tst.key, 'no statistic stored into an array '
              'allocated with the dtype of the input data', nontrivial=False)


def _check_law_guard(ctx, tst, rule='LAW-GUARD', extra=None):
    '''The law behind the threshold and the p-value is Student's with the
    requested ndf whenever ndf is given: (a) every use of the normal law
    `norm` in a method that knows ndf is reached only when `ndf is None`
    holds on the path (enclosing ifs and earlier early returns); a wider
    selection (e.g. `ndf is None or ndf > N`) is a different law for some
    requested ndf; (b) Student-law calls receive ndf itself as the
    degrees of freedom.'''
    n = 0
    for meth in list(tst.methods.values()) + list(extra or ()):
        knows = {x for x in ('ndf', 'self.ndf')
                 if (x == 'ndf' and 'ndf' in meth.params) or (
                     x == 'self.ndf' and V.mentions(meth.node, set(),
                                                    ('self.ndf',)))}
        if not knows:
            continue
        for node in walk_local(meth.node):
            if isinstance(node, ast.Name) and node.id == 'norm' and \
                    isinstance(node.ctx, ast.Load):
                n += 1
                conds = V.path_condition(meth.node, node)
                construct = f'{meth.name}: normal law used'
                if any(V.implies_is_none(t, p, knows) for t, p in conds):
                    ctx.holds(rule, meth, construct, at=meth.where(node),
                              detail='only when ndf is None')
                    continue
                about = [(t, p) for t, p in conds
                         if V.mentions(t, {'ndf'}, ('self.ndf',))]
                wider = [t for t, _ in about if any(
                    isinstance(c, ast.Compare) and any(
                        isinstance(o, (ast.Lt, ast.LtE, ast.Gt, ast.GtE,
                                       ast.Eq, ast.NotEq)) for o in c.ops)
                    for c in ast.walk(t))]
                if wider or not about:
                    ctx.violated(
                        rule, meth, construct, at=meth.where(node),
                        detail='the normal law is selected '
                               + (f'when `{txt(wider[0])[:70]}`' if wider
                                  else 'whatever ndf is')
                               + ': for a given ndf the threshold / p-value '
                                 'is no longer the one of the Student law '
                                 'with ndf degrees of freedom')
                else:
                    ctx.undecided(rule, meth, construct,
                                  at=meth.where(node),
                                  detail=f'guards: '
                                         f'{[txt(t)[:40] for t, _ in about]}')
            if isinstance(node, ast.Call) and isinstance(
                    node.func, ast.Attribute) and dotted(
                        node.func.value) == 't' and node.func.attr in (
                            'ppf', 'isf', 'sf', 'cdf', 'interval', 'pdf'):
                n += 1
                dfs = list(node.args[1:]) + [k.value for k in node.keywords
                                             if k.arg == 'df']
                construct = f'{meth.name}: {txt(node)[:60]} degrees of ' \
                            f'freedom'
                exact = [d for d in dfs if dotted(d) in knows]
                about = [d for d in dfs
                         if V.mentions(d, {'ndf'}, ('self.ndf',))]
                ctx.decide(rule, meth, construct,
                           True if exact else False if about else None,
                           at=meth.where(node),
                           detail='the Student law is taken with ndf itself')
    ctx.floor(rule, n, 4, 'uses of the normal / Student law in methods '
                          'that know ndf')


def _check_raw_comparisons(ctx, klass, skip, data_attr, bound_pred, accept,
                           what, rule='VERD-TABLE'):
    '''Comparisons of the recorded statistic with the bound written OUTSIDE
    the accept function, in a method that returns a verdict (a count of
    failing bins, an early `return False`, ...).  Such a comparison decides
    bins too: over the four orderings it must be the accept table or its
    exact complement (the reject table, true on eq / gt / unordered); any
    other table sends the NaN row or the equality row to the wrong side.
    Polarity is not decided here (a swapped polarity fails every test).
    Comparisons that only guard logging are not verdicts and are skipped.'''
    reject = {k: not v for k, v in accept.items()}
    for name, meth in klass.methods.items():
        if name in skip or not any(
                isinstance(n, ast.Return) for n in walk_local(meth.node)):
            continue
        derived = V.derived_names(meth.node, {data_attr})
        parents = enclosing_chain(meth.node)
        for node in walk_local(meth.node):
            if not (isinstance(node, ast.Compare) or (
                    isinstance(node, ast.Call) and
                    call_name(node) in V._NPCMP)):
                continue
            if _only_logging(parents, node):
                continue
            erased = []

            def role(operand):
                inner, was = V.strip_sign_erasure(operand)
                if V.mentions(inner, derived - {data_attr}, (data_attr,)):
                    erased.append(was)
                    return 'subject'
                if bound_pred(operand):
                    return 'bound'
                return None
            table = V.order_table(node, role)
            if table is None:
                continue
            construct = f'{name}: raw comparison {txt(node)[:70]} ({what})'
            ctx.decide(rule, meth, construct,
                       table in (accept, reject), at=meth.where(node),
                       detail={'table': V.fmt_table(table),
                               'accept': V.fmt_table(accept),
                               'reject': V.fmt_table(reject)})


_LOG_METHODS = {'debug', 'info', 'warning', 'error', 'critical', 'log',
                'exception'}


def _only_logging(parents, node):
    '''The comparison is the test of (or inside the test of) an `if` whose
    branches hold nothing but logging calls.'''
    cur = node
    while True:
        par = parents.get(id(cur))
        if par is None or isinstance(par, ast.stmt):
            break
        cur = par
    par = parents.get(id(cur))
    if not isinstance(par, ast.If) or cur is not par.test:
        return False

    def logs_only(body):
        return all(isinstance(s, ast.Pass) or (
            isinstance(s, ast.Expr) and isinstance(s.value, ast.Call) and
            call_name(s.value) in _LOG_METHODS) for s in body)
    return logs_only(par.body) and logs_only(par.orelse)


def _parents_of(root):
    out = {}
    for par in ast.walk(root):
        for child in ast.iter_child_nodes(par):
            out[id(child)] = par
    return out


def _check_nan_both(ctx, tst):
    meth = tst.methods.get('student_test')
    if meth is None:
        raise AnalysisError('TestStudent.student_test not found')
    params = [p for p in meth.params if p != 'self']
    n = 0

    def isnan_atoms(expr):
        return [c for c in ast.walk(expr) if isinstance(c, ast.Call) and
                call_name(c) == 'isnan' and c.args]

    # masks bound to a local name first (`both = isnan(a) & isnan(b)`) are
    # read through the name
    import copy
    mask_defs = {}
    for node in walk_local(meth.node):
        if isinstance(node, ast.Assign) and len(node.targets) == 1 and \
                isinstance(node.targets[0], ast.Name):
            mask_defs.setdefault(node.targets[0].id, []).append(node.value)
    mask_defs = {k: v[0] for k, v in mask_defs.items()
                 if len(v) == 1 and isnan_atoms(v[0])}

    def inline(expr, depth=0):
        class Sub(ast.NodeTransformer):
            def visit_Name(self, node):
                if node.id in mask_defs and depth < 4:
                    return inline(copy.deepcopy(mask_defs[node.id]),
                                  depth + 1)
                return node
        return Sub().visit(copy.deepcopy(expr))

    def split_or(expr):
        if isinstance(expr, ast.BoolOp) and isinstance(expr.op, ast.Or):
            return [d for v in expr.values for d in split_or(v)]
        if isinstance(expr, ast.BinOp) and isinstance(expr.op, ast.BitOr):
            return split_or(expr.left) + split_or(expr.right)
        if isinstance(expr, ast.Call) and call_name(expr) == 'logical_or' \
                and len(expr.args) == 2:
            return split_or(expr.args[0]) + split_or(expr.args[1])
        return [expr]

    def judge(cond, where, what):
        cond = inline(cond)
        for disj in split_or(cond):
            if isnan_atoms(disj):
                judge_one(disj, where, what)

    def judge_one(cond, where, what):
        atoms = isnan_atoms(cond)
        # disjunctions below a conjunction are recognised-wrong
        has_or = any((isinstance(n, ast.BoolOp) and isinstance(n.op, ast.Or))
                     or (isinstance(n, ast.BinOp) and
                         isinstance(n.op, ast.BitOr)) or
                     (isinstance(n, ast.Call) and call_name(n) ==
                      'logical_or') for n in ast.walk(cond))
        by_field = {}
        for atom in atoms:
            arg = atom.args[0]
            if isinstance(arg, ast.Attribute) and txt(arg.value) in params:
                by_field.setdefault(arg.attr, set()).add(txt(arg.value))
        # isnan(<derived value>) alone is true as soon as ONE side is NaN
        ok = bool(by_field)
        for field, bases in by_field.items():
            both = len([b for b in bases if b in params]) >= 2
            if not both:
                ok = False
        if has_or:
            ok = False
        ctx.decide('NAN-BOTH', meth, f'{what} under `{txt(cond)[:80]}`', ok,
                   at=where,
                   detail='a passing constant may replace the statistic only '
                          'when BOTH datasets are undefined for the same '
                          'field: NaN on one side only (or NaN of a value '
                          'derived from both) must fail')

    for node in walk_local(meth.node):
        if isinstance(node, ast.Assign) and len(node.targets) == 1 and \
                isinstance(node.targets[0], ast.Subscript) and \
                isinstance(node.value, ast.Constant):
            cond = node.targets[0].slice
            if isnan_atoms(inline(cond)):
                n += 1
                judge(cond, meth.where(node),
                      f'store of constant {txt(node.value)}')
        if isinstance(node, ast.If) and any(isinstance(s, ast.Return)
                                            for s in node.body):
            # the tests of the enclosing ifs belong to the condition of the
            # return (`if isnan(a): if isnan(b): return 0`)
            outer = []
            cur = node
            chain = _parents_of(meth.node)
            while chain.get(id(cur)) is not None:
                par = chain[id(cur)]
                if isinstance(par, ast.If) and any(cur is s for s in
                                                   par.body):
                    outer.append(par.test)
                cur = par
            full = node.test if not outer else ast.BoolOp(
                op=ast.And(), values=list(reversed(outer)) + [node.test])
            if not isnan_atoms(inline(full)):
                continue
            n += 1
            judge(full, meth.where(node), 'early return of a passing '
                  'constant')
            continue
        if isinstance(node, ast.If) and isnan_atoms(inline(node.test)) and \
                any(isinstance(s, ast.Return) for s in node.body):
            n += 1
            judge(node.test, meth.where(node), 'early return of a passing '
                  'constant')
    ctx.floor('NAN-BOTH', n, 2, 'NaN-masked stores / returns in '
              'student_test')
    _check_scale_free(ctx, meth)


TOLERANCE_CALLS = {'isclose', 'allclose', 'approx', 'assert_allclose',
                   'assert_almost_equal'}


def _check_scale_free(ctx, meth):
    '''The special cases of the statistic (0/0, undefined on both sides)
    are selected by EXACT comparisons with zero: a tolerance (np.isclose,
    abs(x) < eps, rounding) introduces an absolute scale and breaks the
    invariance of the verdict under a common positive rescaling.'''
    bad = []
    for node in ast.walk(meth.node):
        if isinstance(node, ast.Call) and call_name(node) in \
                TOLERANCE_CALLS:
            bad.append((node, f'{txt(node)[:50]}'))
        if isinstance(node, ast.Compare) and len(node.ops) == 1 and \
                isinstance(node.ops[0], (ast.Lt, ast.LtE, ast.Gt, ast.GtE)):
            for side in (node.left, node.comparators[0]):
                if isinstance(side, ast.Constant) and isinstance(
                        side.value, float) and 0 < abs(side.value) < 1e-3:
                    bad.append((node, f'{txt(node)[:50]}'))
    exact = [n for n in ast.walk(meth.node) if isinstance(n, ast.Compare)
             and len(n.ops) == 1 and isinstance(n.ops[0], ast.Eq) and
             isinstance(n.comparators[0], ast.Constant) and
             n.comparators[0].value == 0]
    for node, what in bad[:3]:
        ctx.violated('SCALE-FREE', meth, f'{meth.name}: tolerance {what}',
                     at=meth.where(node),
                     detail='an absolute tolerance in the computation of '
                            'the statistic: datasets that differ by less '
                            'than it (values of small magnitude) are '
                            'treated as equal, the verdict changes under a '
                            'common rescaling')
    if not bad:
        ctx.holds('SCALE-FREE', meth, f'{meth.name}: special cases selected '
                  f'by {len(exact)} exact comparison(s) with zero, no '
                  f'tolerance', at=meth.where(), nontrivial=bool(exact))


# ---------------------------------------------------------------- C06 ---

def _correction_functions(program):
    '''(Test class, evaluate, correction function, result class) for the
    Test subclasses of bonferroni.py whose evaluate passes the result of a
    self.<fn>(pvalues, level) call to a TestResult constructor.'''
    mod = program.module(BON)
    out = []
    for klass in mod.classes.values():
        ev = klass.methods.get('evaluate')
        if ev is None:
            continue
        for call in calls_in(ev.node):
            if isinstance(call.func, ast.Attribute) and dotted(
                    call.func.value) == 'self' and len(call.args) == 2:
                meth = program.find_method(klass, call.func.attr)
                if meth is not None:
                    out.append((klass, ev, meth, call))
    return out


def _check_per_dataset(ctx, ev, call):
    '''The correction is applied to the p-values of ONE compared dataset at
    a time: "the number of bins" and the ranks of the definitions are those
    of one array.  evaluate must hand the correction function an element of
    `<result>.pvalue` (a list with one array per dataset), not the whole
    list: pooled, every level is divided by the bins of all the datasets and
    the Holm ranks run across datasets.'''
    arg = call.args[0]
    elem_vars = set()
    for node in ast.walk(ev.node):
        if isinstance(node, (ast.comprehension, ast.For)):
            it = node.iter
            if isinstance(it, ast.Call) and call_name(it) in (
                    'enumerate', 'zip', 'iter', 'list', 'tuple'):
                srcs = it.args
            else:
                srcs = [it]
            if any(isinstance(n, ast.Attribute) and n.attr == 'pvalue'
                   for src in srcs for n in ast.walk(src)):
                elem_vars |= {n.id for n in ast.walk(node.target)
                              if isinstance(n, ast.Name)}
    whole = any(isinstance(n, ast.Attribute) and n.attr == 'pvalue'
                for n in ast.walk(arg))
    per = isinstance(arg, ast.Name) and arg.id in elem_vars
    ctx.decide('PER-DATASET', ev,
               f'{ev.cls.name if ev.cls else ""}.evaluate: '
               f'{txt(call)[:60]}',
               True if per else False if whole else None,
               at=ev.where(call),
               detail='the correction receives the p-values of every '
                      'dataset pooled in one array' if whole and not per
               else None)


def _check_flags_from_correction(ctx, ev, meth):
    '''What evaluate stores as the flags of the result comes from the
    correction function on EVERY path: a short cut that fills the flags with
    a constant when the underlying test passes skips the definition (the
    underlying test may run at another level than the correction).'''
    n = 0
    for ret in _returns(ev):
        if not isinstance(ret.value, ast.Call):
            continue
        names_ = set()
        for arg in ret.value.args[2:] + [k.value for k in
                                         ret.value.keywords]:
            names_ |= {x.id for x in ast.walk(arg) if isinstance(x, ast.Name)}
        for name in sorted(names_):
            defs = [x for x in walk_local(ev.node)
                    if isinstance(x, ast.Assign) and any(
                        isinstance(t, ast.Name) and t.id == name or
                        isinstance(t, ast.Tuple) and any(
                            isinstance(e, ast.Name) and e.id == name
                            for e in t.elts) for t in x.targets)]
            for node in defs:
                n += 1
                uses = any(isinstance(c.func, ast.Attribute) and
                           c.func.attr == meth.name
                           for c in calls_in(node.value))
                via = any(isinstance(x, ast.Name) and x.id in names_
                          and x.id != name for x in ast.walk(node.value))
                # empty container filled with results of the correction
                if isinstance(node.value, (ast.List, ast.Tuple)) and \
                        not node.value.elts or (
                            isinstance(node.value, ast.Call) and
                            call_name(node.value) in ('list', 'deque') and
                            not node.value.args):
                    via = any(
                        call_name(c) in ('append', 'extend') and
                        dotted(receiver(c)) == name and any(
                            isinstance(k.func, ast.Attribute) and
                            k.func.attr == meth.name
                            for a in c.args for k in calls_in(a))
                        for c in calls_in(ev.node))
                ctx.decide('FLAGS-SRC', ev,
                           f'{ev.cls.name if ev.cls else ""}.evaluate: '
                           f'{txt(node)[:60]}',
                           True if uses or via else False,
                           at=ev.where(node),
                           detail=None if uses or via else
                           f'the flags handed to the result do not come '
                           f'from {meth.name} on this path')
    return n


def check_bonferroni(ctx):
    program = ctx.program
    sites = _correction_functions(program)
    ctx.floor('VERD-TABLE', len(sites), 2, 'correction functions called '
              'from evaluate in bonferroni.py')
    for klass, ev, meth, call in sites:
        _check_per_dataset(ctx, ev, call)
        _check_flags_from_correction(ctx, ev, meth)
        params = [p for p in meth.params if p != 'self']
        pname, lname = params[0], params[1]
        pder = V.derived_names(meth.node, {pname})
        lder = V.derived_names(meth.node, {lname})
        # index variables of enumerate are not p-values
        idx_vars = set()
        for node in walk_local(meth.node):
            if isinstance(node, ast.For) and isinstance(
                    node.iter, ast.Call) and call_name(node.iter) == \
                    'enumerate' and isinstance(node.target, ast.Tuple):
                idx_vars.add(txt(node.target.elts[0]))
        pder -= idx_vars
        sorted_loop = _sorted_enumeration(meth, pder)
        is_holm = sorted_loop is not None
        # a method that ranks the p-values is the step-down procedure,
        # whatever the shape of its loop
        ranks_p = any(isinstance(n, ast.Call) and call_name(n) in (
            'argsort', 'sort', 'sorted', 'rankdata') and any(
                V.mentions(a, pder | {pname}) for a in n.args)
            for n in walk_local(meth.node))
        is_holm = is_holm or ranks_p
        # vectorised Holm: the p-values compared are `p[argsort(p)]`
        argsorted = {n.targets[0].id for n in walk_local(meth.node)
                     if isinstance(n, ast.Assign) and isinstance(
                         n.value, ast.Call) and call_name(n.value) ==
                     'argsort' and isinstance(n.targets[0], ast.Name)}
        vector_holm = False
        cmps = []
        for node in walk_local(meth.node):
            cmp_expr = None
            if isinstance(node, (ast.Compare,)):
                cmp_expr = node
            elif isinstance(node, ast.Call) and call_name(node) in V._NPCMP:
                cmp_expr = node
            if cmp_expr is None:
                continue
            left = cmp_expr.left if isinstance(cmp_expr, ast.Compare) \
                else cmp_expr.args[0]
            right = cmp_expr.comparators[0] if isinstance(
                cmp_expr, ast.Compare) else cmp_expr.args[1]
            lp = V.mentions(left, pder - lder)
            rp = V.mentions(right, pder - lder)
            ll = V.mentions(left, lder - (pder - lder))
            rl = V.mentions(right, lder - (pder - lder))
            if (lp and rl) or (rp and ll):
                cmps.append(cmp_expr)
        # the definitions compare p-values and levels EXACTLY
        for node in ast.walk(meth.node):
            if isinstance(node, ast.Call) and call_name(node) in \
                    TOLERANCE_CALLS and (V.mentions(node, pder) or
                                         V.mentions(node, lder)):
                ctx.violated(
                    'VERD-TABLE', meth,
                    f'{meth.name}: p-values compared to the level with a '
                    f'tolerance: {txt(node)[:60]}', at=meth.where(node),
                    detail='a bin whose p-value is above the level by less '
                           'than the tolerance (absolute 1e-8 by default: '
                           'every small p-value of a large mesh) is flagged '
                           'although the definition accepts it')
        if not cmps:
            ctx.undecided('VERD-TABLE', meth, 'no p-value vs level '
                          'comparison found', at=meth.where())
            continue
        for cmp_expr in cmps:
            # include an enclosing negation
            from ..astutil import enclosing_chain
            parents = enclosing_chain(meth.node)
            top = cmp_expr
            while True:
                par = parents.get(id(top))
                if isinstance(par, ast.UnaryOp) and isinstance(
                        par.op, (ast.Not, ast.Invert)):
                    top = par
                elif isinstance(par, ast.Call) and call_name(par) in (
                        'logical_not', 'invert'):
                    top = par
                else:
                    break
            if not is_holm and any(
                    isinstance(n, ast.Subscript) and isinstance(
                        n.slice, ast.Name) and n.slice.id in argsorted
                    for n in ast.walk(cmp_expr)):
                is_holm = vector_holm = True
            # the comparison kept in a local that is only ever used negated
            # (`accepted = p >= levels` ... `logical_not(accepted)`): what
            # reaches the flags is the negation
            holder = top
            while isinstance(parents.get(id(holder)), ast.Call) and \
                    call_name(parents[id(holder)]) in (
                        'filled', 'asarray', 'array', 'ravel'):
                holder = parents[id(holder)]
            stmt = parents.get(id(holder))
            if isinstance(stmt, ast.Assign) and len(stmt.targets) == 1 and \
                    isinstance(stmt.targets[0], ast.Name):
                nam = stmt.targets[0].id
                uses = [n for n in walk_local(meth.node)
                        if isinstance(n, ast.Name) and n.id == nam and
                        isinstance(n.ctx, ast.Load)]

                def negated(use):
                    par = parents.get(id(use))
                    return (isinstance(par, ast.UnaryOp) and isinstance(
                        par.op, (ast.Not, ast.Invert))) or (
                            isinstance(par, ast.Call) and call_name(par) in (
                                'logical_not', 'invert'))
                if uses and all(negated(u) for u in uses):
                    top = ast.UnaryOp(op=ast.Not(), operand=top)
                elif uses and any(negated(u) for u in uses):
                    ctx.undecided('VERD-TABLE', meth,
                                  f'{txt(cmp_expr)[:50]} kept in `{nam}`, '
                                  f'used both negated and as it is',
                                  at=meth.where(cmp_expr))
                    continue
            if is_holm:
                oracle = {'lt': True, 'eq': False, 'gt': False,
                          'unordered': True}
                what = 'Holm reject, p vs level of its rank'
            else:
                oracle = {'lt': True, 'eq': True, 'gt': False,
                          'unordered': True}
                what = 'Bonferroni reject, p vs level/m'
            ponly = pder - lder
            lonly = lder - ponly
            _table_check(ctx, 'VERD-TABLE', meth, top,
                         lambda e, ponly=ponly: V.mentions(e, ponly),
                         lambda e, lonly=lonly: V.mentions(e, lonly),
                         oracle, what)
        if is_holm and sorted_loop is None:
            # an enumeration of the p-values whose index feeds a level is a
            # rank loop: it has to run over the SORTED p-values
            for loop in walk_local(meth.node):
                if isinstance(loop, ast.For) and isinstance(
                        loop.iter, ast.Call) and call_name(loop.iter) == \
                        'enumerate' and loop.iter.args and V.mentions(
                            loop.iter.args[0], pder | {pname}) and \
                        isinstance(loop.target, ast.Tuple) and isinstance(
                            loop.target.elts[0], ast.Name):
                    ivar = loop.target.elts[0].id
                    ldefs = {n.targets[0].id: n.value for n in ast.walk(loop)
                             if isinstance(n, ast.Assign) and isinstance(
                                 n.targets[0], ast.Name)}

                    def uses_index(expr, ivar=ivar, ldefs=ldefs, depth=0):
                        return any(isinstance(n, ast.Name) and (
                            n.id == ivar or (n.id in ldefs and depth < 3 and
                                             uses_index(ldefs[n.id], ivar,
                                                        ldefs, depth + 1)))
                                   for n in ast.walk(expr))
                    if any(isinstance(n, ast.BinOp) and isinstance(
                            n.op, ast.Div) and V.mentions(n.left, {lname})
                           and uses_index(n.right) for n in ast.walk(loop)):
                        ctx.violated(
                            'LEVEL-LIN', meth,
                            f'rank loop over {txt(loop.iter.args[0])[:50]}: '
                            f'not the sorted p-values', at=meth.where(loop),
                            detail='the level of a bin depends on the '
                                   'position of the bin in the array '
                                   'instead of the rank of its p-value')
            # ranks that are not a permutation: searchsorted (and rankdata
            # unless method='ordinal') give tied p-values the SAME rank,
            # whereas tied bins occupy consecutive ranks of the procedure
            for call in walk_local(meth.node):
                if isinstance(call, ast.Call) and (
                        call_name(call) == 'searchsorted' or (
                            call_name(call) == 'rankdata' and not any(
                                k.arg == 'method' and isinstance(
                                    k.value, ast.Constant) and
                                k.value.value == 'ordinal'
                                for k in call.keywords))) and any(
                                    V.mentions(a, pder | {pname})
                                    for a in call.args):
                    ctx.violated(
                        'LEVEL-LIN', meth,
                        f'ranks of the p-values from {txt(call)[:60]}',
                        at=meth.where(call),
                        detail='tied p-values get the same rank: the levels '
                               'are no longer alpha/m, alpha/(m-1), ... '
                               'each used once, the bins of a tie all get '
                               'the smallest level of the group and fewer '
                               'bins are flagged')
            _check_holm_level_vector(ctx, program, meth, lname)
            _check_unsort(ctx, meth, pname)
        elif is_holm:
            _check_holm_level(ctx, meth, sorted_loop, pname, lname, pder)
            _check_unsort(ctx, meth, pname)
        else:
            _check_bonf_level(ctx, program, klass, ev, call)
    # VERD-AGG on the result classes
    mod = program.module(BON)
    n_agg = 0
    seen_meths = set()
    for klass in mod.classes.values():
        # the concrete result classes: methods found through the bases too
        # (a common base class may hold __bool__ / oracles for both)
        if not any(klass.name.startswith(pfx) for pfx in (
                'TestResultBonferroni', 'TestResultHolmBonferroni')):
            continue
        boolm = program.find_method(klass, '__bool__')
        if boolm is None or 'TestResult' not in ' '.join(
                program.base_names(klass)):
            continue

        def is_atom(expr):
            return (isinstance(expr, ast.Attribute) and
                    'reject' in expr.attr) or (isinstance(expr, ast.Name)
                                               and expr.id in loopvars)
        for meth in (boolm, program.find_method(klass, 'oracles')):
            if meth is None:
                continue
            for ret in _returns(meth):
                loopvars = set()
                val = ret.value
                if isinstance(val, (ast.ListComp, ast.GeneratorExp)):
                    for gen in val.generators:
                        if 'reject' in txt(gen.iter):
                            loopvars |= {n.id for n in ast.walk(gen.target)
                                         if isinstance(n, ast.Name)}
                    val = val.elt
                form = V.aggregation(val, is_atom)
                n_agg += 1
                ok = None if form is None else form == ('forall', -1)
                ctx.decide('VERD-AGG', meth,
                           f'{meth.name}: return {txt(ret.value)[:60]}', ok,
                           at=meth.where(ret),
                           detail={'form': form, 'required':
                                   'no bin is flagged: not any(rejected)'})
    ctx.floor('VERD-AGG', n_agg, 4, '__bool__/oracles of the two result '
              'classes')


def _check_summand_source(ctx, program, chi):
    '''SUMMAND-SRC: when the per-bin term of the chi-square is taken from
    another function of the repository, that function must not replace
    undefined bins by a constant (the Student statistic does: 0/0 and NaN on
    both sides become 0): "when no bin is left out an undefined statistic
    never passes".'''
    defs = {}
    for node in walk_local(chi.node):
        if isinstance(node, ast.Assign) and len(node.targets) == 1 and \
                isinstance(node.targets[0], ast.Name):
            defs.setdefault(node.targets[0].id, []).append(node.value)
    seen = []
    for ret in _returns(chi):
        exprs = [ret.value]
        for sub in ast.walk(ret.value):
            if isinstance(sub, ast.Name) and len(defs.get(sub.id, [])) == 1:
                exprs.append(defs[sub.id][0])
        for expr in exprs:
            for call in ast.walk(expr):
                if not isinstance(call, ast.Call) or call in seen:
                    continue
                seen.append(call)
                cands, _ = program.resolve_call(chi, call)
                for cand in cands:
                    if not cand.module.name.startswith('valjean.gavroche'):
                        continue
                    fixups = [n for n in walk_local(cand.node) if (
                        isinstance(n, ast.Assign) and isinstance(
                            n.targets[0], ast.Subscript) and isinstance(
                                n.value, ast.Constant)) or (
                        isinstance(n, ast.If) and any(
                            isinstance(r, ast.Return) and r.value is not None
                            and (isinstance(r.value, ast.Constant) or (
                                isinstance(r.value, ast.Call) and call_name(
                                    r.value) in ('zeros_like', 'zeros')))
                            for r in n.body))]
                    ctx.decide(
                        'SUMMAND-SRC', chi,
                        f'term of the sum taken from {cand.name}() '
                        f'({len(fixups)} bins-replaced-by-a-constant sites)',
                        not fixups, at=chi.where(call),
                        detail=f'{cand.name} replaces undefined bins by a '
                               f'constant ({txt(fixups[0])[:60]}): they add '
                               f'0 to the sum, stay in the degrees of '
                               f'freedom, and an undefined statistic passes'
                        if fixups else None)
    if not seen:
        return


def _sorted_enumeration(meth, pder):
    '''The loop `for i, p in enumerate(<sorted p-values>)` if any: returns
    (loop node, index var, value var, sorted indices name or None).'''
    argsorts = {}
    for node in walk_local(meth.node):
        if isinstance(node, ast.Assign) and isinstance(node.value, ast.Call) \
                and call_name(node.value) == 'argsort' and isinstance(
                    node.targets[0], ast.Name):
            argsorts[node.targets[0].id] = node.value
    for node in walk_local(meth.node):
        if isinstance(node, ast.For) and isinstance(node.iter, ast.Call) and \
                call_name(node.iter) == 'enumerate' and isinstance(
                    node.target, ast.Tuple) and len(node.target.elts) == 2:
            seq = node.iter.args[0]
            start = 0
            if len(node.iter.args) > 1 and isinstance(node.iter.args[1],
                                                      ast.Constant):
                start = node.iter.args[1].value
            for kwd in node.iter.keywords:
                if kwd.arg == 'start' and isinstance(kwd.value,
                                                     ast.Constant):
                    start = kwd.value.value
            sorted_by = None
            if isinstance(seq, ast.Subscript) and isinstance(
                    seq.slice, ast.Name) and seq.slice.id in argsorts:
                sorted_by = seq.slice.id
            elif (isinstance(seq, ast.Call) and call_name(seq) == 'argsort'
                  and seq.args and V.mentions(seq.args[0], pder)) or (
                      isinstance(seq, ast.Name) and seq.id in argsorts and
                      V.mentions(argsorts[seq.id], pder)):
                # the enumeration runs over the sorting permutation itself:
                # the value variable is the POSITION of the bin of that rank
                sorted_by = ''
            elif isinstance(seq, ast.Call) and call_name(seq) in ('sort',
                                                                  'sorted'):
                sorted_by = ''
            if sorted_by is None:
                continue
            return (node, txt(node.target.elts[0]),
                    txt(node.target.elts[1]), sorted_by, start, seq)
    return None


def _check_holm_level_vector(ctx, program, meth, lname):
    '''Vectorised Holm: the levels of the ranks 1..m are an array
    `alpha / d` with d running m, m-1, ..., 1 (`range(m, 0, -1)` /
    `np.arange(m, 0, -1)`), in the method or in a helper it calls.'''
    scopes = [meth]
    for call in calls_in(meth.node):
        cands, _ = program.resolve_call(meth, call)
        scopes += [c for c in cands if c.module is meth.module][:1]
    found = False
    for scope in scopes:
        pars = [p for p in scope.params if p not in ('self', 'cls')]
        for node in ast.walk(scope.node):
            if not (isinstance(node, ast.BinOp) and isinstance(node.op,
                                                               ast.Div)):
                continue
            if not (isinstance(node.left, ast.Name) and (
                    node.left.id == lname or (scope is not meth and
                                              node.left.id in pars))):
                continue
            den = node.right
            rng = None
            if isinstance(den, ast.Name):
                # comprehension variable: `alpha / d for d in range(...)`
                for comp in ast.walk(scope.node):
                    if isinstance(comp, (ast.ListComp, ast.GeneratorExp)) \
                            and node in list(ast.walk(comp.elt)) and \
                            txt(comp.generators[0].target) == den.id:
                        rng = comp.generators[0].iter
            elif isinstance(den, ast.Call):
                rng = den
            found = True
            ok = None
            if isinstance(rng, ast.Call) and call_name(rng) in (
                    'range', 'arange') and len(rng.args) == 3:
                stop, step = rng.args[1], rng.args[2]
                ok = isinstance(stop, ast.Constant) and stop.value == 0 and \
                    txt(step) in ('-1',) and ('size' in txt(rng.args[0]) or
                                              'len(' in txt(rng.args[0]) or
                                              isinstance(rng.args[0],
                                                         ast.Name))
            ctx.decide('LEVEL-LIN', scope,
                       f'Holm levels {txt(node)[:40]} for '
                       f'{txt(rng)[:40] if rng is not None else "?"}', ok,
                       at=scope.where(node),
                       detail='rank k (1-based, increasing p-values) gets '
                              'alpha / (m - k + 1): denominators m, m-1, '
                              '..., 1')
    if not found:
        ctx.undecided('LEVEL-LIN', meth, 'levels of the vectorised Holm '
                      'method not found', at=meth.where())


def _check_holm_level(ctx, meth, sorted_loop, pname, lname, pder):
    loop, ivar, pvar, sorted_by, start, seq = sorted_loop
    defs = {}
    # locals of the method bound once (`ntests = p.size` before the loop)
    once = {}
    for node in walk_local(meth.node):
        if isinstance(node, ast.Assign) and len(node.targets) == 1 and \
                isinstance(node.targets[0], ast.Name):
            once.setdefault(node.targets[0].id, []).append(node.value)
    defs.update({k: v[0] for k, v in once.items() if len(v) == 1})
    for node in ast.walk(loop):
        if isinstance(node, ast.Assign) and isinstance(node.targets[0],
                                                       ast.Name):
            defs[node.targets[0].id] = node.value
    # the level: a division alpha / denom inside the loop
    divs = [n for n in ast.walk(loop) if isinstance(n, ast.BinOp) and
            isinstance(n.op, ast.Div) and V.mentions(n.left, {lname})]
    if not divs:
        ctx.undecided('LEVEL-LIN', meth, 'no level/denominator division in '
                      'the rank loop', at=meth.where(loop))
        return
    for div in divs:
        denom = div.right
        seen = 0
        while isinstance(denom, ast.Name) and denom.id in defs and seen < 4:
            denom = defs[denom.id]
            seen += 1

        def sym(expr):
            if isinstance(expr, ast.Name) and expr.id == ivar:
                return 'i'
            if isinstance(expr, ast.Name) and expr.id in defs and \
                    expr.id not in (ivar, pvar):
                return sym(defs[expr.id])
            if isinstance(expr, ast.Attribute) and expr.attr == 'size' and \
                    V.mentions(expr.value, pder):
                return 'm'
            if isinstance(expr, ast.Call) and call_name(expr) == 'len' and \
                    expr.args and V.mentions(expr.args[0], pder):
                return 'm'
            return None
        form = V.linear(denom, sym)
        # rank k = i - start + 1 ; required denominator m - k + 1
        required = {'m': 1, 'i': -1}
        if start:
            required[1] = start
        construct = f'Holm level denominator {txt(denom)[:60]}'
        if form is None:
            ctx.undecided('LEVEL-LIN', meth, construct, at=meth.where(div),
                          detail='not linear in (number of bins, rank '
                                 'index)')
        else:
            ctx.decide('LEVEL-LIN', meth, construct, form == required,
                       at=meth.where(div),
                       detail={'normal_form': {str(k): v
                                               for k, v in form.items()},
                               'required': 'm - i (i = 0-based rank index '
                                           'over the sorted p-values), i.e. '
                                           'm - k + 1'})


def _check_unsort(ctx, meth, pname):
    argsorts = {}
    for node in walk_local(meth.node):
        if isinstance(node, ast.Assign) and isinstance(node.value, ast.Call) \
                and call_name(node.value) == 'argsort' and isinstance(
                    node.targets[0], ast.Name) and node.value.args:
            argsorts[node.targets[0].id] = txt(node.value.args[0])
    sorted_inds = {n for n, a in argsorts.items() if a not in argsorts}
    inverse = {n for n, a in argsorts.items() if a in argsorts}
    # element-wise form: `for [rank,] pos in [enumerate(]argsort(p)[)]`, the
    # position variable runs over the sorting permutation
    for node in walk_local(meth.node):
        if not isinstance(node, ast.For):
            continue
        seq, tgt = node.iter, node.target
        if isinstance(seq, ast.Call) and call_name(seq) == 'enumerate' and \
                seq.args and isinstance(tgt, ast.Tuple) and len(
                    tgt.elts) == 2:
            seq, tgt = seq.args[0], tgt.elts[1]
        if isinstance(tgt, ast.Name) and (
                (isinstance(seq, ast.Call) and call_name(seq) == 'argsort'
                 and seq.args and txt(seq.args[0]) not in argsorts) or
                (isinstance(seq, ast.Name) and seq.id in sorted_inds)):
            sorted_inds = sorted_inds | {tgt.id}
    n = 0
    for ret in _returns(meth):
        elts = ret.value.elts if isinstance(ret.value, ast.Tuple) else \
            [ret.value]
        if isinstance(ret.value, ast.Call) and isinstance(
                ret.value.func, ast.Name) and ret.value.func.id[:1].isupper() \
                and len(ret.value.args) + len(ret.value.keywords) >= 2:
            # a value class (named tuple) holding the arrays
            elts = list(ret.value.args) + [k.value
                                           for k in ret.value.keywords]
        for elt in elts:
            n += 1
            reshaped = isinstance(elt, ast.Call) and call_name(elt) == \
                'reshape' and elt.args and txt(elt.args[0]) == \
                f'{pname}.shape'
            inner = receiver(elt) if reshaped else elt
            while isinstance(inner, ast.Call) and call_name(inner) in (
                    'array', 'asarray') and len(inner.args) == 1 and \
                    isinstance(inner.args[0], ast.Name):
                inner = inner.args[0]
            ok = None
            why = ''
            if isinstance(inner, ast.Subscript) and isinstance(
                    inner.slice, ast.Name):
                if inner.slice.id in inverse:
                    ok = True
                elif inner.slice.id in sorted_inds:
                    ok = False
                    why = 'indexed again with the sorting permutation ' \
                          'instead of its inverse'
            elif isinstance(inner, ast.Name):
                # scatter form: out[sorted_inds] = X
                for node in walk_local(meth.node):
                    if isinstance(node, ast.Assign) and isinstance(
                            node.targets[0], ast.Subscript) and txt(
                                node.targets[0].value) == inner.id and \
                            txt(node.targets[0].slice) in sorted_inds:
                        ok = True
                # out.flat[sorted_inds] = X / out.ravel()[sorted_inds] = X
                # on an array created with the shape of the input
                creation = [n.value for n in walk_local(meth.node)
                            if isinstance(n, ast.Assign) and txt(
                                n.targets[0]) == inner.id and isinstance(
                                    n.value, ast.Call)]
                cname = call_name(creation[0]) if len(creation) == 1 else ''
                shaped = cname in ('zeros', 'empty', 'ones', 'full') and \
                    creation[0].args and txt(creation[0].args[0]) == \
                    f'{pname}.shape' and not any(
                        k.arg == 'order' for k in creation[0].keywords)
                like = cname in ('zeros_like', 'empty_like', 'ones_like',
                                 'full_like') and creation[0].args and txt(
                                     creation[0].args[0]) == pname
                for node in walk_local(meth.node):
                    if not (isinstance(node, ast.Assign) and isinstance(
                            node.targets[0], ast.Subscript) and txt(
                                node.targets[0].slice) in sorted_inds):
                        continue
                    base = node.targets[0].value
                    if isinstance(base, ast.Attribute) and base.attr == \
                            'flat' and txt(base.value) == inner.id and (
                                shaped or like):
                        ok, reshaped = True, True
                    elif isinstance(base, ast.Call) and call_name(base) in (
                            'ravel', 'reshape') and txt(receiver(
                                base)) == inner.id:
                        if shaped:
                            ok, reshaped = True, True
                        elif like:
                            ok = False
                            why = (f'{txt(base)} of an array that has the '
                                   f'memory layout of the input is a COPY '
                                   f'when the input is not C-contiguous '
                                   f'(transposed, Fortran order): the '
                                   f'results written through it are lost')
            if ok is True and not reshaped:
                ok = False
                why = 'not reshaped to the shape of the input'
            ctx.decide('UNSORT', meth, f'returned {txt(elt)[:70]}', ok,
                       at=meth.where(ret), detail=why or None)
    ctx.floor('UNSORT', n, 2, 'arrays returned by the Holm method')


def _check_bonf_level(ctx, program, klass, ev, call):
    '''level passed to the correction = <alpha> / <number of bins>.'''
    level_arg = call.args[1]
    init = klass.methods.get('__init__')
    found = False
    if isinstance(level_arg, ast.Attribute) and dotted(
            level_arg.value) == 'self' and init is not None:
        for node in walk_local(init.node):
            if isinstance(node, ast.Assign) and txt(node.targets[0]) == \
                    txt(level_arg):
                found = True
                val = node.value
                ok = None
                if isinstance(val, ast.BinOp) and isinstance(val.op,
                                                             ast.Div):
                    den = val.right
                    ntests = None
                    if isinstance(den, ast.Attribute) and dotted(
                            den.value) == 'self':
                        prop = klass.methods.get(den.attr)
                        if prop is not None:
                            rets = _returns(prop)
                            ntests = rets[0].value if rets else None
                    elif isinstance(den, ast.Attribute):
                        ntests = den
                    if ntests is not None and isinstance(
                            ntests, ast.Attribute) and ntests.attr == 'size' \
                            and 'dsref' in txt(ntests):
                        ok = 'alpha' in txt(val.left)
                    elif ntests is not None:
                        ok = False
                ctx.decide('LEVEL-LIN', init,
                           f'Bonferroni level {txt(node)[:70]}', ok,
                           at=init.where(node),
                           detail='overall level divided by the number of '
                                  'bins of the reference dataset')
    if not found:
        ctx.undecided('LEVEL-LIN', ev, f'level argument {txt(level_arg)}',
                      at=ev.where(call))


# ---------------------------------------------------------------- C07 ---

def check_chi2(ctx):
    program = ctx.program
    res = program.cls(f'{CHI}:TestResultChi2')
    tst = program.cls(f'{CHI}:TestChi2')
    boolm, accepts = _accept_functions(program, res)
    ctx.floor('VERD-TABLE', len(accepts), 1, 'accept comparison of '
              'TestResultChi2')
    accept_names = set()
    for func, ret in accepts:
        accept_names.add(func.name)
        cmp_expr = _find_comparison(ret.value)
        _table_check(ctx, 'VERD-TABLE', func, cmp_expr,
                     lambda e: V.mentions(e, set(), ('self.pvalue',)),
                     lambda e: 'alpha' in txt(e),
                     {'lt': False, 'eq': False, 'gt': True,
                      'unordered': False},
                     'accept, p-value vs alpha')

    def is_atom(expr):
        return isinstance(expr, ast.Call) and isinstance(
            expr.func, ast.Attribute) and dotted(expr.func.value) == 'self' \
            and expr.func.attr in accept_names
    for ret, form in V.accumulator_form(boolm.node, is_atom):
        ok = None if form is None else form == ('forall', 1)
        ctx.decide('VERD-AGG', boolm, f'__bool__: return {txt(ret.value)}',
                   ok, at=boolm.where(ret), detail={'form': form})
    # TAIL
    pv = tst.methods.get('pvalue')
    n_tail = 0
    if pv is not None:
        for ret in _returns(pv):
            calls = [c for c in ast.walk(ret.value) if isinstance(c, ast.Call)
                     and call_name(c) in UPPER_TAIL | LOWER_TAIL |
                     {'isf', 'ppf'}]
            for call in calls:
                n_tail += 1
                why = None
                if call_name(call) in UPPER_TAIL and ret.value is call:
                    ok = True
                elif call_name(call) in LOWER_TAIL:
                    val = ret.value
                    complement = isinstance(val, ast.BinOp) and isinstance(
                        val.op, ast.Sub) and isinstance(
                            val.left, ast.Constant) and val.left.value in (
                                1, 1.0) and val.right is call
                    # 1 - cdf IS the upper tail in exact arithmetic, but the
                    # subtraction cancels: every p below 1.1e-16 reads 0 and
                    # p-values below ~1e-8 are quantised
                    ok = False
                    why = ('the complement of the lower tail loses the far '
                           'upper tail by cancellation (p < 1.1e-16 reads '
                           '0.0: a comparison that passes at a very small '
                           'level fails); use the survival function'
                           if complement else 'lower tail')
                else:
                    ok = None
                ctx.decide('TAIL', pv, f'p-value {txt(ret.value)[:60]} is '
                           f'the upper tail', ok, at=pv.where(ret),
                           detail=why)
    ctx.floor('TAIL', n_tail, 1, 'distribution call in TestChi2.pvalue')
    # SIGN-ERASE: summand squared
    chi = tst.methods.get('chi2_test')
    n_sq = 0
    if chi is not None:
        for ret in _returns(chi):
            sums = [c for c in ast.walk(ret.value) if isinstance(c, ast.Call)
                    and call_name(c) in ('sum', 'nansum')]
            for call in sums:
                n_sq += 1
                arg = call.args[0] if call.args else receiver(call)
                while isinstance(arg, ast.Subscript):
                    arg = arg.value
                # the terms computed into a local first (possibly narrowed
                # afterwards by `terms = terms[mask]`)
                for _ in range(3):
                    if not isinstance(arg, ast.Name):
                        break
                    defs_ = [n.value for n in walk_local(chi.node)
                             if isinstance(n, ast.Assign) and len(
                                 n.targets) == 1 and isinstance(
                                     n.targets[0], ast.Name) and
                             n.targets[0].id == arg.id and not (
                                 isinstance(n.value, ast.Subscript) and
                                 isinstance(n.value.value, ast.Name) and
                                 n.value.value.id == arg.id)]
                    if len(defs_) != 1:
                        break
                    arg = defs_[0]
                    while isinstance(arg, ast.Subscript):
                        arg = arg.value
                inner, erased = V.strip_sign_erasure(arg)
                ratio = isinstance(inner, ast.BinOp) and isinstance(
                    inner.op, ast.Div)
                ctx.decide('SIGN-ERASE', chi, f'summand of {txt(call)[:60]} '
                           f'is squared', erased and ratio or
                           (False if not erased else None),
                           at=chi.where(call))
    ctx.floor('SIGN-ERASE', n_sq, 1, 'sum in chi2_test')
    if chi is not None:
        _check_summand_source(ctx, program, chi)
    # SAME-SOURCE: ndf and the mask derive from one definition
    init = tst.methods.get('__init__')
    ev = tst.methods.get('evaluate')
    mask_attr = None
    ndf_ok = None
    ndf_node = None
    for node in walk_local(init.node):
        if isinstance(node, ast.Assign) and txt(node.targets[0]) == \
                'self.ndf':
            ndf_node = node
            counts = [c for c in ast.walk(node.value)
                      if isinstance(c, ast.Call) and call_name(c) in (
                          'count_nonzero', 'sum')]
            attrs = [dotted(n) for n in ast.walk(node.value)
                     if isinstance(n, ast.Attribute) and (dotted(n) or
                                                          '').startswith(
                                                              'self.')]
            if counts and attrs:
                mask_attr = attrs[0]
                ndf_ok = True
            else:
                ndf_ok = False
    if ndf_node is None:
        raise AnalysisError('self.ndf assignment not found in TestChi2')
    ctx.decide('SAME-SOURCE', init, f'{txt(ndf_node)[:70]} counts a mask',
               ndf_ok, at=init.where(ndf_node),
               detail='degrees of freedom = number of used bins')
    if mask_attr is not None and ev is not None:
        # the mask handed to chi2_test comes from the same attribute
        uses_mask = False
        for node in walk_local(ev.node):
            if isinstance(node, (ast.For, ast.comprehension)) and \
                    mask_attr in txt(node.iter):
                uses_mask = True
        ctx.decide('SAME-SOURCE', ev, f'the mask applied to the summands is '
                   f'{mask_attr}, the source of ndf', uses_mask,
                   at=ev.where())
        uses_ndf = any('self.ndf' in txt(n.iter) for n in walk_local(ev.node)
                       if isinstance(n, (ast.For, ast.comprehension)))
        ctx.decide('SAME-SOURCE', ev, 'the p-value uses self.ndf', uses_ndf,
                   at=ev.where())
        # in chi2_test the mask parameter really selects the summands
        if chi is not None:
            mparam = [p for p in chi.params if p not in ('self',)][-1]
            sel = any(isinstance(n, ast.Subscript) and txt(n.slice) == mparam
                      for r in _returns(chi) for n in ast.walk(r.value))
            # or on the way: `terms = terms[mask]` before the sum of `terms`
            returned = {n.id for r in _returns(chi)
                        for n in ast.walk(r.value) if isinstance(n, ast.Name)}
            sel = sel or any(
                isinstance(n, ast.Assign) and len(n.targets) == 1 and
                isinstance(n.targets[0], ast.Name) and
                n.targets[0].id in returned and isinstance(
                    n.value, ast.Subscript) and txt(n.value.slice) == mparam
                for n in walk_local(chi.node))
            ctx.decide('SAME-SOURCE', chi, f'summands are selected by '
                       f'`{mparam}`', sel, at=chi.where())
    # MASK-TABLE
    nzb = tst.methods.get('_nonzero_bins')
    if nzb is None:
        raise AnalysisError('TestChi2._nonzero_bins not found')
    _check_loop_alias(ctx, nzb, 'MASK-TABLE')
    n_mask = 0
    for ret in _returns(nzb):
        val = ret.value
        elt = val.elt if isinstance(val, (ast.ListComp,
                                          ast.GeneratorExp)) else val
        from ..astutil import enclosing_chain
        parents = enclosing_chain(nzb.node)
        guard = None
        cur = ret
        while parents.get(id(cur)) is not None:
            par = parents[id(cur)]
            if isinstance(par, ast.If) and cur in par.body:
                guard = par.test
            cur = par
        option_on = guard is not None and 'ignore_empty' in txt(guard)
        if guard is None:
            # guard clause form: `if not self.ignore_empty: return <all>`
            # followed by the mask; `if self.ignore_empty: return <mask>`
            # followed by <all>
            for stmt in nzb.node.body:
                if stmt is ret or (hasattr(stmt, 'lineno') and
                                   stmt.lineno >= ret.lineno):
                    break
                if isinstance(stmt, ast.If) and 'ignore_empty' in txt(
                        stmt.test) and any(isinstance(s_, ast.Return)
                                           for s_ in stmt.body):
                    negated = isinstance(stmt.test, ast.UnaryOp) and \
                        isinstance(stmt.test.op, ast.Not)
                    option_on = negated
        # masks computed into locals first
        mdefs = {}
        for node in walk_local(nzb.node):
            if isinstance(node, ast.Assign) and len(node.targets) == 1 and \
                    isinstance(node.targets[0], ast.Name):
                mdefs.setdefault(node.targets[0].id, []).append(node.value)
        import copy as _copy

        class _Sub(ast.NodeTransformer):
            def visit_Name(self, node):
                if isinstance(node.ctx, ast.Load) and len(
                        mdefs.get(node.id, [])) == 1:
                    return self.visit(_copy.deepcopy(mdefs[node.id][0]))
                return node
        elt = _Sub().visit(_copy.deepcopy(elt))
        n_mask += 1
        if option_on:
            tol = _mask_tolerance(ctx.program, nzb, elt)
            if tol is not None:
                ctx.violated(
                    'MASK-TABLE', nzb, f'kept-bin predicate '
                    f'{txt(elt)[:70]}', at=nzb.where(ret),
                    detail=f'the empty-bin test goes through a tolerance '
                           f'(`{tol}`): a bin whose two errors are positive '
                           f'but below it is left out, although exactly the '
                           f'bins where both errors are ZERO are to be left '
                           f'out (spectra of small magnitude lose bins)')
                continue
            # a product / power of errors compared with zero UNDERFLOWS:
            # e**2 is 0.0 for every positive e below 1.5e-162
            under = None
            for cmp_ in ast.walk(elt):
                sides = []
                if isinstance(cmp_, ast.Compare):
                    sides = [cmp_.left] + list(cmp_.comparators)
                elif isinstance(cmp_, ast.Call) and call_name(cmp_) in (
                        'greater', 'not_equal', 'equal', 'less',
                        'count_nonzero', 'nonzero', 'sign', 'signbit',
                        'astype'):
                    sides = list(cmp_.args) + ([receiver(cmp_)] if
                                               receiver(cmp_) is not None
                                               else [])
                for side in sides:
                    for sub in ast.walk(side):
                        if isinstance(sub, ast.BinOp) and isinstance(
                                sub.op, (ast.Pow, ast.Mult)) and \
                                'error' in txt(sub):
                            under = sub
                        if isinstance(sub, ast.Call) and call_name(sub) in (
                                'square', 'power', 'multiply', 'prod') and \
                                'error' in txt(sub):
                            under = sub
            if under is not None:
                ctx.violated(
                    'MASK-TABLE', nzb, f'kept-bin predicate '
                    f'{txt(elt)[:70]}', at=nzb.where(ret),
                    detail=f'`{txt(under)[:40]}` underflows to 0.0 for '
                           f'positive errors below 1.5e-162: such bins are '
                           f'left out although their errors are not zero '
                           f'(the predicate must compare the errors '
                           f'themselves with zero)')
                continue
            table = _mask_table(elt)
            required = {('eq', 'eq'): False, ('eq', 'gt'): True,
                        ('gt', 'eq'): True, ('gt', 'gt'): True}
            ctx.decide('MASK-TABLE', nzb, f'kept-bin predicate '
                       f'{txt(elt)[:70]}',
                       None if table is None else table == required,
                       at=nzb.where(ret),
                       detail={'table': None if table is None else
                               {f'{a},{b}': v for (a, b), v in
                                table.items()},
                               'required': 'drop exactly (e1 = 0, e2 = 0)'})
        else:
            const_true = isinstance(elt, ast.Call) and call_name(elt) in (
                'full_like', 'ones_like', 'full', 'ones') and (
                    call_name(elt).startswith('ones') or any(
                        isinstance(a, ast.Constant) and a.value is True
                        for a in elt.args))
            ctx.decide('MASK-TABLE', nzb, f'without the option every bin is '
                       f'kept: {txt(elt)[:60]}',
                       True if const_true else None, at=nzb.where(ret))
    ctx.floor('MASK-TABLE', n_mask, 2, 'returns of _nonzero_bins')


def _check_loop_alias(ctx, func, rule):
    '''`x = y` inside a loop is an alias, not a copy: an augmented assignment
    on x (`x |= ...`, `x += ...`) then modifies, IN PLACE for numpy arrays,
    the loop-invariant y it was taken from - every later iteration starts
    from the accumulated value and every `x` appended so far is the same
    array (one shared mask for all the compared datasets).'''
    parents = enclosing_chain(func.node)
    for loop in [n for n in walk_local(func.node)
                 if isinstance(n, (ast.For, ast.While))]:
        aliases = {}
        for node in ast.walk(loop):
            if isinstance(node, ast.Assign) and len(node.targets) == 1 and \
                    isinstance(node.targets[0], ast.Name) and isinstance(
                        node.value, ast.Name):
                aliases[node.targets[0].id] = node.value.id
        assigned_in_loop = {t.id for node in ast.walk(loop)
                            if isinstance(node, ast.Assign)
                            for t in node.targets if isinstance(t, ast.Name)}
        for node in ast.walk(loop):
            if isinstance(node, ast.AugAssign) and isinstance(
                    node.target, ast.Name) and node.target.id in aliases:
                src = aliases[node.target.id]
                if src in assigned_in_loop:
                    continue        # re-computed in every iteration
                ctx.violated(
                    rule, func,
                    f'{func.name}: `{node.target.id} = {src}` then '
                    f'`{txt(node)[:40]}` inside the loop',
                    at=func.where(node),
                    detail=f'`{node.target.id}` is the array `{src}` itself: '
                           f'the in-place operator accumulates over the '
                           f'iterations and every element collected so far '
                           f'is that one array (a bin empty for one dataset '
                           f'is kept as soon as any other dataset has an '
                           f'error there)')


def _mask_tolerance(program, func, expr, depth=0):
    '''A tolerance call (isclose, round, ...) or a comparison of an error
    with a small non-zero constant inside the mask expression, following
    local names and helper functions of the module / class.'''
    defs = {}
    for node in walk_local(func.node):
        if isinstance(node, ast.Assign) and len(node.targets) == 1 and \
                isinstance(node.targets[0], ast.Name):
            defs.setdefault(node.targets[0].id, []).append(node.value)
    seen = set()
    todo = [expr]
    while todo:
        cur = todo.pop()
        for node in ast.walk(cur):
            if isinstance(node, ast.Name) and node.id in defs and \
                    node.id not in seen:
                seen.add(node.id)
                todo.extend(defs[node.id])
            if isinstance(node, ast.Call):
                cname = call_name(node)
                if cname in TOLERANCE_CALLS:
                    return txt(node)[:50]
                if depth < 2:
                    helper = None
                    if isinstance(node.func, ast.Name):
                        helper = program.maybe_func(
                            f'{func.module.name}:{node.func.id}')
                    elif isinstance(node.func, ast.Attribute) and txt(
                            node.func.value) in ('self', 'cls') and \
                            func.cls is not None:
                        helper = func.cls.methods.get(node.func.attr)
                    if helper is not None and helper is not func:
                        for ret in _returns(helper):
                            found = _mask_tolerance(program, helper,
                                                    ret.value, depth + 1)
                            if found is not None:
                                return f'{helper.name}: {found}'
            if isinstance(node, ast.Compare) and len(node.ops) == 1 and \
                    isinstance(node.ops[0], (ast.Lt, ast.LtE, ast.Gt,
                                             ast.GtE)):
                for side in (node.left, node.comparators[0]):
                    if isinstance(side, ast.Constant) and isinstance(
                            side.value, float) and 0 < abs(side.value) < 1e-3:
                        return txt(node)[:50]
    return None


def _mask_table(expr):
    '''Truth table of a predicate over (e1 vs 0) x (e2 vs 0) in {eq, gt}.'''
    def ev(node, env):
        if isinstance(node, ast.Call) and call_name(node) in (
                'logical_or', 'logical_and') and len(node.args) == 2:
            a, b = ev(node.args[0], env), ev(node.args[1], env)
            if a is None or b is None:
                return None
            return (a or b) if call_name(node) == 'logical_or' else (a and b)
        if isinstance(node, ast.BinOp) and isinstance(node.op, (ast.BitOr,
                                                               ast.BitAnd)):
            a, b = ev(node.left, env), ev(node.right, env)
            if a is None or b is None:
                return None
            return (a or b) if isinstance(node.op, ast.BitOr) else (a and b)
        if isinstance(node, ast.BoolOp):
            vals = [ev(v, env) for v in node.values]
            if None in vals:
                return None
            return any(vals) if isinstance(node.op, ast.Or) else all(vals)
        if isinstance(node, ast.UnaryOp) and isinstance(node.op, (
                ast.Not, ast.Invert)):
            inner = ev(node.operand, env)
            return None if inner is None else not inner
        if isinstance(node, ast.Compare) and len(node.ops) == 1 and \
                isinstance(node.comparators[0], ast.Constant) and \
                node.comparators[0].value == 0 and isinstance(
                    node.left, ast.Attribute) and node.left.attr == 'error':
            base = txt(node.left.value)
            row = env.get(base)
            if row is None:
                return None
            true_rows = V._CMP.get(type(node.ops[0]))
            return row in true_rows
        return None
    bases = sorted({txt(n.value) for n in ast.walk(expr)
                    if isinstance(n, ast.Attribute) and n.attr == 'error'})
    if len(bases) != 2:
        return None
    table = {}
    for r1 in ('eq', 'gt'):
        for r2 in ('eq', 'gt'):
            val = ev(expr, {bases[0]: r1, bases[1]: r2})
            if val is None:
                return None
            table[(r1, r2)] = val
    return table
