'''Repository-wide defect patterns, applied per property to the files the
property is anchored in (properties.jsonl).  Each pattern is a shape that is
wrong whatever the surrounding code does, and that sub-agents repeatedly
used to break a property while keeping the test-suite green:

CLASS-STATE    a mutable container declared at CLASS level and written
               through `self` / `cls` by a method: one container for every
               instance of the process (what one object remembered is served
               to the next one).
ITER-FIELD     a one-shot iterator (map / zip / filter / reversed /
               enumerate / generator expression) stored in an attribute: the
               first reader exhausts it, the second one sees nothing.
MUTABLE-DEFAULT a mutable default value (`def f(x, acc=[])`) that the body
               modifies: the value survives from one call to the next.
ZIP-SET        zip() with a set operand: pairs by hash order.
LOOP-ALIAS     `x = y` (y defined outside the loop, array-valued) followed by
               `x op= ...` inside a loop: the in-place operator modifies y
               itself, every iteration starts from the accumulated value.

GEN-REUSE      a generator expression (or map / filter / zip object) bound
               to a local name and consumed at two program points one of
               which can follow the other (statement CFG): the second
               consumer only sees what the first one left.

MEMO-STALE     a method that memoises its result in an attribute (stores
               self.X, and returns from self.X under a test on it) while
               (1) another method of the class modifies an attribute the
               result is computed from without resetting self.X, or (2) the
               result is computed from a PUBLIC attribute, which any client
               may re-bind or modify in place behind the memo's back.

GLOBAL-STATE   a function sets process-wide state (np.seterr,
               np.set_printoptions, warnings filters outside
               catch_warnings, locale, os.chdir, seeds of the global random
               generators, sys.setrecursionlimit) and does not restore it in
               a `finally`: whatever runs next in the process (the next
               test, the next task) computes under the leaked setting.

VISITED-KEY    a recursive local function guarded by a visited set kept in
               the enclosing function (`if x in seen: return ...;
               seen.add(x)`) whose result also depends on ANOTHER parameter,
               called from a loop with a loop-dependent value for that
               parameter while the set is created outside the loop: what
               was computed for the first start point is served (as "already
               seen") to the next one.

GROUPBY-KEY    itertools.groupby(seq, key=K) groups CONSECUTIVE elements: `seq`
               must have been sorted with the same key.  Unsorted, or sorted
               on another key, a later run of the same key starts a second
               group (and `d[k] = list(group)` then forgets the first).

MEMO-KEY       `if key not in self.D: self.D[key] = f(p, q)`: every parameter
               the stored value is computed from must be an element of the
               key AS IT IS; a parameter that is missing from the key, or
               only enters it through a function (`(self._geomid(output),
               zone)`), makes two different requests share one entry.  The
               two memos of C15 (Use.get_task, RunTaskFactory.make) have
               their own, finer analysis (sa/rules/memo.py) and are skipped.

Expected instances on the shipped code: 0 besides the documented
exceptions of ALLOW; the rules are exercised by mutants in every property
that uses them.'''
import ast
import json
import os

from ..astutil import txt, call_name, receiver, dotted, walk_local, calls_in
from ..cfg import CFG

VERIF = os.path.dirname(os.path.dirname(os.path.dirname(
    os.path.abspath(__file__))))

MUTATORS = {'append', 'extend', 'add', 'update', 'setdefault', 'insert',
            'pop', 'remove', 'discard', 'popitem', 'clear', 'appendleft',
            'move_to_end', 'sort', 'reverse'}
ONE_SHOT = {'map', 'zip', 'filter', 'reversed', 'enumerate', 'iter'}
MUTABLE_CTORS = {'dict', 'list', 'set', 'OrderedDict', 'defaultdict',
                 'deque', 'Counter'}

# (rule, 'module:Class.attr' or 'module:function') -> reason
ALLOW = {
    ('CLASS-STATE', 'valjean.cosette.use:Use._CACHE'):
        'the process-wide memo of generated tasks is the documented purpose '
        'of Use._CACHE (its key is the subject of KEY / known findings F16)',
}


def anchor_modules(program, prop_id):
    '''Modules of the files the property is anchored in.'''
    out = []
    with open(os.path.join(VERIF, 'properties.jsonl')) as fil:
        for line in fil:
            prop = json.loads(line)
            if prop['id'] != prop_id:
                continue
            for rel in prop['anchors']['files']:
                mod = program.modules.get(rel[:-3].replace('/', '.'))
                if mod is not None:
                    out.append(mod)
    return out


def _mutable_literal(expr):
    return isinstance(expr, (ast.Dict, ast.List, ast.Set)) or (
        isinstance(expr, ast.Call) and isinstance(expr.func, ast.Name) and
        expr.func.id in MUTABLE_CTORS)


def _written_attrs(meth):
    '''attribute names of self / cls modified in place by the method.'''
    out = {}
    for node in walk_local(meth.node):
        target = None
        if isinstance(node, (ast.Assign, ast.AugAssign)):
            tgts = node.targets if isinstance(node, ast.Assign) else \
                [node.target]
            for tgt in tgts:
                base = tgt
                while isinstance(base, ast.Subscript):
                    base = base.value
                if base is not tgt:
                    target = base
        elif isinstance(node, ast.Delete):
            for tgt in node.targets:
                base = tgt
                while isinstance(base, ast.Subscript):
                    base = base.value
                if base is not tgt:
                    target = base
        elif isinstance(node, ast.Call) and call_name(node) in MUTATORS:
            target = receiver(node)
            while isinstance(target, ast.Subscript):
                target = target.value
        if isinstance(target, ast.Attribute) and dotted(target.value) in (
                'self', 'cls'):
            out.setdefault(target.attr, node)
    return out


def _node_exprs(nod):
    '''The expressions evaluated AT a CFG node (header only for compound
    statements).'''
    if nod.ast is None:
        return []
    if nod.kind == 'iter':
        return [nod.ast.iter]
    if nod.kind == 'with':
        return [i.context_expr for i in nod.ast.items]
    if nod.kind in ('dispatch', 'handler', 'join', 'entry', 'exit'):
        return []
    if isinstance(nod.ast, (ast.FunctionDef, ast.AsyncFunctionDef,
                            ast.ClassDef)):
        return []
    return [nod.ast]


def gen_reuse(func):
    '''[(name, def stmt, first consumer node, second consumer node)] for
    one-shot iterators bound to a local and consumed twice along a path.'''
    stores = {}
    for node in walk_local(func.node):
        if isinstance(node, ast.Assign):
            for tgt in node.targets:
                if isinstance(tgt, ast.Name):
                    stores.setdefault(tgt.id, []).append(node)
        elif isinstance(node, (ast.AugAssign, ast.AnnAssign, ast.For,
                               ast.NamedExpr)):
            tgt = node.target
            for sub in ast.walk(tgt):
                if isinstance(sub, ast.Name):
                    stores.setdefault(sub.id, []).append(None)
    cands = {}
    for name, defs in stores.items():
        if len(defs) != 1 or defs[0] is None:
            continue
        val = defs[0].value
        if isinstance(val, ast.GeneratorExp) or (
                isinstance(val, ast.Call) and isinstance(
                    val.func, ast.Name) and val.func.id in (
                        'map', 'filter', 'zip', 'iter', 'reversed')):
            cands[name] = defs[0]
    if not cands:
        return []
    cfg = CFG(func.node, may_raise=lambda n: False)
    out = []
    for name, dfn in cands.items():
        users = []
        for nod in cfg.nodes:
            if nod.ast is dfn:
                continue
            n_loads = sum(1 for expr in _node_exprs(nod)
                          for sub in ast.walk(expr)
                          if isinstance(sub, ast.Name) and sub.id == name and
                          isinstance(sub.ctx, ast.Load))
            # `next(it)` / `it is None` style accesses do not drain it
            partial = any(
                isinstance(sub, ast.Call) and call_name(sub) == 'next'
                for expr in _node_exprs(nod) for sub in ast.walk(expr))
            if n_loads and not partial:
                users.append((nod, n_loads))
        done = False
        for nod, n_loads in users:
            if n_loads > 1:
                out.append((name, dfn, nod, nod))
                done = True
                break
        if done:
            continue
        for nod, _ in users:
            # what follows this consumer without going through the definition
            seen, todo = set(), [nod]
            while todo:
                cur = todo.pop()
                for nxt, _lab in cur.succ:
                    if nxt.ast is dfn or nxt.id in seen:
                        continue
                    seen.add(nxt.id)
                    todo.append(nxt)
            later = [oth for oth, _ in users if oth.id in seen]
            if later:
                out.append((name, dfn, nod, later[0]))
                break
    return out


GLOBAL_SETTERS = {
    'seterr': 'numpy error state', 'seterrcall': 'numpy error callback',
    'set_printoptions': 'numpy print options',
    'simplefilter': 'warnings filters', 'filterwarnings': 'warnings filters',
    'setlocale': 'locale', 'chdir': 'working directory',
    'setrecursionlimit': 'recursion limit',
    'seed': 'seed of a global random generator',
}


def global_state_leaks(func):
    '''[(call, what)] process-wide setters of the function that are not
    undone by a `finally` clause / not inside a restoring context manager.'''
    out = []
    parents = {}
    for par in ast.walk(func.node):
        for child in ast.iter_child_nodes(par):
            parents[id(child)] = par
    for call in calls_in(func.node):
        cname = call_name(call)
        if cname not in GLOBAL_SETTERS or receiver(call) is None:
            continue
        if not call.args and call.keywords and all(
                k.arg is None for k in call.keywords):
            continue        # np.seterr(**old): the restoring call itself
        recv = dotted(receiver(call)) or ''
        if cname == 'seed' and recv.split('.')[-1] not in ('random', 'np',
                                                           'numpy'):
            continue
        if cname == 'chdir' and recv != 'os':
            continue
        if cname in ('seterr', 'seterrcall', 'set_printoptions') and \
                recv not in ('np', 'numpy'):
            continue
        if cname in ('simplefilter', 'filterwarnings') and recv != 'warnings':
            continue
        restored = False
        cur = call
        while cur is not None and cur is not func.node:
            par = parents.get(id(cur))
            if isinstance(par, ast.With) and any(
                    call_name(i.context_expr) in (
                        'catch_warnings', 'errstate', 'printoptions')
                    for i in par.items if isinstance(i.context_expr,
                                                     ast.Call)):
                restored = True
            if isinstance(par, ast.Try) and par.finalbody and any(
                    isinstance(n, ast.Call) and call_name(n) == cname
                    for stmt in par.finalbody for n in ast.walk(stmt)):
                restored = True
            cur = par
        # `old = np.seterr(...)` directly followed by try/finally restoring
        stmt = call
        while stmt is not None and not isinstance(stmt, ast.stmt):
            stmt = parents.get(id(stmt))
        holder = parents.get(id(stmt)) if stmt is not None else None
        for field in ('body', 'orelse', 'finalbody'):
            block = getattr(holder, field, None)
            if isinstance(block, list) and stmt in block:
                nxt = block[block.index(stmt) + 1:block.index(stmt) + 2]
                if nxt and isinstance(nxt[0], ast.Try) and any(
                        isinstance(n, ast.Call) and call_name(n) == cname
                        for s_ in nxt[0].finalbody for n in ast.walk(s_)):
                    restored = True
        if not restored:
            out.append((call, GLOBAL_SETTERS[cname]))
    return out


def visited_key_sites(func):
    '''[(nested function, set name, dropped parameter, loop, call)].'''
    out = []
    outer = func.node
    for fdef in ast.walk(outer):
        if not isinstance(fdef, ast.FunctionDef) or fdef is outer:
            continue
        params = [a.arg for a in fdef.args.args]
        local = {n.id for n in ast.walk(fdef) if isinstance(n, ast.Name)
                 and isinstance(n.ctx, ast.Store)} | set(params)
        rec_calls = [c for c in ast.walk(fdef) if isinstance(c, ast.Call)
                     and isinstance(c.func, ast.Name) and
                     c.func.id == fdef.name]
        if not rec_calls:
            continue
        for test in ast.walk(fdef):
            if not (isinstance(test, ast.If) and isinstance(
                    test.test, ast.Compare) and len(test.test.ops) == 1 and
                    isinstance(test.test.ops[0], ast.In) and isinstance(
                        test.test.comparators[0], ast.Name) and any(
                            isinstance(s, ast.Return) for s in test.body)):
                continue
            sname = test.test.comparators[0].id
            if sname in local:
                continue
            filled = any(isinstance(c, ast.Call) and call_name(c) in (
                'add', 'append', 'update') and isinstance(
                    receiver(c), ast.Name) and receiver(c).id == sname
                         for c in ast.walk(fdef))
            if not filled:
                continue
            key_names = {n.id for n in ast.walk(test.test.left)
                         if isinstance(n, ast.Name)}
            # parameters the result depends on, besides the key
            dropped = []
            for idx, par in enumerate(params):
                if par in key_names:
                    continue
                passthrough = {id(c.args[idx]) for c in rec_calls
                               if idx < len(c.args) and isinstance(
                                   c.args[idx], ast.Name) and
                               c.args[idx].id == par}
                used = [n for n in ast.walk(fdef) if isinstance(n, ast.Name)
                        and n.id == par and isinstance(n.ctx, ast.Load) and
                        id(n) not in passthrough]
                # uses in logging calls do not count
                if used:
                    dropped.append((idx, par))
            if not dropped:
                continue
            # where is the set created, where is the function called?
            parents = {}
            for par_ in ast.walk(outer):
                for child in ast.iter_child_nodes(par_):
                    parents[id(child)] = par_
            for call in ast.walk(outer):
                if not (isinstance(call, ast.Call) and isinstance(
                        call.func, ast.Name) and call.func.id == fdef.name)\
                        or call in rec_calls:
                    continue
                cur, loops = call, []
                while cur is not None and cur is not outer:
                    cur = parents.get(id(cur))
                    if isinstance(cur, (ast.For, ast.While)):
                        loops.append(cur)
                for loop in loops:
                    bound = {n.id for n in ast.walk(loop)
                             if isinstance(n, ast.Name) and
                             isinstance(n.ctx, ast.Store)}
                    if sname in bound:
                        continue        # the set is renewed inside the loop
                    for idx, par in dropped:
                        if idx < len(call.args) and any(
                                isinstance(n, ast.Name) and n.id in bound
                                for n in ast.walk(call.args[idx])):
                            out.append((fdef, sname, par, loop, call))
    return out


MEMO_KEY_SKIP = {'valjean.cosette.use:Use.get_task',
                 'valjean.cosette.run:RunTaskFactory.make'}


def memo_key_sites(func):
    '''[(store node, key expr, parameter, 'missing' | 'lossy')].'''
    out = []
    params = [p_ for p_ in func.params if p_ not in ('self', 'cls')]
    if not params:
        return out
    defs = {}
    for node in walk_local(func.node):
        if isinstance(node, ast.Assign) and len(node.targets) == 1 and \
                isinstance(node.targets[0], ast.Name):
            defs.setdefault(node.targets[0].id, []).append(node.value)

    def expand(expr, depth=0):
        if isinstance(expr, ast.Name) and len(defs.get(expr.id, [])) == 1 \
                and depth < 3:
            return expand(defs[expr.id][0], depth + 1)
        return expr
    for node in walk_local(func.node):
        if not (isinstance(node, ast.Assign) and len(node.targets) == 1 and
                isinstance(node.targets[0], ast.Subscript) and
                _self_attr(node.targets[0].value)):
            continue
        cache = txt(node.targets[0].value)
        key = node.targets[0].slice
        tested = any(
            isinstance(c, ast.Compare) and len(c.ops) == 1 and isinstance(
                c.ops[0], (ast.In, ast.NotIn)) and txt(c.left) == txt(key)
            and txt(c.comparators[0]) == cache
            for c in walk_local(func.node))
        if not tested:
            continue
        kexpr = expand(key)
        elts = kexpr.elts if isinstance(kexpr, ast.Tuple) else [kexpr]
        bare = {e.id for e in elts if isinstance(e, ast.Name)}
        inside = {n.id for e in elts if not isinstance(e, ast.Name)
                  for n in ast.walk(e) if isinstance(n, ast.Name)}
        value = expand(node.value)
        used = {n.id for n in ast.walk(value) if isinstance(n, ast.Name)}
        # what the locals of the value are computed from (every definition:
        # an over-approximation of "depends on")
        for _ in range(4):
            for nam in list(used):
                if nam in params:
                    continue
                for dfn in defs.get(nam, []):
                    used |= {n.id for n in ast.walk(dfn)
                             if isinstance(n, ast.Name)}
        for par in params:
            if par not in used or par in bare:
                continue
            out.append((node, kexpr, par,
                        'lossy' if par in inside else 'missing'))
    return out


def _one_shot_value(program, func, expr, depth=0):
    if isinstance(expr, ast.GeneratorExp):
        return True
    if isinstance(expr, ast.Call) and isinstance(expr.func, ast.Name) and \
            expr.func.id in ONE_SHOT:
        return True
    if isinstance(expr, ast.Call) and depth < 2:
        cands, how = program.resolve_call(func, expr)
        if len(cands) == 1 and how != 'ctor':
            rets = [n for n in walk_local(cands[0].node)
                    if isinstance(n, ast.Return) and n.value is not None]
            return bool(rets) and all(_one_shot_value(
                program, cands[0], r.value, depth + 1) for r in rets)
    return False


def _stored_param(program, init, pname, depth=0):
    '''Attribute in which the constructor keeps its parameter as it is.'''
    for node in walk_local(init.node):
        if isinstance(node, ast.Assign) and isinstance(
                node.value, ast.Name) and node.value.id == pname:
            for tgt in node.targets:
                if _self_attr(tgt):
                    return _self_attr(tgt)
        if isinstance(node, ast.Call) and call_name(node) == '__init__' \
                and depth < 2:
            cands, _how = program.resolve_call(init, node)
            for cand in cands[:1]:
                cparams = [p_ for p_ in cand.params if p_ != 'self']
                for idx, arg in enumerate(node.args):
                    if isinstance(arg, ast.Name) and arg.id == pname and \
                            idx < len(cparams):
                        got = _stored_param(program, cand, cparams[idx],
                                            depth + 1)
                        if got:
                            return got
                for kwd in node.keywords:
                    if kwd.arg and isinstance(kwd.value, ast.Name) and \
                            kwd.value.id == pname:
                        got = _stored_param(program, cand, kwd.arg,
                                            depth + 1)
                        if got:
                            return got
    return None


def _self_attr(node):
    return node.attr if isinstance(node, ast.Attribute) and isinstance(
        node.value, ast.Name) and node.value.id == 'self' else None


def memo_methods(klass):
    '''[(method, memo attribute, {input attribute: load node})].'''
    out = []
    for meth in klass.methods.values():
        if meth.name in ('__init__', '__setstate__', '__new__'):
            continue
        stores, loads = {}, {}
        for node in walk_local(meth.node):
            attr = _self_attr(node)
            if attr is None:
                continue
            if isinstance(node.ctx, ast.Store):
                stores.setdefault(attr, node)
            elif isinstance(node.ctx, ast.Load):
                loads.setdefault(attr, node)
        returns = [n for n in walk_local(meth.node)
                   if isinstance(n, ast.Return) and n.value is not None]
        if not returns:
            continue
        for attr in stores:
            if attr not in loads:
                continue
            # names that hold (a part of) the memo
            holders = {attr}
            for node in walk_local(meth.node):
                if isinstance(node, ast.Assign) and any(
                        _self_attr(s) == attr for s in ast.walk(node.value)):
                    for tgt in node.targets:
                        holders |= {n.id for n in ast.walk(tgt)
                                    if isinstance(n, ast.Name)}

            def mentions(expr):
                return any(_self_attr(s) == attr or (isinstance(
                    s, ast.Name) and s.id in holders)
                           for s in ast.walk(expr))
            guarded = any(isinstance(n, (ast.If, ast.IfExp)) and
                          mentions(n.test) for n in walk_local(meth.node))
            served = any(mentions(r.value) for r in returns)
            # a plain accumulator (self.n = self.n + 1) is not a memo: the
            # stored value must not be computed from the attribute itself
            accum = any(isinstance(n, ast.AugAssign) and
                        _self_attr(n.target) == attr
                        for n in walk_local(meth.node)) or any(
                isinstance(n, ast.Assign) and any(
                    _self_attr(t) == attr for t in n.targets) and any(
                        _self_attr(s) == attr for s in ast.walk(n.value))
                for n in walk_local(meth.node))
            if guarded and served and not accum:
                inputs = {}
                todo, seen = [meth], {meth.name}
                while todo:
                    cur = todo.pop()
                    for node in ast.walk(cur.node):
                        sattr = _self_attr(node)
                        if sattr is None or sattr == attr:
                            continue
                        if sattr in klass.methods:
                            if sattr not in seen:
                                seen.add(sattr)
                                todo.append(klass.methods[sattr])
                        elif isinstance(node.ctx, ast.Load):
                            inputs.setdefault(
                                sattr, node if cur is meth else
                                loads.get(attr))
                out.append((meth, attr, inputs))
    return out


def check_patterns(ctx, prop_id, extra_modules=()):
    program = ctx.program
    mods = anchor_modules(program, prop_id) + [
        program.module(m) for m in extra_modules]
    n_cls = n_fun = 0
    bad = 0

    def report(rule, func, construct, node, detail, allow_key=None):
        nonlocal bad
        if allow_key and (rule, allow_key) in ALLOW:
            ctx.holds(rule, func, construct + ' (documented exception)',
                      at=func.where(node), nontrivial=False,
                      detail=ALLOW[(rule, allow_key)])
            return
        bad += 1
        ctx.violated(rule, func, construct, at=func.where(node),
                     detail=detail)

    for mod in mods:
        program.consulted.add(mod.relpath)
        # ---- CLASS-STATE
        for klass in mod.classes.values():
            n_cls += 1
            class_level = {}
            for stmt in klass.node.body:
                if isinstance(stmt, ast.Assign) and isinstance(
                        stmt.targets[0], ast.Name) and _mutable_literal(
                            stmt.value):
                    class_level[stmt.targets[0].id] = stmt
            if not class_level:
                continue
            rebound = set()
            init = klass.methods.get('__init__')
            if init is not None:
                for node in walk_local(init.node):
                    if isinstance(node, ast.Assign):
                        for tgt in node.targets:
                            if isinstance(tgt, ast.Attribute) and dotted(
                                    tgt.value) == 'self':
                                rebound.add(tgt.attr)
            for meth in klass.methods.values():
                for attr, node in _written_attrs(meth).items():
                    if attr in class_level and attr not in rebound:
                        report('CLASS-STATE', meth,
                               f'{klass.name}.{attr} (class-level '
                               f'{txt(class_level[attr].value)[:20]}) is '
                               f'modified in {meth.name}: {txt(node)[:40]}',
                               node,
                               'one container for every instance: what one '
                               'object stored is seen by all the others',
                               f'{mod.name}:{klass.name}.{attr}')
        # ---- MEMO-STALE
        for klass in mod.classes.values():
            for meth, attr, inputs in memo_methods(klass):
                for inp in sorted(inputs):
                    if not inp.startswith('_') and inp not in klass.methods:
                        report('MEMO-STALE', meth,
                               f'{klass.name}.{meth.name} memoises in '
                               f'self.{attr} a result computed from the '
                               f'public attribute self.{inp}',
                               inputs[inp],
                               f'a client that re-binds or modifies '
                               f'{inp} in place leaves the memo behind: '
                               f'the next result is computed from the old '
                               f'value',
                               f'{mod.name}:{klass.name}.{attr}')
                for other in klass.methods.values():
                    if other is meth or other.name in (
                            '__init__', '__setstate__', '__new__'):
                        continue
                    touched = _written_attrs(other)
                    for node in walk_local(other.node):
                        if isinstance(node, ast.Assign):
                            for tgt in node.targets:
                                if _self_attr(tgt):
                                    touched.setdefault(_self_attr(tgt), node)
                    hit = sorted(set(touched) & set(inputs))
                    resets = any(
                        isinstance(stmt, ast.Assign) and any(
                            _self_attr(t) == attr for t in stmt.targets)
                        for stmt in other.node.body)
                    if hit and not resets:
                        report('MEMO-STALE', other,
                               f'{klass.name}.{other.name} modifies '
                               f'self.{hit[0]} but does not reset the memo '
                               f'self.{attr} of {meth.name}',
                               touched[hit[0]],
                               f'{meth.name} keeps serving the result '
                               f'computed before the modification',
                               f'{mod.name}:{klass.name}.{attr}')
        # ---- function-level patterns
        for func in mod.functions.values():
            n_fun += 1
            # ITER-FIELD
            for node in walk_local(func.node):
                if isinstance(node, ast.Assign) and any(
                        isinstance(t, ast.Attribute) and dotted(
                            t.value) == 'self' for t in node.targets):
                    val = node.value
                    one_shot = isinstance(val, ast.GeneratorExp) or (
                        isinstance(val, ast.Call) and isinstance(
                            val.func, ast.Name) and val.func.id in ONE_SHOT)
                    if one_shot:
                        report('ITER-FIELD', func,
                               f'{func.name}: {txt(node)[:60]}', node,
                               'a one-shot iterator kept on the object: the '
                               'first reader exhausts it')
            # MEMO-KEY
            if func.key not in MEMO_KEY_SKIP:
                for node, kexpr, par, how in memo_key_sites(func):
                    report('MEMO-KEY', func,
                           f'{func.name}: {txt(node.targets[0])[:40]} keyed '
                           f'by {txt(kexpr)[:50]}: the stored value is '
                           f'computed from `{par}`, which '
                           + ('only enters the key through a function'
                              if how == 'lossy' else 'is not in the key'),
                           node,
                           'two requests that differ in that parameter '
                           'share one entry: the second is served the '
                           'value computed for the first')
            # GROUPBY-KEY
            fdefs = {}
            for node in walk_local(func.node):
                if isinstance(node, ast.Assign) and len(
                        node.targets) == 1 and isinstance(
                            node.targets[0], ast.Name):
                    fdefs.setdefault(node.targets[0].id, []).append(
                        node.value)
            for call in calls_in(func.node):
                if call_name(call) != 'groupby' or not call.args:
                    continue
                if receiver(call) is not None and dotted(
                        receiver(call)) != 'itertools':
                    continue        # DataFrame.groupby and the like
                gkey = next((k.value for k in call.keywords
                             if k.arg == 'key'),
                            call.args[1] if len(call.args) > 1 else None)
                seq = call.args[0]
                if isinstance(seq, ast.Name) and len(
                        fdefs.get(seq.id, [])) == 1:
                    seq = fdefs[seq.id][0]
                skey, is_sorted = None, False
                if isinstance(seq, ast.Call) and isinstance(
                        seq.func, ast.Name) and seq.func.id == 'sorted':
                    is_sorted = True
                    skey = next((k.value for k in seq.keywords
                                 if k.arg == 'key'), None)
                same = is_sorted and (
                    (gkey is None and skey is None) or
                    (gkey is not None and skey is not None and
                     ast.dump(gkey) == ast.dump(skey)))
                if not same:
                    report('GROUPBY-KEY', func,
                           f'{func.name}: {txt(call)[:60]} on a sequence '
                           + ('sorted on another key' if is_sorted else
                              'that is not sorted on that key'), call,
                           'groupby only merges consecutive elements: a key '
                           'that comes back later starts a new group')
            # ITER-FIELD through a constructor argument
            for call in calls_in(func.node):
                cands, how = program.resolve_call(func, call)
                if how != 'ctor' or len(cands) != 1:
                    continue
                init = cands[0]
                params = [p_ for p_ in init.params if p_ != 'self']
                bound = list(zip(params, call.args)) + [
                    (k.arg, k.value) for k in call.keywords if k.arg]
                for pname, actual in bound:
                    if not _one_shot_value(program, func, actual):
                        continue
                    kept = _stored_param(program, init, pname)
                    if kept is None:
                        continue
                    report('ITER-FIELD', func,
                           f'{func.name}: {txt(actual)[:40]} (a one-shot '
                           f'iterator) is handed to {txt(call.func)}, which '
                           f'keeps it in self.{kept}', call,
                           'the first walk over the attribute exhausts it: '
                           'a second evaluation, the fingerprint, a '
                           'pickled copy see an empty sequence')
            # VISITED-KEY
            for fdef, sname, par, loop, call in visited_key_sites(func)[:1]:
                report('VISITED-KEY', func,
                       f'{func.name}: {fdef.name}() skips what is in '
                       f'`{sname}`, but its result also depends on '
                       f'`{par}`, which changes at every turn of the loop '
                       f'at line {loop.lineno} while `{sname}` is kept',
                       call,
                       f'nodes expanded for one start point are reported '
                       f'as already seen (empty result) for the next')
            # GLOBAL-STATE
            for call, what in global_state_leaks(func):
                report('GLOBAL-STATE', func,
                       f'{func.name}: {txt(call)[:50]} sets the {what} of '
                       f'the process and no `finally` restores it', call,
                       'every later computation of the process (0/0 -> nan '
                       'conventions of the statistical tests, warnings, '
                       'formatting) runs under the leaked setting')
            # GEN-REUSE
            for name, dfn, first, second in gen_reuse(func):
                report('GEN-REUSE', func,
                       f'{func.name}: `{txt(dfn)[:50]}` consumed by '
                       f'`{first.text(40)}` (line {first.lineno}) and then '
                       f'by `{second.text(40)}` (line {second.lineno})',
                       second.ast if second.ast is not None else dfn,
                       'a one-shot iterator: the second consumer only sees '
                       'what the first one left (all() / any() stop at the '
                       'first deciding element)')
            # MUTABLE-DEFAULT
            args = func.node.args
            pos = args.posonlyargs + args.args
            defaults = list(zip(pos[len(pos) - len(args.defaults):],
                                args.defaults)) + [
                (a, d) for a, d in zip(args.kwonlyargs, args.kw_defaults)
                if d is not None]
            for arg, dflt in defaults:
                if not _mutable_literal(dflt):
                    continue
                touched = None
                for node in walk_local(func.node):
                    if isinstance(node, ast.Call) and call_name(node) in \
                            MUTATORS and isinstance(
                                receiver(node), ast.Name) and \
                            receiver(node).id == arg.arg:
                        touched = node
                    if isinstance(node, (ast.Assign, ast.AugAssign)):
                        tgts = node.targets if isinstance(
                            node, ast.Assign) else [node.target]
                        for tgt in tgts:
                            if isinstance(tgt, ast.Subscript) and isinstance(
                                    tgt.value, ast.Name) and \
                                    tgt.value.id == arg.arg:
                                touched = node
                            if isinstance(node, ast.AugAssign) and \
                                    isinstance(tgt, ast.Name) and \
                                    tgt.id == arg.arg:
                                touched = node
                if touched is not None:
                    report('MUTABLE-DEFAULT', func,
                           f'{func.name}({arg.arg}={txt(dflt)}) modified by '
                           f'{txt(touched)[:40]}', touched,
                           'the default object is created once: what a call '
                           'adds is still there for the next call')
            # ZIP-SET
            for call in calls_in(func.node):
                if isinstance(call.func, ast.Name) and call.func.id == 'zip':
                    for arg in call.args:
                        src = arg
                        if isinstance(arg, ast.Name):
                            defs = [n.value for n in walk_local(func.node)
                                    if isinstance(n, ast.Assign) and any(
                                        isinstance(t, ast.Name) and
                                        t.id == arg.id for t in n.targets)]
                            src = defs[0] if len(defs) == 1 else arg
                        if isinstance(src, (ast.Set, ast.SetComp)) or (
                                isinstance(src, ast.Call) and isinstance(
                                    src.func, ast.Name) and
                                src.func.id in ('set', 'frozenset')):
                            report('ZIP-SET', func,
                                   f'{func.name}: {txt(call)[:50]} pairs '
                                   f'with the set {txt(arg)[:20]}', call,
                                   'a set iterates in hash order: the '
                                   'pairing by position is arbitrary')
            # LOOP-ALIAS (array-valued sources only)
            for loop in [n for n in walk_local(func.node)
                         if isinstance(n, (ast.For, ast.While))]:
                aliases = {}
                for node in ast.walk(loop):
                    if isinstance(node, ast.Assign) and len(
                            node.targets) == 1 and isinstance(
                                node.targets[0], ast.Name) and isinstance(
                                    node.value, ast.Name):
                        aliases[node.targets[0].id] = node.value.id
                inside = {t.id for node in ast.walk(loop)
                          if isinstance(node, ast.Assign)
                          for t in node.targets if isinstance(t, ast.Name)}
                if isinstance(loop, ast.For):
                    inside |= {n.id for n in ast.walk(loop.target)
                               if isinstance(n, ast.Name)}
                for node in ast.walk(loop):
                    if isinstance(node, ast.AugAssign) and isinstance(
                            node.target, ast.Name) and \
                            node.target.id in aliases:
                        src = aliases[node.target.id]
                        if src in inside:
                            continue
                        sdefs = [n.value for n in walk_local(func.node)
                                 if isinstance(n, ast.Assign) and any(
                                     isinstance(t, ast.Name) and t.id == src
                                     for t in n.targets)]
                        arrayish = any(
                            any(isinstance(s, ast.Attribute) and s.attr in (
                                'value', 'error', 'bins') or
                                isinstance(s, ast.Call) and (dotted(
                                    s.func) or '').startswith(('np.',
                                                               'numpy.'))
                                for s in ast.walk(d)) for d in sdefs)
                        if arrayish:
                            report('LOOP-ALIAS', func,
                                   f'{func.name}: `{node.target.id} = {src}`'
                                   f' then `{txt(node)[:40]}` in a loop',
                                   node,
                                   f'`{node.target.id}` is the array `{src}`'
                                   f' itself: the in-place operator '
                                   f'accumulates over the iterations')
    ctx.floor('PATTERNS', n_fun, 3, 'functions of the anchored files')
    if not bad:
        ctx.holds('PATTERNS', prop_id,
                  f'{n_cls} classes / {n_fun} functions of the anchored '
                  f'files: none of CLASS-STATE, ITER-FIELD, MUTABLE-DEFAULT, '
                  f'ZIP-SET, LOOP-ALIAS, GEN-REUSE, MEMO-STALE, GLOBAL-STATE, VISITED-KEY, GROUPBY-KEY, MEMO-KEY', nontrivial=False)
