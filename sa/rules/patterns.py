'''Repository-wide defect patterns, applied per property to the files the
property is anchored in (properties.jsonl).  Each pattern is a shape that is
wrong whatever the surrounding code does, and that sub-agents repeatedly
used to break a property while keeping the test-suite green:

CLASS-STATE    a mutable container declared at CLASS level and written
               through `self` / `cls` by a method: one container for every
               instance of the process (what one object remembered is served
               to the next one).
ITER-FIELD     a one-shot iterator (map / zip / filter / reversed /
               enumerate / generator expression) stored in an attribute: the
               first reader exhausts it, the second one sees nothing.
MUTABLE-DEFAULT a mutable default value (`def f(x, acc=[])`) that the body
               modifies: the value survives from one call to the next.
ZIP-SET        zip() with a set operand: pairs by hash order.
LOOP-ALIAS     `x = y` (y defined outside the loop, array-valued) followed by
               `x op= ...` inside a loop: the in-place operator modifies y
               itself, every iteration starts from the accumulated value.

Expected instances on the shipped code: 0 besides the documented
exceptions of ALLOW; the rules are exercised by mutants in every property
that uses them.'''
import ast
import json
import os

from ..astutil import txt, call_name, receiver, dotted, walk_local, calls_in

VERIF = os.path.dirname(os.path.dirname(os.path.dirname(
    os.path.abspath(__file__))))

MUTATORS = {'append', 'extend', 'add', 'update', 'setdefault', 'insert',
            'pop', 'remove', 'discard', 'popitem', 'clear', 'appendleft',
            'move_to_end', 'sort', 'reverse'}
ONE_SHOT = {'map', 'zip', 'filter', 'reversed', 'enumerate', 'iter'}
MUTABLE_CTORS = {'dict', 'list', 'set', 'OrderedDict', 'defaultdict',
                 'deque', 'Counter'}

# (rule, 'module:Class.attr' or 'module:function') -> reason
ALLOW = {
    ('CLASS-STATE', 'valjean.cosette.use:Use._CACHE'):
        'the process-wide memo of generated tasks is the documented purpose '
        'of Use._CACHE (its key is the subject of KEY / known findings F16)',
}


def anchor_modules(program, prop_id):
    '''Modules of the files the property is anchored in.'''
    out = []
    with open(os.path.join(VERIF, 'properties.jsonl')) as fil:
        for line in fil:
            prop = json.loads(line)
            if prop['id'] != prop_id:
                continue
            for rel in prop['anchors']['files']:
                mod = program.modules.get(rel[:-3].replace('/', '.'))
                if mod is not None:
                    out.append(mod)
    return out


def _mutable_literal(expr):
    return isinstance(expr, (ast.Dict, ast.List, ast.Set)) or (
        isinstance(expr, ast.Call) and isinstance(expr.func, ast.Name) and
        expr.func.id in MUTABLE_CTORS)


def _written_attrs(meth):
    '''attribute names of self / cls modified in place by the method.'''
    out = {}
    for node in walk_local(meth.node):
        target = None
        if isinstance(node, (ast.Assign, ast.AugAssign)):
            tgts = node.targets if isinstance(node, ast.Assign) else \
                [node.target]
            for tgt in tgts:
                base = tgt
                while isinstance(base, ast.Subscript):
                    base = base.value
                if base is not tgt:
                    target = base
        elif isinstance(node, ast.Delete):
            for tgt in node.targets:
                base = tgt
                while isinstance(base, ast.Subscript):
                    base = base.value
                if base is not tgt:
                    target = base
        elif isinstance(node, ast.Call) and call_name(node) in MUTATORS:
            target = receiver(node)
            while isinstance(target, ast.Subscript):
                target = target.value
        if isinstance(target, ast.Attribute) and dotted(target.value) in (
                'self', 'cls'):
            out.setdefault(target.attr, node)
    return out


def check_patterns(ctx, prop_id, extra_modules=()):
    program = ctx.program
    mods = anchor_modules(program, prop_id) + [
        program.module(m) for m in extra_modules]
    n_cls = n_fun = 0
    bad = 0

    def report(rule, func, construct, node, detail, allow_key=None):
        nonlocal bad
        if allow_key and (rule, allow_key) in ALLOW:
            ctx.holds(rule, func, construct + ' (documented exception)',
                      at=func.where(node), nontrivial=False,
                      detail=ALLOW[(rule, allow_key)])
            return
        bad += 1
        ctx.violated(rule, func, construct, at=func.where(node),
                     detail=detail)

    for mod in mods:
        program.consulted.add(mod.relpath)
        # ---- CLASS-STATE
        for klass in mod.classes.values():
            n_cls += 1
            class_level = {}
            for stmt in klass.node.body:
                if isinstance(stmt, ast.Assign) and isinstance(
                        stmt.targets[0], ast.Name) and _mutable_literal(
                            stmt.value):
                    class_level[stmt.targets[0].id] = stmt
            if not class_level:
                continue
            rebound = set()
            init = klass.methods.get('__init__')
            if init is not None:
                for node in walk_local(init.node):
                    if isinstance(node, ast.Assign):
                        for tgt in node.targets:
                            if isinstance(tgt, ast.Attribute) and dotted(
                                    tgt.value) == 'self':
                                rebound.add(tgt.attr)
            for meth in klass.methods.values():
                for attr, node in _written_attrs(meth).items():
                    if attr in class_level and attr not in rebound:
                        report('CLASS-STATE', meth,
                               f'{klass.name}.{attr} (class-level '
                               f'{txt(class_level[attr].value)[:20]}) is '
                               f'modified in {meth.name}: {txt(node)[:40]}',
                               node,
                               'one container for every instance: what one '
                               'object stored is seen by all the others',
                               f'{mod.name}:{klass.name}.{attr}')
        # ---- function-level patterns
        for func in mod.functions.values():
            n_fun += 1
            # ITER-FIELD
            for node in walk_local(func.node):
                if isinstance(node, ast.Assign) and any(
                        isinstance(t, ast.Attribute) and dotted(
                            t.value) == 'self' for t in node.targets):
                    val = node.value
                    one_shot = isinstance(val, ast.GeneratorExp) or (
                        isinstance(val, ast.Call) and isinstance(
                            val.func, ast.Name) and val.func.id in ONE_SHOT)
                    if one_shot:
                        report('ITER-FIELD', func,
                               f'{func.name}: {txt(node)[:60]}', node,
                               'a one-shot iterator kept on the object: the '
                               'first reader exhausts it')
            # MUTABLE-DEFAULT
            args = func.node.args
            pos = args.posonlyargs + args.args
            defaults = list(zip(pos[len(pos) - len(args.defaults):],
                                args.defaults)) + [
                (a, d) for a, d in zip(args.kwonlyargs, args.kw_defaults)
                if d is not None]
            for arg, dflt in defaults:
                if not _mutable_literal(dflt):
                    continue
                touched = None
                for node in walk_local(func.node):
                    if isinstance(node, ast.Call) and call_name(node) in \
                            MUTATORS and isinstance(
                                receiver(node), ast.Name) and \
                            receiver(node).id == arg.arg:
                        touched = node
                    if isinstance(node, (ast.Assign, ast.AugAssign)):
                        tgts = node.targets if isinstance(
                            node, ast.Assign) else [node.target]
                        for tgt in tgts:
                            if isinstance(tgt, ast.Subscript) and isinstance(
                                    tgt.value, ast.Name) and \
                                    tgt.value.id == arg.arg:
                                touched = node
                            if isinstance(node, ast.AugAssign) and \
                                    isinstance(tgt, ast.Name) and \
                                    tgt.id == arg.arg:
                                touched = node
                if touched is not None:
                    report('MUTABLE-DEFAULT', func,
                           f'{func.name}({arg.arg}={txt(dflt)}) modified by '
                           f'{txt(touched)[:40]}', touched,
                           'the default object is created once: what a call '
                           'adds is still there for the next call')
            # ZIP-SET
            for call in calls_in(func.node):
                if isinstance(call.func, ast.Name) and call.func.id == 'zip':
                    for arg in call.args:
                        src = arg
                        if isinstance(arg, ast.Name):
                            defs = [n.value for n in walk_local(func.node)
                                    if isinstance(n, ast.Assign) and any(
                                        isinstance(t, ast.Name) and
                                        t.id == arg.id for t in n.targets)]
                            src = defs[0] if len(defs) == 1 else arg
                        if isinstance(src, (ast.Set, ast.SetComp)) or (
                                isinstance(src, ast.Call) and isinstance(
                                    src.func, ast.Name) and
                                src.func.id in ('set', 'frozenset')):
                            report('ZIP-SET', func,
                                   f'{func.name}: {txt(call)[:50]} pairs '
                                   f'with the set {txt(arg)[:20]}', call,
                                   'a set iterates in hash order: the '
                                   'pairing by position is arbitrary')
            # LOOP-ALIAS (array-valued sources only)
            for loop in [n for n in walk_local(func.node)
                         if isinstance(n, (ast.For, ast.While))]:
                aliases = {}
                for node in ast.walk(loop):
                    if isinstance(node, ast.Assign) and len(
                            node.targets) == 1 and isinstance(
                                node.targets[0], ast.Name) and isinstance(
                                    node.value, ast.Name):
                        aliases[node.targets[0].id] = node.value.id
                inside = {t.id for node in ast.walk(loop)
                          if isinstance(node, ast.Assign)
                          for t in node.targets if isinstance(t, ast.Name)}
                if isinstance(loop, ast.For):
                    inside |= {n.id for n in ast.walk(loop.target)
                               if isinstance(n, ast.Name)}
                for node in ast.walk(loop):
                    if isinstance(node, ast.AugAssign) and isinstance(
                            node.target, ast.Name) and \
                            node.target.id in aliases:
                        src = aliases[node.target.id]
                        if src in inside:
                            continue
                        sdefs = [n.value for n in walk_local(func.node)
                                 if isinstance(n, ast.Assign) and any(
                                     isinstance(t, ast.Name) and t.id == src
                                     for t in n.targets)]
                        arrayish = any(
                            any(isinstance(s, ast.Attribute) and s.attr in (
                                'value', 'error', 'bins') or
                                isinstance(s, ast.Call) and (dotted(
                                    s.func) or '').startswith(('np.',
                                                               'numpy.'))
                                for s in ast.walk(d)) for d in sdefs)
                        if arrayish:
                            report('LOOP-ALIAS', func,
                                   f'{func.name}: `{node.target.id} = {src}`'
                                   f' then `{txt(node)[:40]}` in a loop',
                                   node,
                                   f'`{node.target.id}` is the array `{src}`'
                                   f' itself: the in-place operator '
                                   f'accumulates over the iterations')
    ctx.floor('PATTERNS', n_fun, 3, 'functions of the anchored files')
    if not bad:
        ctx.holds('PATTERNS', prop_id,
                  f'{n_cls} classes / {n_fun} functions of the anchored '
                  f'files: none of CLASS-STATE, ITER-FIELD, MUTABLE-DEFAULT, '
                  f'ZIP-SET, LOOP-ALIAS', nontrivial=False)
