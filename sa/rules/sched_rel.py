'''REL (decision table of the release decision), ENQ (dispatch on the
decision), LOCK (environment lock discipline).  Serves C01 C02 C03 C04.'''
import ast

from ..astutil import (dotted, call_name, receiver, txt, enum_member,
                       calls_in, enclosing_chain, lexically_inside)
from ..loader import AnalysisError
from ..statusdom import (DecisionInterp, State, Roles, read_members,
                         read_default_status, names, LETTER)

BACKENDS = 'valjean.cosette.backends.'
FINAL = frozenset('DFS')


def is_decision_function(func, depth=0):
    '''Returns task statuses (at least two returns of a TaskStatus member,
    or of a call to another decision function of the same class).'''
    count = 0
    for node in ast.walk(func.node):
        if not (isinstance(node, ast.Return) and node.value is not None):
            continue
        if enum_member(node.value, 'TaskStatus'):
            count += 1
        elif isinstance(node.value, ast.Call) and depth < 2 and \
                func.cls is not None and isinstance(
                    node.value.func, ast.Attribute) and dotted(
                        node.value.func.value) in ('cls', 'self'):
            callee = func.cls.methods.get(node.value.func.attr)
            if callee is not None and callee is not func and \
                    is_decision_function(callee, depth + 1):
                count += 1
    return count >= 2


def find_decision_site(program):
    sites = _atomic_sites(program)
    # env.atomically(partial(f, ...)) is also used for things that are not
    # the release decision (atomic publication by a worker, bookkeeping)
    deciding = [s for s in sites if is_decision_function(s[2])]
    if deciding:
        sites = deciding
    # direct calls (not under atomically) of a decision function from a
    # function that is not itself a decision function
    for func in program.all_functions():
        if not func.module.name.startswith(BACKENDS) or \
                is_decision_function(func):
            continue
        for call in calls_in(func.node):
            if call_name(call) in ('atomically', 'partial'):
                continue
            cands, _ = program.resolve_call(func, call)
            if len(cands) == 1 and is_decision_function(cands[0]) and \
                    len(call.args) >= 4 and not any(
                        call in list(ast.walk(s[1])) for s in sites):
                sites.append((func, call, cands[0], call.args[:-1],
                              txt(call.args[-1]), False))
    return sites


def _atomic_sites(program):
    '''The call env.atomically(partial(X.decide, task, deps, hard_deps)) in a
    loop of a backend function.  Returns (func, call, decide FuncInfo,
    role expressions).'''
    sites = []
    for func in program.all_functions():
        if not func.module.name.startswith(BACKENDS):
            continue
        for call in calls_in(func.node):
            if call_name(call) != 'atomically' or len(call.args) != 1:
                continue
            arg = call.args[0]
            if isinstance(arg, ast.Call) and call_name(arg) == 'partial' \
                    and arg.args:
                target = program.resolve_name_expr(func.module, arg.args[0],
                                                   func)
                if target is None and isinstance(arg.args[0],
                                                 ast.Attribute) and \
                        dotted(arg.args[0].value) in ('self', 'cls') and \
                        func.cls is not None:
                    target = program.find_method(func.cls, arg.args[0].attr)
                if target is not None and hasattr(target, 'params'):
                    sites.append((func, call, target, arg.args[1:],
                                  dotted(receiver(call)), True))
            elif isinstance(arg, ast.Lambda) and isinstance(arg.body,
                                                            ast.Call):
                inner = arg.body
                cands, _ = program.resolve_call(func, inner)
                if len(cands) == 1:
                    lam = arg.args.args[0].arg if arg.args.args else None
                    bound = [a for a in inner.args if txt(a) != lam]
                    if len(bound) == len(inner.args) - 1 and \
                            txt(inner.args[-1]) == lam:
                        sites.append((func, call, cands[0], bound,
                                      dotted(receiver(call)), True))
    return sites


def _local_function(program, func, name, depth=0):
    '''FunctionDef bound to `name` in `func`: a nested def, or - when `name`
    is a parameter - the nested def every caller of `func` passes for it.'''
    for node in ast.walk(func.node):
        if isinstance(node, ast.FunctionDef) and node.name == name and \
                node is not func.node:
            return node
    if name in func.params and depth < 2:
        found = []
        for caller in func.module.functions.values():
            for call in calls_in(caller.node, include_nested_defs=False):
                if call_name(call) != func.name:
                    continue
                params = [p for p in func.params if p not in ('self', 'cls')]
                actual = None
                if name in params and params.index(name) < len(call.args):
                    actual = call.args[params.index(name)]
                for kwd in call.keywords:
                    if kwd.arg == name:
                        actual = kwd.value
                if isinstance(actual, ast.Name):
                    found.append(_local_function(program, caller, actual.id,
                                                 depth + 1))
        if found and all(f is not None for f in found) and len(
                {id(f) for f in found}) == 1:
            return found[0]
    return None


def bind_roles(program, func, call, bound_args):
    '''Roles of the bound arguments from their definitions in the caller:
    deps <- <full graph>.dependencies(task), hard <- <hard graph>....'''
    defs = {}
    for node in ast.walk(func.node):
        if isinstance(node, ast.Assign) and len(node.targets) == 1 and \
                isinstance(node.targets[0], ast.Name):
            defs.setdefault(node.targets[0].id, []).append(node.value)
    # `deps, hard_deps = deps_of(task)`: a local function (possibly handed
    # over as a parameter by the caller) returning the collections as a tuple
    for node in ast.walk(func.node):
        if not (isinstance(node, ast.Assign) and len(node.targets) == 1 and
                isinstance(node.targets[0], ast.Tuple) and isinstance(
                    node.value, ast.Call) and isinstance(
                        node.value.func, ast.Name)):
            continue
        fdef = _local_function(program, func, node.value.func.id)
        if fdef is None:
            continue
        rets = [r for r in ast.walk(fdef) if isinstance(r, ast.Return) and
                isinstance(r.value, ast.Tuple)]
        if len(rets) != 1 or len(rets[0].value.elts) != len(
                node.targets[0].elts):
            continue
        fparams = [a.arg for a in fdef.args.args]
        if len(fparams) != len(node.value.args):
            continue
        import copy as _copy

        class _Sub(ast.NodeTransformer):
            def visit_Name(self, sub):
                if sub.id in fparams:
                    return _copy.deepcopy(
                        node.value.args[fparams.index(sub.id)])
                return sub
        for tgt, val in zip(node.targets[0].elts, rets[0].value.elts):
            if isinstance(tgt, ast.Name):
                defs.setdefault(tgt.id, []).append(
                    _Sub().visit(_copy.deepcopy(val)))
    roles = {}
    for idx, arg in enumerate(bound_args):
        name = txt(arg)
        vals = defs.get(name, [])
        if isinstance(arg, ast.Call):
            vals = [arg]        # the collection is computed in the call
        if len(vals) == 1 and isinstance(vals[0], ast.Call) and \
                call_name(vals[0]) == 'dependencies' and \
                len(vals[0].args) == 1:
            graph = dotted(receiver(vals[0])) or ''
            roles[idx] = ('hard' if 'hard' in graph else 'deps',
                          txt(vals[0].args[0]), graph)
        else:
            roles[idx] = ('task', name, None)
    return roles


def _env_status_write(stmt, env_expr):
    '''Letter written by `env.set_x(task)` / `env.set_status(task, X)`.'''
    if not (isinstance(stmt, ast.Expr) and isinstance(stmt.value, ast.Call)):
        return None
    call = stmt.value
    recv = receiver(call)
    if recv is None or dotted(recv) != env_expr:
        return None
    cname = call_name(call) or ''
    if cname.startswith('set_') and cname[4:].upper() in LETTER:
        return cname[4:].upper()
    if cname == 'set_status' and len(call.args) == 2:
        return enum_member(call.args[1], 'TaskStatus')
    return None


def _master_prelude(program, func, call, roles, env_expr, bound):
    '''Status transitions written by the master loop itself BEFORE it calls
    the decision function (`if <cond>: env.set_skipped(task); continue`) are
    rows of the decision table too.  Returns (synthetic FuncInfo whose body
    is those statements followed by `return <decision>(...)`, {local set
    name: statuses of the tasks it holds}) or None when the loop writes no
    status before the decision.'''
    import copy
    from ..loader import FuncInfo
    parents = enclosing_chain(func.node)
    loop = lexically_inside(parents, call,
                            lambda n: isinstance(n, (ast.For, ast.While)))
    if loop is None:
        return None
    cur = call
    while parents.get(id(cur)) is not loop:
        cur = parents.get(id(cur))
        if cur is None:
            return None
    idx = loop.body.index(cur)
    task_var = [roles[i][1] for i in roles if roles[i][0] == 'task']
    task_var = task_var[0] if task_var else None

    def writes_in(stmts):
        return [s for st in stmts for s in ast.walk(st)
                if isinstance(s, ast.Expr) and
                _env_status_write(s, env_expr)]

    pre = [s for s in loop.body[:idx] if writes_in([s])]
    if not pre:
        return None

    def rebuild(stmts):
        out, last = [], None
        for stmt in stmts:
            if _env_status_write(stmt, env_expr):
                last = _env_status_write(stmt, env_expr)
                out.append(copy.deepcopy(stmt))
            elif isinstance(stmt, ast.If):
                new = ast.If(test=copy.deepcopy(stmt.test),
                             body=rebuild(stmt.body) or [ast.Pass()],
                             orelse=rebuild(stmt.orelse))
                out.append(ast.copy_location(new, stmt))
            elif isinstance(stmt, ast.Continue):
                ret = ast.Return(value=ast.parse(
                    f'TaskStatus.{last}' if last else 'None',
                    mode='eval').body)
                out.append(ast.copy_location(ret, stmt))
            elif isinstance(stmt, (ast.Return, ast.Raise, ast.Break)):
                out.append(copy.deepcopy(stmt))
            # counters, logging, bookkeeping of local sets: no status effect
        return out

    body = rebuild(pre)
    partial_call = call.args[0] if call.args else None
    if not (isinstance(partial_call, ast.Call) and partial_call.args):
        return None
    final = ast.Return(value=ast.Call(
        func=copy.deepcopy(partial_call.args[0]),
        args=[copy.deepcopy(a) for a in bound] + [
            ast.parse(env_expr, mode='eval').body], keywords=[]))
    ast.copy_location(final, cur)
    node = ast.FunctionDef(
        name=func.node.name,
        args=copy.deepcopy(func.node.args), body=body + [final],
        decorator_list=[], returns=None, type_comment=None, type_params=[])
    ast.copy_location(node, func.node)
    ast.fix_missing_locations(node)
    synth = FuncInfo(node, func.module, func.cls, func.parent, func.qual)
    # local sets that only receive the loop task right after a status write
    # of that task (or under `<decision> == TaskStatus.X`)
    sets = {}
    decision_var = None
    assign = lexically_inside(parents, call,
                              lambda n: isinstance(n, ast.Assign))
    if assign is not None and isinstance(assign.targets[0], ast.Name):
        decision_var = assign.targets[0].id
    for node_ in ast.walk(func.node):
        if not (isinstance(node_, ast.Call) and call_name(node_) == 'add'
                and isinstance(receiver(node_), ast.Name) and
                len(node_.args) == 1):
            continue
        sname = receiver(node_).id
        status = None
        if txt(node_.args[0]) == task_var:
            stmt = node_
            while not isinstance(parents.get(id(stmt)), (
                    ast.If, ast.For, ast.While, ast.FunctionDef)):
                stmt = parents.get(id(stmt))
            par = parents.get(id(stmt))
            block = par.body if any(stmt is s for s in par.body) else \
                getattr(par, 'orelse', [])
            before = block[:[i for i, s in enumerate(block)
                             if s is stmt][0]] if any(
                                 stmt is s for s in block) else []
            wr = [_env_status_write(s, env_expr) for s in before
                  if _env_status_write(s, env_expr) and
                  txt(s.value.args[0]) == task_var]
            if wr:
                status = wr[-1]
            elif isinstance(par, ast.If) and any(stmt is s
                                                 for s in par.body) and \
                    isinstance(par.test, ast.Compare) and \
                    txt(par.test.left) == decision_var and isinstance(
                        par.test.ops[0], (ast.Eq, ast.Is)):
                status = enum_member(par.test.comparators[0], 'TaskStatus')
        if status in LETTER:
            sets.setdefault(sname, set()).add(LETTER[status])
        else:
            sets[sname] = None
    sets = {k: frozenset(v) for k, v in sets.items() if v}
    return synth, sets


def decision_table(ctx, rule_prefix='REL'):
    '''Computes the table; returns (rows, info) and records stats.'''
    program = ctx.program
    members = read_members(program)
    default = read_default_status(program)
    sites = find_decision_site(program)
    ctx.floor('REL', len(sites), 1, 'env.atomically(partial(<decision>, '
              'task, deps, hard_deps)) in a backend')
    if len(sites) > 1:
        raise AnalysisError('several decision sites found; REL was written '
                            'for one')
    func, call, decide, bound, env_expr, _atomic = sites[0]
    roles = bind_roles(program, func, call, bound)
    kinds = [r[0] for r in roles.values()]
    if sorted(kinds) != ['deps', 'hard', 'task']:
        raise AnalysisError(f'cannot bind the roles of the decision call '
                            f'{txt(call)}: {roles}')
    params = [p for p in decide.params if p not in ('cls', 'self')]
    if len(params) != len(bound) + 1:
        raise AnalysisError('decision function arity does not match the '
                            'partial application')
    by_kind = {roles[i][0]: params[i] for i in roles}
    task_names = {roles[i][1] for i in roles}
    froles = Roles(by_kind['task'], by_kind['deps'], by_kind['hard'],
                   params[-1])
    interp = DecisionInterp(program, members, default,
                            max_depth=3 if ctx.tier == 'quick' else 6)
    master = _master_prelude(program, func, call, roles, env_expr, bound)
    if master is None:
        interp.run_function(decide, froles, State(members))
    else:
        synth, sets = master
        interp.status_sets = sets
        by_name = {roles[i][0]: txt(bound[i]) for i in roles}
        interp.run_function(synth, Roles(by_name['task'], by_name['deps'],
                                         by_name['hard'], env_expr),
                            State(members))
        ctx.stats['master_prelude'] = {
            'statements': len(synth.node.body) - 1,
            'status_sets': {k: names(v) for k, v in sets.items()}}
    info = {'site': func, 'call': call, 'decide': decide,
            'env_expr': env_expr, 'default': default,
            'functions': sorted(set(interp.functions_seen)),
            'task_var': sorted(task_names)}
    ctx.stats['decision_table_rows'] = len(interp.rows)
    ctx.stats['decision_functions'] = info['functions']
    for key in info['functions']:
        program.consulted.add(program.func(key).module.relpath)
    return interp.rows, info


def row_view(row):
    st = row['state']
    return {'returns': row['returns'], 'TS': names(st.TS),
            'DS': names(st.DS), 'HS': names(st.eff_HS()),
            'E': [[sc, names(es)] for sc, es in st.E],
            'clock': [_fact_txt(f) for f in st.facts],
            'path': st.trace[-4:]}


def _fact_txt(fact):
    if fact[0] == 'isnone':
        return f'{_sym(fact[1])} is {"" if fact[2] else "not "}None'
    return f'{_sym(fact[1])} vs {_sym(fact[2])} in {sorted(fact[3])}'


def _sym(sym):
    return ':'.join(str(s) for s in sym)


def _clock_verdict(st, want):
    '''want = "keep": the clock facts must admit only agg-max(end of all
    deps) <= start(task), or an absent clock.  want = "requeue": only gt, or
    an absent clock.  Returns (True/False/None, reason).'''
    cmps = [f for f in st.facts if f[0] == 'cmp']
    nones = [f for f in st.facts if f[0] == 'isnone' and f[2]]
    if not cmps:
        if nones:
            aggs = [f[1] for f in nones if f[1][0] == 'agg']
            if want == 'keep' and any(len(a) > 4 and a[4] == 'all'
                                      for a in aggs):
                return False, (
                    'the aggregate of the dependencies\' end clocks is None '
                    'as soon as ONE dependency has no end clock (a SKIPPED '
                    'dependency never has one): the clocks of the other '
                    'dependencies are then not compared, and a DONE '
                    'dependency that finished after the task started keeps '
                    'the task DONE')
            return True, 'a clock is absent on this row'
        if want == 'keep':
            return None, 'no clock comparison on this row'
        return None, 'no clock comparison on this row'
    allowed = {'lt', 'eq', 'gt'}
    for _, lsym, rsym, rows in cmps:
        if lsym[0] == 'agg' and rsym == ('task', 'start'):
            agg = lsym
        elif rsym[0] == 'agg' and lsym == ('task', 'start'):
            agg = rsym
            rows = frozenset({'lt': 'gt', 'gt': 'lt', 'eq': 'eq'}[r]
                             for r in rows)
        elif ('task', 'end') in (lsym, rsym) and 'agg' in (lsym[0], rsym[0]):
            return False, 'compares the dependencies with the END of the ' \
                          'task: a dependency that ended while the task ' \
                          'was running is taken as older'
        else:
            return None, f'comparison of {_sym(lsym)} with {_sym(rsym)} ' \
                         f'not understood'
        if agg[2] != 'end':
            return False, f'compares the {agg[2]} clock of the ' \
                          f'dependencies, not their end'
        if agg[3] != 'deps':
            return False, 'aggregates over the hard dependencies only'
        if agg[1] == 'min':
            return False, 'aggregates the dependencies\' end clocks with ' \
                          'min: a dependency that ended later is ignored'
        if agg[1] != 'max':
            return None, 'aggregation of the end clocks not understood'
        allowed &= rows
    if want == 'keep':
        ok = allowed <= {'lt', 'eq'}
        return ok, f'latest dependency end vs task start admits ' \
                   f'{sorted(allowed)}'
    # requeue: must be justified by gt (or absent clock)
    if nones and allowed == {'lt', 'eq', 'gt'}:
        return True, 'a clock is absent'
    ok = allowed <= {'gt'} or bool(nones)
    return ok, f'latest dependency end vs task start admits ' \
               f'{sorted(allowed)}'


def _invalidation_justified(st):
    '''A DONE task may lose its DONE status only if some dependency is known
    not to be DONE (being re-executed, failed, skipped, missing).'''
    for scope, eset in st.E:
        if 'D' not in eset:
            return f'some dependency ({scope}) is in {names(eset)}'
    return None


def check_rel(ctx, clauses):
    '''clauses: subset of {"REL-1a" (DS final on PENDING), "REL-1" (full),
    "REL-2", "REL-3", "REL-4", "REL-5"}.'''
    rows, info = decision_table(ctx)
    decide = info['decide']
    ctx.floor('REL-rows', len(rows), 5, 'returns of the decision function')
    n_ret = {}
    for row in rows:
        st = row['state']
        view = row_view(row)
        ret = row['returns']
        n_ret[ret] = n_ret.get(ret, 0) + 1
        site = row['func']
        ident = f'return {ret} <- ' + ' ; '.join(
            t[:48] + t[t.rindex(' -> '):] if len(t) > 60 else t
            for t in st.trace[-2:])
        if st.imprecise:
            for rule in clauses:
                if _applies(rule, ret, st):
                    ctx.undecided(rule, site, ident, at=row['at'],
                                  detail={'row': view,
                                          'imprecise': st.imprecise})
            continue
        # could the task have been DONE when the decision started?
        may_enter_done = ('D', False) not in st.task_path and not any(
            (l, True) in st.task_path for l in 'WPFS')
        if ret == 'PENDING':
            if 'REL-1a' in clauses or 'REL-1' in clauses:
                ok = st.DS <= FINAL
                rule = 'REL-1' if 'REL-1' in clauses else 'REL-1a'
                if rule == 'REL-1':
                    ok = ok and st.eff_HS() <= frozenset('D') and \
                        st.TS == frozenset('P')
                ctx.decide(rule, site, ident, ok, at=row['at'],
                           detail={'row': view, 'required': {
                               'DS': names(FINAL),
                               'HS': ['DONE'] if rule == 'REL-1' else 'any',
                               'TS': ['PENDING']}})
            if 'REL-5' in clauses and may_enter_done:
                self_just = _invalidation_justified(st)
                if self_just:
                    ctx.holds('REL-5', site, ident, at=row['at'],
                              detail={'row': view, 'why': self_just})
                else:
                    ok, why = _clock_verdict(st, 'requeue')
                    ctx.decide('REL-5', site, ident, ok, at=row['at'],
                               detail={'row': view, 'why': why})
        elif ret == 'None':
            if 'REL-2' in clauses:
                ok = st.DS <= FINAL and st.eff_HS() <= frozenset('D') and \
                    st.TS == frozenset('D')
                why = 'status sets'
                if ok:
                    ok, why = _clock_verdict(st, 'keep')
                ctx.decide('REL-2', site, ident, ok, at=row['at'],
                           detail={'row': view, 'why': why, 'required': {
                               'TS': ['DONE'], 'DS': names(FINAL),
                               'HS': ['DONE'],
                               'clock': 'latest dep end <= task start'}})
            if 'REL-5' in clauses:
                ok = not st.writes and not st.other_writes
                ctx.decide('REL-5', site, 'no write: ' + ident, ok,
                           at=row['at'],
                           detail={'writes': st.writes + st.other_writes})
        elif ret == 'SKIPPED':
            if 'REL-5' in clauses and may_enter_done:
                just = _invalidation_justified(st)
                ctx.decide('REL-5', site, ident, bool(just), at=row['at'],
                           detail={'row': view, 'why': just or 'a task that '
                                   'may be DONE is invalidated although '
                                   'nothing says that a dependency is not '
                                   'DONE'})
            if 'REL-3' in clauses:
                ok = any(sc == 'hard' and es <= frozenset('FS')
                         for sc, es in st.E) and st.TS == frozenset('S')
                ctx.decide('REL-3', site, ident, ok, at=row['at'],
                           detail={'row': view, 'required':
                                   'some HARD dependency in {FAILED,SKIPPED}'
                                   ' and task set SKIPPED'})
        elif ret == 'WAITING':
            if 'REL-5' in clauses and may_enter_done:
                just = _invalidation_justified(st)
                ctx.decide('REL-5', site, ident, bool(just), at=row['at'],
                           detail={'row': view, 'why': just or 'a task that '
                                   'may be DONE is invalidated although '
                                   'nothing says that a dependency is not '
                                   'DONE'})
            if 'REL-4' in clauses:
                ok = st.TS == frozenset('W')
                ctx.decide('REL-4', site, ident, ok, at=row['at'],
                           detail={'row': view})
            if 'REL-3' in clauses:
                # converse of REL-3 for liveness/"soft never prevents":
                # nothing to decide on a WAITING row
                pass
        elif ret == '?':
            for rule in clauses:
                ctx.undecided(rule, site, ident, at=row['at'],
                              detail={'row': view})
    # converse of REL-3 ("skipped iff"): a row that sets the task PENDING
    # must exclude failed/skipped hard deps: part of REL-1 (HS <= {D}).
    ctx.stats['rows_by_return'] = n_ret
    for need in ('PENDING', 'WAITING', 'SKIPPED'):
        if need not in n_ret:
            raise AnalysisError(f'decision table has no {need} row: the '
                                f'interpreter does not see the decision')
    return rows, info


def _applies(rule, ret, st):
    return {'REL-1': ret == 'PENDING', 'REL-1a': ret == 'PENDING',
            'REL-2': ret == 'None', 'REL-3': ret == 'SKIPPED',
            'REL-4': ret == 'WAITING',
            'REL-5': ret in ('None', 'PENDING', 'WAITING',
                             'SKIPPED')}.get(rule, False)


def check_enq(ctx):
    '''Dispatch on the decision in the caller + who-may-call.'''
    program = ctx.program
    sites = find_decision_site(program)
    ctx.floor('ENQ', len(sites), 1, 'decision call site')
    func, call, decide, _bound, env_expr, atomic = sites[0]
    ctx.decide('ENQ', func, 'the release decision (read statuses, decide, '
               'write the new status) runs under env.atomically',
               atomic, at=func.where(call),
               detail='a worker can change a dependency status between the '
                      'read and the write of the decision')
    parents = enclosing_chain(func.node)
    assign = lexically_inside(parents, call,
                              lambda n: isinstance(n, ast.Assign))
    outer = lexically_inside(parents, call, lambda n: isinstance(
        n, ast.Call) and call_name(n) == 'atomically')
    if assign is None or not isinstance(assign.targets[0], ast.Name) or \
            assign.value not in (call, outer):
        # (the decision handed to something else, a table look-up for
        # instance, is not a dispatch this rule can read)
        ctx.undecided('ENQ', func, 'decision value not bound to a name',
                      at=func.where(call))
        return
    var = assign.targets[0].id
    # collect branches on var
    branches = {}      # member/None -> list of stmts

    def member_of(test):
        if isinstance(test, ast.Compare) and len(test.ops) == 1 and \
                txt(test.left) == var:
            mem = enum_member(test.comparators[0], 'TaskStatus')
            if mem and isinstance(test.ops[0], (ast.Eq, ast.Is)):
                return mem
            if isinstance(test.comparators[0], ast.Constant) and \
                    test.comparators[0].value is None and isinstance(
                        test.ops[0], (ast.Eq, ast.Is)):
                return 'None'
        return None

    def collect(ifnode):
        mem = member_of(ifnode.test)
        if mem is None:
            return False
        branches.setdefault(mem, []).extend(ifnode.body)
        if len(ifnode.orelse) == 1 and isinstance(ifnode.orelse[0], ast.If):
            return collect(ifnode.orelse[0])
        if ifnode.orelse:
            branches.setdefault('else', []).extend(ifnode.orelse)
        return True

    loop = lexically_inside(parents, call,
                            lambda n: isinstance(n, (ast.For, ast.While)))
    body = loop.body if loop is not None else func.node.body
    found = False
    for stmt in body:
        if isinstance(stmt, ast.If) and member_of(stmt.test) is not None:
            found = collect(stmt) or found
    if not found:
        ctx.undecided('ENQ', func, f'no if/elif dispatch on {var}',
                      at=func.where(call))
        return
    # returned list (tasks kept for the next pass)
    returned = {txt(n.value) for n in ast.walk(func.node)
                if isinstance(n, ast.Return) and n.value is not None}

    def has_put(stmts):
        return any(isinstance(c, ast.Call) and call_name(c) in
                   ('put', 'put_nowait')
                   for s in stmts for c in ast.walk(s))

    def has_keep(stmts):
        return any(isinstance(c, ast.Call) and call_name(c) in
                   ('append', 'add') and dotted(receiver(c)) in returned
                   for s in stmts for c in ast.walk(s))

    put_in = sorted(m for m, st in branches.items() if has_put(st))
    keep_in = sorted(m for m, st in branches.items() if has_keep(st))
    ctx.decide('ENQ', func, f'queue.put on decision branches {put_in}',
               put_in == ['PENDING'], at=func.where(call),
               detail={'put_in': put_in, 'required': ['PENDING']})
    ctx.decide('ENQ', func, f'task kept for next pass on branches {keep_in}',
               keep_in == ['WAITING'], at=func.where(call),
               detail={'keep_in': keep_in, 'required': ['WAITING']})
    # put outside the dispatch?
    stray = [c for c in calls_in(func.node) if call_name(c) in
             ('put', 'put_nowait') and not any(
                 c in list(ast.walk(s)) for st in branches.values()
                 for s in st)]
    ctx.decide('ENQ', func, 'no queue.put outside the dispatch',
               not stray, at=func.where(stray[0]) if stray else
               func.where(call))
    # who-may-call: every reference to a decision function outside the
    # decision functions themselves is under env.atomically(...)
    rows_funcs = {decide.key}
    dec_names = {decide.name}
    for other in program.all_functions():
        if not other.module.name.startswith('valjean.cosette'):
            continue
        par = enclosing_chain(other.node)
        for node in ast.walk(other.node):
            if isinstance(node, ast.Attribute) and node.attr in dec_names \
                    and isinstance(node.ctx, ast.Load):
                under = lexically_inside(
                    par, node, lambda n: isinstance(n, ast.Call) and
                    call_name(n) == 'atomically')
                inside_dec = other.key in rows_funcs
                ctx.decide('ENQ', other,
                           f'reference to {node.attr} is under atomically',
                           bool(under) or inside_dec,
                           at=other.where(node))
    ctx.program.consulted.add(func.module.relpath)


def check_lock(ctx):
    '''Env: the mapping is touched by set_status/get_status/apply/atomically
    only inside `with self.lock`; the lock is re-entrant.'''
    program = ctx.program
    env_cls = program.cls('valjean.cosette.env:Env')
    found = 0
    for mname in ('set_status', 'get_status', 'apply', 'atomically'):
        meth = env_cls.methods.get(mname)
        if meth is None:
            continue
        found += 1
        parents = enclosing_chain(meth.node)
        touches = []
        for node in ast.walk(meth.node):
            if isinstance(node, ast.Call):
                recv = receiver(node)
                if recv is not None and dotted(recv) in (
                        'self', 'self.dictionary') and call_name(node) in (
                            'setdefault', 'get', 'update', 'pop',
                            '__setitem__', 'items', 'keys', 'values'):
                    touches.append(node)
                elif any(isinstance(a, ast.Name) and a.id == 'self'
                         for a in node.args):
                    touches.append(node)
            elif isinstance(node, ast.Subscript) and dotted(node.value) in (
                    'self', 'self.dictionary'):
                touches.append(node)
        for node in touches:
            under = lexically_inside(
                parents, node, lambda n: isinstance(n, ast.With) and any(
                    dotted(i.context_expr) == 'self.lock' for i in n.items))
            ctx.decide('LOCK', meth, f'{txt(node)[:60]} under self.lock',
                       bool(under), at=meth.where(node))
        if not touches:
            ctx.undecided('LOCK', meth, 'no access to the mapping found',
                          at=meth.where())
    ctx.floor('LOCK', found, 4, 'Env.set_status/get_status/apply/atomically')
    n_ctor = 0
    for mname in ('__init__', '__setstate__'):
        meth = env_cls.methods.get(mname)
        if meth is None:
            continue
        for node in ast.walk(meth.node):
            if isinstance(node, ast.Assign) and any(
                    dotted(t) == 'self.lock' for t in node.targets):
                n_ctor += 1
                val = node.value
                kind = call_name(val) if isinstance(val, ast.Call) else None
                ctx.decide('LOCK', meth, f'self.lock = {txt(val)}',
                           True if kind == 'RLock' else
                           False if kind == 'Lock' else None,
                           at=meth.where(node),
                           detail='lock-taking methods are called while the '
                                  'lock is held (atomically -> set_status): '
                                  'a non re-entrant lock deadlocks the '
                                  'master')
    ctx.floor('LOCK-ctor', n_ctor, 2, 'self.lock = threading.RLock() in '
              '__init__ and __setstate__')


# ------------------------------------------------------------------ TOPO ---

def check_topo(ctx):
    '''The master examines the tasks in a topological order of the SAME
    graph that gives `deps` (all dependencies) to the decision: within one
    pass every dependency is decided before its dependents, so a DONE task is
    never kept on the strength of a dependency status that the same pass is
    about to reset.'''
    program = ctx.program
    sites = find_decision_site(program)
    ctx.floor('TOPO', len(sites), 1, 'decision call site')
    func, call, _decide, bound, _env_expr, _atomic = sites[0]
    roles = bind_roles(program, func, call, bound)
    deps_graph = None
    for _idx, (role, _what, graph) in roles.items():
        if role == 'deps':
            deps_graph = graph
    parents = enclosing_chain(func.node)
    loop = lexically_inside(parents, call, lambda n: isinstance(n, ast.For))
    if deps_graph is None or loop is None or not isinstance(loop.iter,
                                                            ast.Name):
        ctx.undecided('TOPO', func, 'loop over the tasks / graph of `deps` '
                      'not recognised', at=func.where(call))
        return
    tasks_param = loop.iter.id
    if tasks_param not in func.params:
        ctx.undecided('TOPO', func, f'{tasks_param} is not a parameter of '
                      f'{func.name}', at=func.where(call))
        return
    off = 1 if func.params[0] in ('self', 'cls') else 0
    pos_tasks = func.params.index(tasks_param) - off
    # the graph is a parameter of the function, or (dependencies looked up
    # through a local function of the caller) a name of the caller itself
    pos_graph = func.params.index(deps_graph) - off \
        if deps_graph in func.params else None
    found = 0
    for caller in program.all_functions():
        if not caller.module.name.startswith(BACKENDS):
            continue
        defs = {}
        for node in ast.walk(caller.node):
            if isinstance(node, ast.Assign) and len(node.targets) == 1 and \
                    isinstance(node.targets[0], ast.Name):
                defs.setdefault(node.targets[0].id, []).append(node.value)
        for sub in calls_in(caller.node):
            if call_name(sub) != func.name or len(sub.args) <= max(
                    pos_tasks, pos_graph or 0):
                continue
            found += 1
            tasks_arg = sub.args[pos_tasks]
            graph_arg = txt(sub.args[pos_graph]) if pos_graph is not None \
                else deps_graph
            sorts = [v for v in defs.get(txt(tasks_arg), [])
                     if isinstance(v, ast.Call) and call_name(v) ==
                     'topological_sort']
            # re-bindings that are the list handed back by the examining
            # function itself (directly or through a local: `blocked =
            # self._enqueue(tasks_left, ..)` ... `tasks_left = blocked`)
            def from_examiner(val, depth=0):
                if isinstance(val, ast.Call) and call_name(val) in (
                        'topological_sort', func.name):
                    return True
                if isinstance(val, ast.Name) and depth < 3 and defs.get(
                        val.id):
                    return all(from_examiner(v, depth + 1)
                               for v in defs[val.id])
                return False
            others = [v for v in defs.get(txt(tasks_arg), [])
                      if not from_examiner(v)]
            if not sorts:
                ctx.undecided('TOPO', caller, f'{txt(tasks_arg)} is not the '
                              f'result of a topological_sort()',
                              at=caller.where(sub))
                continue
            sorted_graph = dotted(receiver(sorts[0]))
            # the sorted list re-ordered in place afterwards
            for node in calls_in(caller.node):
                if call_name(node) in ('sort', 'reverse') and dotted(
                        receiver(node)) == txt(tasks_arg):
                    others.append(node)
                if call_name(node) == 'shuffle' and node.args and txt(
                        node.args[0]) == txt(tasks_arg):
                    others.append(node)
            ctx.decide('TOPO', caller,
                       f'tasks examined in the order of '
                       f'{sorted_graph}.topological_sort(); `deps` come from '
                       f'{graph_arg}', sorted_graph == graph_arg and not
                       others, at=caller.where(sorts[0]),
                       detail='the order ignores some dependencies (soft '
                              'ones): on a re-run a DONE task can be '
                              'examined, and dropped as up to date, before '
                              'the dependency that the same pass resets'
                       if sorted_graph != graph_arg else
                       f'the sorted list is re-ordered / re-bound '
                       f'afterwards ({txt(others[0])[:60]}): the same '
                       f'hazard' if others else None)
    ctx.floor('TOPO-call', found, 1, f'call of {func.name}')


GRAPH_SHRINKERS = {'remove_node', 'remove_edge', 'remove_dependency',
                   'remove', 'pop', 'discard', 'clear', '__delitem__',
                   'transitive_reduction'}


def check_graph_whole(ctx):
    """The backend decides with the dependencies of the graphs it is GIVEN:
    the scheduler must hand it the job's own full and hard graphs.  A graph
    from which nodes or edges were removed first (pruning of "up to date"
    tasks, reduction) hides dependencies from the decision: a DONE task
    whose pruned dependency is newer is compared with nothing and kept."""
    program = ctx.program
    n = 0
    for func in program.all_functions():
        if not func.module.name.startswith('valjean.cosette.scheduler'):
            continue
        defs = {}
        for node in ast.walk(func.node):
            if isinstance(node, ast.Assign):
                for tgt in node.targets:
                    if isinstance(tgt, ast.Name):
                        defs.setdefault(tgt.id, []).append(node.value)
                    elif isinstance(tgt, ast.Tuple) and isinstance(
                            node.value, ast.Tuple) and len(
                                tgt.elts) == len(node.value.elts):
                        for elt, val in zip(tgt.elts, node.value.elts):
                            if isinstance(elt, ast.Name):
                                defs.setdefault(elt.id, []).append(val)
        for call in calls_in(func.node):
            if call_name(call) != 'execute_tasks':
                continue
            for kwd in call.keywords:
                if kwd.arg not in ('full_graph', 'hard_graph'):
                    continue
                n += 1
                val = kwd.value
                construct = f'{kwd.arg}={txt(val)[:40]} handed to the ' \
                            f'backend'
                if isinstance(val, ast.Attribute) and dotted(
                        val) == f'self.{kwd.arg}':
                    ctx.holds('GRAPH-WHOLE', func, construct,
                              at=func.where(call))
                    continue
                if isinstance(val, ast.Name):
                    srcs = defs.get(val.id, [])
                    own = [v for v in srcs if f'self.{kwd.arg}' in txt(v)]
                    shrunk = [c for c in calls_in(func.node)
                              if call_name(c) in GRAPH_SHRINKERS and
                              dotted(receiver(c)) == val.id]
                    if shrunk:
                        ctx.violated(
                            'GRAPH-WHOLE', func, construct,
                            at=func.where(shrunk[0]),
                            detail=f'`{txt(shrunk[0])[:50]}` removes nodes / '
                                   f'edges from the graph before the '
                                   f'backend sees it: the dependencies of '
                                   f'the remaining tasks on what was removed '
                                   f'are no longer examined (status, clocks)')
                        continue
                    if srcs and len(own) == len(srcs):
                        ctx.holds('GRAPH-WHOLE', func, construct,
                                  at=func.where(call))
                        continue
                ctx.undecided('GRAPH-WHOLE', func, construct,
                              at=func.where(call))
    ctx.floor('GRAPH-WHOLE', n, 2, 'graphs handed to execute_tasks')


def _shrinks_a_graph(program, func, expr, depth=0):
    """The expression evaluates to a graph from which nodes / edges were
    removed: a shrinker call on a (copy of a) graph, or a call of a package
    function that returns a local it applied a shrinker to."""
    for call in [c for c in ast.walk(expr) if isinstance(c, ast.Call)]:
        if call_name(call) in GRAPH_SHRINKERS and call_name(call) not in (
                'remove', 'pop', 'discard', 'clear'):
            return call
        if depth < 2:
            cands, how = program.resolve_call(func, call)
            if how == 'by-unique-name':
                continue
            for cand in cands[:2]:
                if not cand.module.name.startswith('valjean.cosette') or \
                        cand is func:
                    continue
                rets = [n.value for n in ast.walk(cand.node)
                        if isinstance(n, ast.Return) and n.value is not None]
                shrunk = {dotted(receiver(c)) for c in calls_in(cand.node)
                          if call_name(c) in GRAPH_SHRINKERS and
                          call_name(c) not in ('remove', 'pop', 'discard',
                                               'clear') and
                          receiver(c) is not None}
                if any(txt(r) in shrunk for r in rets):
                    return call
                for ret in rets:
                    found = _shrinks_a_graph(program, cand, ret, depth + 1)
                    if found is not None:
                        return call
    return None


def check_graph_rebound(ctx):
    """Inside the backend the graph that supplies `deps` to the decision is
    the graph it was given: re-binding it to a reduced copy (transitive
    reduction, "edges that add no ordering constraint" removed) is unsound
    because a task can be final (SKIPPED) BEFORE its own dependencies are:
    the dependent whose direct edge was dropped then sees only final
    dependencies and starts while the dropped one still runs."""
    program = ctx.program
    n = 0
    for func in program.all_functions():
        if not func.module.name.startswith(BACKENDS):
            continue
        graph_vars = {p for p in func.params if 'graph' in p}
        if not graph_vars:
            continue
        n += 1
        bad = False
        for node in ast.walk(func.node):
            if isinstance(node, ast.Assign) and any(
                    isinstance(t, ast.Name) and t.id in graph_vars
                    for t in node.targets):
                found = _shrinks_a_graph(program, func, node.value)
                tgt = [t.id for t in node.targets
                       if isinstance(t, ast.Name)][0]
                if found is not None:
                    bad = True
                    ctx.violated(
                        'GRAPH-WHOLE', func,
                        f'{func.name}: {tgt} re-bound to a reduced graph: '
                        f'{txt(node.value)[:50]}', at=func.where(node),
                        detail='the decision no longer sees every '
                               'dependency of a task: an edge "implied by a '
                               'longer path" still matters when a task on '
                               'that path is SKIPPED early')
                else:
                    ctx.undecided('GRAPH-WHOLE', func,
                                  f'{func.name}: {tgt} re-bound: '
                                  f'{txt(node.value)[:50]}',
                                  at=func.where(node))
                    bad = True
        if not bad:
            ctx.holds('GRAPH-WHOLE', func,
                      f'{func.name}: {sorted(graph_vars)} used as given',
                      at=func.where(), nontrivial=False)
    ctx.floor('GRAPH-WHOLE-backend', n, 1, 'backend functions taking a graph')


def check_decision_inputs(ctx):
    """Everything the release decision READS from the environment is read
    inside the atomic region: the arguments bound to the decision function
    before `env.atomically(...)` runs it (partial / lambda) are the task and
    its dependency collections, nothing computed from the environment.  A
    status or clock read outside (hoisted "to keep the critical section
    short") can be stale by the time the decision uses it: a worker
    publishes in between (time of check / time of use)."""
    program = ctx.program
    sites = find_decision_site(program)
    ctx.floor('ENQ-INPUTS', len(sites), 1, 'decision call site')
    func, call, _decide, bound, env_expr, _atomic = sites[0]
    defs = {}
    for node in ast.walk(func.node):
        if isinstance(node, ast.Assign) and len(node.targets) == 1 and \
                isinstance(node.targets[0], ast.Name):
            defs.setdefault(node.targets[0].id, []).append(node.value)

    def reads_env(expr, depth=0):
        for node in ast.walk(expr):
            if isinstance(node, ast.Name) and node.id == env_expr:
                return node
            if isinstance(node, ast.Attribute) and dotted(node) == env_expr:
                return node
            if isinstance(node, ast.Name) and depth < 3:
                for val in defs.get(node.id, []):
                    found = reads_env(val, depth + 1)
                    if found is not None:
                        return found
        return None
    for arg in bound:
        found = reads_env(arg)
        ctx.decide('ENQ-INPUTS', func,
                   f'argument bound before the atomic region: '
                   f'{txt(arg)[:50]}', found is None, at=func.where(call),
                   detail=None if found is None else
                   f'computed from the environment (`{env_expr}`) outside '
                   f'env.atomically: stale when a worker publishes between '
                   f'this read and the decision')


# -------------------------------------------------------- STATUS-WRITERS ---

def _callee_closure(program, roots, depth=3):
    seen = {id(f): f for f in roots}
    todo = [(f, 0) for f in roots]
    while todo:
        func, lvl = todo.pop()
        if lvl >= depth:
            continue
        for call in calls_in(func.node):
            cands, _ = program.resolve_call(func, call)
            for cand in cands:
                if cand.module.name.startswith(BACKENDS) and \
                        id(cand) not in seen:
                    seen[id(cand)] = cand
                    todo.append((cand, lvl + 1))
    return seen


def check_status_writers(ctx):
    '''In the backends the status of a task is written only (a) by the
    decision function and what it calls - interpreted row by row by REL;
    (b) by the master loop in front of the decision call - rows of the same
    table; (c) by the worker function around Task.do - WRK.  A status
    written anywhere else (a time-out branch, a clean-up helper) is a
    transition that no table describes: tasks skipped although no hard
    dependency failed, released although a dependency still runs.'''
    from . import sched_worker
    program = ctx.program
    sites = find_decision_site(program)
    ctx.floor('STATUS-WRITERS', len(sites), 1, 'decision call site')
    deciders = _callee_closure(program, [s[2] for s in sites])
    workers = sched_worker.find_workers(program)
    ctx.floor('STATUS-WRITERS-worker', len(workers), 1, 'worker function')
    working = _callee_closure(program, [w.func for w in workers])
    prelude = set()
    for func, call, _dec, _bound, _env, _atomic in sites:
        parents = enclosing_chain(func.node)
        loop = lexically_inside(parents, call, lambda n: isinstance(
            n, (ast.For, ast.While)))
        if loop is None:
            continue
        cur = call
        while cur is not None and parents.get(id(cur)) is not loop:
            cur = parents.get(id(cur))
        if cur is None or cur not in loop.body:
            continue
        for stmt in loop.body[:loop.body.index(cur)]:
            prelude |= {id(n) for n in ast.walk(stmt)}
    n_sites = 0
    for func in program.all_functions():
        if not func.module.name.startswith(BACKENDS):
            continue
        for call in calls_in(func.node):
            cname = call_name(call) or ''
            if not ((cname.startswith('set_') and cname[4:].upper() in
                     LETTER) or cname == 'set_status'):
                continue
            if receiver(call) is None:
                continue
            n_sites += 1
            if id(func) in deciders:
                role = 'decision (REL table)'
            elif id(func) in working:
                role = 'worker (WRK)'
            elif id(call) in prelude:
                role = 'master loop before the decision (REL prelude rows)'
            else:
                ctx.violated(
                    'STATUS-WRITERS', func,
                    f'{txt(call)[:50]} in {func.name}: a status written '
                    f'outside the decision function, the master prelude and '
                    f'the worker', at=func.where(call),
                    detail='this transition is in no decision table: '
                           'nothing shows that a task is SKIPPED only when '
                           'a hard dependency failed, or released only when '
                           'its dependencies are settled')
                continue
            ctx.holds('STATUS-WRITERS', func, f'{txt(call)[:50]}: {role}',
                      at=func.where(call), nontrivial=False)
    ctx.floor('STATUS-WRITERS-sites', n_sites, 4, 'status write sites in the '
              'backends')
