'''Verdict rules shared by the statistical tests (C05 C06 C07):
orderdom (decision table of a comparison over the orderings lt/eq/gt/
unordered), aggregation polarity, sign erasure, dependence of returns,
sidedness / tail of distribution calls, NaN masks, level arithmetic.'''
import ast

from ..astutil import (dotted, call_name, receiver, txt, calls_in,
                       walk_local, names_loaded, enclosing_chain)

ROWS = ('lt', 'eq', 'gt', 'unordered')
_CMP = {ast.Lt: {'lt'}, ast.LtE: {'lt', 'eq'}, ast.Gt: {'gt'},
        ast.GtE: {'gt', 'eq'}, ast.Eq: {'eq'},
        ast.NotEq: {'lt', 'gt', 'unordered'}}
_NPCMP = {'less': ast.Lt, 'less_equal': ast.LtE, 'greater': ast.Gt,
          'greater_equal': ast.GtE, 'equal': ast.Eq, 'not_equal': ast.NotEq}
_MIRROR = {'lt': 'gt', 'gt': 'lt', 'eq': 'eq', 'unordered': 'unordered'}
SIGN_ERASERS = {'fabs', 'abs', 'absolute', 'square'}


def strip_sign_erasure(expr):
    '''(inner expression, erased?)'''
    erased = False
    while True:
        if isinstance(expr, ast.Call) and call_name(expr) in SIGN_ERASERS \
                and len(expr.args) == 1:
            expr = expr.args[0]
            erased = True
            continue
        if isinstance(expr, ast.BinOp) and isinstance(expr.op, ast.Pow) and \
                isinstance(expr.right, ast.Constant) and \
                expr.right.value in (2, 2.0):
            expr = expr.left
            erased = True
            continue
        return expr, erased


def order_table(expr, role):
    '''Truth value of `expr` for each ordering of subject vs bound, or None
    when the expression is outside the understood forms.  role(e) returns
    "subject", "bound" or None for an operand.'''
    if isinstance(expr, ast.UnaryOp) and isinstance(expr.op, (ast.Not,
                                                              ast.Invert)):
        inner = order_table(expr.operand, role)
        return None if inner is None else {k: not v for k, v in inner.items()}
    if isinstance(expr, ast.Call):
        cname = call_name(expr)
        if cname in ('logical_not', 'invert') and len(expr.args) == 1:
            inner = order_table(expr.args[0], role)
            return None if inner is None else {k: not v
                                               for k, v in inner.items()}
        if cname == 'bool' and len(expr.args) == 1:
            return order_table(expr.args[0], role)
        if cname in _NPCMP and len(expr.args) == 2:
            return _cmp_table(expr.args[0], _NPCMP[cname], expr.args[1], role)
        return None
    if isinstance(expr, ast.Compare) and len(expr.ops) == 1:
        return _cmp_table(expr.left, type(expr.ops[0]), expr.comparators[0],
                          role)
    return None


def _cmp_table(left, opcls, right, role):
    if opcls not in _CMP:
        return None
    lrole, rrole = role(left), role(right)
    true_rows = _CMP[opcls]
    if lrole == 'subject' and rrole == 'bound':
        return {row: row in true_rows for row in ROWS}
    if lrole == 'bound' and rrole == 'subject':
        return {row: _MIRROR[row] in true_rows for row in ROWS}
    return None


def fmt_table(table):
    return {k: ('T' if v else 'F') for k, v in table.items()} \
        if table else None


def _root_name(expr):
    while True:
        if isinstance(expr, (ast.Subscript, ast.Attribute)):
            expr = expr.value
        elif isinstance(expr, ast.Call) and isinstance(expr.func,
                                                       ast.Attribute):
            expr = expr.func.value      # x.ravel()[i] = v writes into x
        else:
            break
    return expr if isinstance(expr, ast.Name) else None


def derived_names(func_node, seeds, through_calls=True):
    '''Names whose value derives from the seed names (assignments, loop
    targets, comprehension targets, append), flow-insensitive closure.'''
    derived = set(seeds)
    changed = True
    while changed:
        changed = False
        for node in ast.walk(func_node):
            src = None
            targets = []
            if isinstance(node, ast.Assign):
                src, targets = node.value, [
                    t if not isinstance(t, ast.Subscript) else
                    _root_name(t) or ast.Tuple(elts=[], ctx=ast.Store())
                    for t in node.targets]
            elif isinstance(node, ast.AugAssign):
                src, targets = node.value, [node.target]
            elif isinstance(node, (ast.For, ast.comprehension)):
                src, targets = node.iter, [node.target]
            elif isinstance(node, ast.Call) and call_name(node) in (
                    'append', 'extend', 'add', 'insert', 'update',
                    'setdefault') and receiver(node) is not None and \
                    node.args:
                # d[k].append(x): the container d now depends on x
                root = receiver(node)
                while isinstance(root, (ast.Subscript, ast.Attribute)):
                    root = root.value
                if isinstance(root, ast.Name):
                    src, targets = node.args[-1], [root]
            if src is None:
                continue
            if names_loaded(src) & derived or any(
                    dotted(n) in derived for n in ast.walk(src)
                    if isinstance(n, ast.Attribute)):
                for tgt in targets:
                    for nam in ast.walk(tgt):
                        if isinstance(nam, ast.Name) and \
                                nam.id not in derived:
                            derived.add(nam.id)
                            changed = True
    return derived


def mentions(expr, names, attrs=()):
    '''Does the expression load one of the names / dotted attributes?'''
    for node in ast.walk(expr):
        if isinstance(node, ast.Name) and node.id in names:
            return True
        if isinstance(node, ast.Attribute) and dotted(node) in attrs:
            return True
    return False


# ------------------------------------------------------- aggregation ---

def aggregation(expr, is_atom, depth=0):
    '''Canonical form of a verdict expression: (quantifier, polarity) with
    quantifier in {"forall", "exists", "scalar"} and polarity +1/-1 of the
    atom, or None.  is_atom(e) says whether e is the per-bin atom (a call of
    the accept function, the rejected array, ...).'''
    if is_atom(expr):
        return ('scalar', +1)
    if isinstance(expr, ast.UnaryOp) and isinstance(expr.op, (ast.Not,
                                                              ast.Invert)):
        inner = aggregation(expr.operand, is_atom, depth + 1)
        if inner is None:
            return None
        quant, pol = inner
        flip = {'forall': 'exists', 'exists': 'forall', 'scalar': 'scalar'}
        return (flip[quant], -pol)
    if isinstance(expr, ast.Call):
        cname = call_name(expr)
        recv = receiver(expr)
        if cname == 'bool' and len(expr.args) == 1:
            return aggregation(expr.args[0], is_atom, depth + 1)
        if cname in ('all', 'any', 'alltrue', 'sometrue'):
            arg = expr.args[0] if expr.args else recv
            if arg is None:
                return None
            if isinstance(arg, (ast.GeneratorExp, ast.ListComp)):
                arg = arg.elt
            inner = aggregation(arg, is_atom, depth + 1)
            if inner is None:
                return None
            quant, pol = inner
            mine = 'forall' if cname in ('all', 'alltrue') else 'exists'
            if quant in ('scalar', mine):
                return (mine, pol)
            return ('mixed', pol)
        if cname == 'logical_not' and len(expr.args) == 1:
            return aggregation(ast.UnaryOp(op=ast.Not(),
                                           operand=expr.args[0]),
                               is_atom, depth + 1)
    if isinstance(expr, ast.BoolOp):
        parts = [aggregation(v, is_atom, depth + 1) for v in expr.values]
        parts = [p for p in parts if p is not None]
        if not parts:
            return None
        mine = 'forall' if isinstance(expr.op, ast.And) else 'exists'
        pols = {p[1] for p in parts}
        quants = {p[0] for p in parts} - {'scalar'}
        if len(pols) == 1 and quants <= {mine}:
            return (mine, pols.pop())
        return ('mixed', +1)
    return None


def nan_unsafe_extremum(func_node, expr, depth=0):
    '''The Python builtins min() / max() (and the numpy nan* variants) over
    the per-bin / per-dataset values: a NaN is skipped or kept depending on
    its POSITION (min([0.9, nan]) == 0.9, min([nan, 0.9]) is nan), so an
    undefined statistic may silently pass.  Returns the offending call or
    None.  Names are followed through the local assignments.'''
    if depth > 3 or expr is None:
        return None
    for node in ast.walk(expr):
        if isinstance(node, ast.Call):
            if isinstance(node.func, ast.Name) and node.func.id in (
                    'min', 'max') and node.args and not all(
                        isinstance(a, ast.Constant) for a in node.args):
                return node
            if isinstance(node.func, ast.Attribute) and node.func.attr in (
                    'nanmin', 'nanmax', 'nanargmin', 'nanargmax', 'nansum',
                    'nanmean', 'fmin', 'fmax'):
                return node
        if isinstance(node, ast.Name) and isinstance(node.ctx, ast.Load):
            for sub in walk_local(func_node):
                if isinstance(sub, ast.Assign) and any(
                        isinstance(t, ast.Name) and t.id == node.id
                        for t in sub.targets):
                    found = nan_unsafe_extremum(func_node, sub.value,
                                                depth + 1)
                    if found is not None:
                        return found
    return None


def guard_chain(parents, node, stop):
    '''[(test, polarity)] of the `if` statements enclosing node (up to the
    node `stop`), innermost first; polarity False for an else branch.'''
    chain = []
    cur = node
    while True:
        par = parents.get(id(cur))
        if par is None or par is stop:
            return chain
        if isinstance(par, ast.If) and cur is not par.test:
            chain.append((par.test, any(cur is s for s in par.body)))
        cur = par


def _terminates(body):
    '''Every path through the block ends in return / raise / continue /
    break (syntactic, conservative: False when unsure).'''
    if not body:
        return False
    last = body[-1]
    if isinstance(last, (ast.Return, ast.Raise, ast.Continue, ast.Break)):
        return True
    if isinstance(last, ast.If):
        return _terminates(last.body) and _terminates(last.orelse)
    return False


def path_condition(func_node, node):
    '''[(test, polarity)] known to hold when `node` is evaluated: the
    enclosing `if`s plus, in every enclosing block, the earlier sibling `if`s
    one branch of which always leaves (early return / raise).'''
    parents = enclosing_chain(func_node)
    conds = []
    cur = node
    while True:
        par = parents.get(id(cur))
        if par is None:
            return conds
        if isinstance(par, ast.IfExp) and cur is not par.test:
            conds.append((par.test, cur is par.body))
        if isinstance(par, ast.If) and cur is not par.test:
            conds.append((par.test, any(cur is s for s in par.body)))
        for fld in ('body', 'orelse', 'finalbody'):
            block = getattr(par, fld, None)
            if isinstance(block, list) and any(cur is s for s in block):
                for prev in block:
                    if prev is cur:
                        break
                    if isinstance(prev, ast.If):
                        if _terminates(prev.body) and not _terminates(
                                prev.orelse):
                            conds.append((prev.test, False))
                        elif _terminates(prev.orelse) and not _terminates(
                                prev.body):
                            conds.append((prev.test, True))
        if par is func_node:
            return conds
        cur = par


def implies_is_none(test, pol, names):
    '''Does (test == pol) imply that one of the dotted `names` is None?'''
    if isinstance(test, ast.UnaryOp) and isinstance(test.op, ast.Not):
        return implies_is_none(test.operand, not pol, names)
    if isinstance(test, ast.Compare) and len(test.ops) == 1 and isinstance(
            test.comparators[0], ast.Constant) and \
            test.comparators[0].value is None and \
            dotted(test.left) in names:
        return isinstance(test.ops[0], ast.Is) if pol else \
            isinstance(test.ops[0], ast.IsNot)
    if isinstance(test, ast.BoolOp):
        if isinstance(test.op, ast.And) and pol:
            return any(implies_is_none(v, True, names) for v in test.values)
        if isinstance(test.op, ast.Or) and not pol:
            return any(implies_is_none(v, False, names)
                       for v in test.values)
        if isinstance(test.op, ast.Or) and pol:
            return all(implies_is_none(v, True, names) for v in test.values)
        if isinstance(test.op, ast.And) and not pol:
            return all(implies_is_none(v, False, names)
                       for v in test.values)
    return False


def early_exit_form(func_node, is_atom):
    '''The early-exit spelling of a quantifier:

        for x in data:            (any nesting of loops / type dispatch)
            if <T>: return False
        return True

    is  for-all x: not T.  Returns {id(return node): form} for the constant
    returns of such a function, {} when the function is not of that shape.
    An early exit whose guards contain no recognised atom makes the whole
    form unknown (None).'''
    body = [s for s in func_node.body
            if not (isinstance(s, ast.Expr) and
                    isinstance(s.value, ast.Constant))]
    if not body or not isinstance(body[-1], ast.Return) or not isinstance(
            body[-1].value, ast.Constant) or not isinstance(
                body[-1].value.value, bool):
        return {}
    final = body[-1]
    default = final.value.value
    rets = [n for n in walk_local(func_node) if isinstance(n, ast.Return)
            and n is not final]
    if not rets or not all(
            isinstance(r.value, ast.Constant) and
            r.value.value is (not default) for r in rets):
        return {}
    parents = enclosing_chain(func_node)
    forms = []
    for ret in rets:
        chain = guard_chain(parents, ret, func_node)
        known = []
        for test, pol in chain:
            expr = test if pol else ast.UnaryOp(op=ast.Not(), operand=test)
            form = aggregation(expr, is_atom)
            if form is not None:
                known.append(form)
        if not known:
            forms.append(None)
            continue
        # the exit is taken when every recognised guard holds
        if len(known) == 1:
            taken = known[0]
        else:
            pols = {f[1] for f in known}
            quants = {f[0] for f in known} - {'scalar'}
            taken = ('forall', pols.pop()) if len(pols) == 1 and \
                quants <= {'forall'} else ('mixed', +1)
        forms.append(taken)
    if any(f is None for f in forms):
        result = None
    else:
        flip = {'forall': 'exists', 'exists': 'forall', 'scalar': 'scalar',
                'mixed': 'mixed'}
        per_exit = []
        for quant, pol in forms:
            # default True: verdict = for-all loop items: not taken
            # default False: verdict = exists a loop item: taken
            if default:
                quant, pol = flip[quant], -pol
                per_exit.append(('forall' if quant in ('forall', 'scalar')
                                 else 'mixed', pol))
            else:
                per_exit.append(('exists' if quant in ('exists', 'scalar')
                                 else 'mixed', pol))
        bad = [f for f in per_exit if f != per_exit[0]]
        result = per_exit[0] if not bad else ('mixed', per_exit[0][1])
    out = {id(r): result for r in rets}
    out[id(final)] = result
    return out


def accumulator_form(func_node, is_atom, resolve=None):
    '''Verdict of a method body.  Handles `return <expr>` and the
    accumulator idiom  acc = True; for ..: acc = acc and X; return acc.
    Returns list of (return node, (quant, pol) or None).'''
    out = []
    inits, updates = {}, {}
    for node in walk_local(func_node):
        if isinstance(node, ast.Assign) and len(node.targets) == 1 and \
                isinstance(node.targets[0], ast.Name):
            name = node.targets[0].id
            if isinstance(node.value, ast.Constant) and isinstance(
                    node.value.value, bool):
                inits.setdefault(name, []).append(node.value.value)
            elif isinstance(node.value, ast.BoolOp) and any(
                    isinstance(v, ast.Name) and v.id == name
                    for v in node.value.values):
                updates.setdefault(name, []).append(node.value)
            else:
                updates.setdefault(name, []).append(node.value)
    early = early_exit_form(func_node, is_atom)
    for node in walk_local(func_node):
        if not isinstance(node, ast.Return) or node.value is None:
            continue
        val = node.value
        if id(node) in early:
            out.append((node, early[id(node)]))
            continue
        unsafe = nan_unsafe_extremum(func_node, val)
        if unsafe is not None:
            out.append((node, ('nan-unsafe:' + txt(unsafe)[:50], +1)))
            continue
        if isinstance(val, ast.Name) and val.id in inits and \
                val.id in updates:
            name = val.id
            forms = []
            for upd in updates[name]:
                if isinstance(upd, ast.BoolOp):
                    rest = [v for v in upd.values
                            if not (isinstance(v, ast.Name) and
                                    v.id == name)]
                    inner = aggregation(
                        rest[0] if len(rest) == 1 else
                        ast.BoolOp(op=upd.op, values=rest), is_atom)
                    if inner is None:
                        forms.append(None)
                        continue
                    quant, pol = inner
                    if isinstance(upd.op, ast.And) and inits[name] == [True]:
                        forms.append(('forall' if quant in ('forall',
                                                            'scalar')
                                      else 'mixed', pol))
                    elif isinstance(upd.op, ast.Or) and \
                            inits[name] == [False]:
                        forms.append(('exists' if quant in ('exists',
                                                            'scalar')
                                      else 'mixed', pol))
                    else:
                        forms.append(('mixed', pol))
                else:
                    forms.append(None)
            known = [f for f in forms if f is not None]
            if forms and all(f == forms[0] for f in forms):
                out.append((node, forms[0]))
            elif known and len({f for f in known}) > 1:
                # updates that aggregate differently (e.g. one branch
                # for-all, the other exists) do not form one quantifier
                out.append((node, ('mixed', known[0][1])))
            elif any(f[0] in ('mixed', 'exists') or f[1] < 0
                     for f in known):
                bad = next(f for f in known if f[0] in ('mixed', 'exists')
                           or f[1] < 0)
                out.append((node, bad))
            else:
                out.append((node, None))
            continue
        out.append((node, aggregation(val, is_atom)))
    return out


# -------------------------------------------------- distribution calls ---

def halved(expr, alpha_names):
    '''alpha/2 forms: 0.5*alpha, alpha*0.5, alpha/2, 1-alpha/2.'''
    if isinstance(expr, ast.BinOp):
        if isinstance(expr.op, ast.Mult):
            for a, b in ((expr.left, expr.right), (expr.right, expr.left)):
                if isinstance(a, ast.Constant) and a.value == 0.5 and \
                        mentions(b, alpha_names):
                    return True
        if isinstance(expr.op, ast.Div) and isinstance(
                expr.right, ast.Constant) and expr.right.value in (2, 2.0) \
                and mentions(expr.left, alpha_names):
            return True
        if isinstance(expr.op, ast.Sub) and isinstance(
                expr.left, ast.Constant) and expr.left.value in (1, 1.0):
            return halved(expr.right, alpha_names)
    return False


def plain_alpha(expr, alpha_names):
    if isinstance(expr, ast.Name) and expr.id in alpha_names:
        return True
    if isinstance(expr, ast.Attribute) and dotted(expr) in alpha_names:
        return True
    if isinstance(expr, ast.BinOp) and isinstance(expr.op, ast.Sub) and \
            isinstance(expr.left, ast.Constant) and \
            expr.left.value in (1, 1.0):
        return plain_alpha(expr.right, alpha_names)
    return False


def doubled(expr):
    '''2*X or X*2 or X+X: returns X else None.'''
    if isinstance(expr, ast.BinOp) and isinstance(expr.op, ast.Mult):
        for a, b in ((expr.left, expr.right), (expr.right, expr.left)):
            if isinstance(a, ast.Constant) and a.value in (2, 2.0):
                return b
    return None


# --------------------------------------------------------- linear forms ---

def linear(expr, sym):
    '''Integer-linear normal form {symbol: coeff, 1: const} or None.
    sym(e) maps a leaf expression to a symbol name or None.'''
    name = sym(expr)
    if name is not None:
        return {name: 1}
    if isinstance(expr, ast.Constant) and isinstance(expr.value, (int,
                                                                  float)) \
            and not isinstance(expr.value, bool):
        return {1: expr.value}
    if isinstance(expr, ast.UnaryOp) and isinstance(expr.op, ast.USub):
        inner = linear(expr.operand, sym)
        return None if inner is None else {k: -v for k, v in inner.items()}
    if isinstance(expr, ast.BinOp) and isinstance(expr.op, (ast.Add,
                                                            ast.Sub)):
        left, right = linear(expr.left, sym), linear(expr.right, sym)
        if left is None or right is None:
            return None
        out = dict(left)
        sign = 1 if isinstance(expr.op, ast.Add) else -1
        for key, val in right.items():
            out[key] = out.get(key, 0) + sign * val
        return {k: v for k, v in out.items() if v != 0}
    if isinstance(expr, ast.BinOp) and isinstance(expr.op, ast.Mult):
        left, right = linear(expr.left, sym), linear(expr.right, sym)
        if left is None or right is None:
            return None
        for const, other in ((left, right), (right, left)):
            if set(const) <= {1}:
                fac = const.get(1, 0)
                return {k: v * fac for k, v in other.items() if v * fac}
        return None
    return None
