'''C18 - diagnostic statistics: CLS-ONCE, CLS-KEY, VERDICT-KEYS, LABEL-EXCL,
COUNT-SHAPE.

All rules work on gavroche/diagnostics/stats.py.  Sites are found by query:
an `evaluate` method (or a helper it calls) that fills a collection inside a
per-item loop and hands the collection to a TestResult constructor.
'''
import ast

from ..astutil import txt, call_name, receiver, walk_local, enum_member
from ..loader import AnalysisError

MOD = 'valjean.gavroche.diagnostics.stats'

# success member per result class: "a summary is successful exactly when
# everything it observed succeeded" - DONE for tasks, SUCCESS for tests.
SUCCESS_MEMBER = {
    'TestResultStatsTasks': ('TaskStatus', 'DONE'),
    'TestResultStatsTests': ('TestOutcome', 'SUCCESS'),
}


# ---------------------------------------------------------------- helpers --

def _collection_var(func):
    '''Name of the local collection that the function hands over: the value
    of `classify=` in a returned constructor call, or a returned Name.'''
    for node in walk_local(func.node):
        if isinstance(node, ast.Return) and node.value is not None:
            val = node.value
            if isinstance(val, ast.Call):
                for kwd in val.keywords:
                    if kwd.arg == 'classify' and isinstance(kwd.value,
                                                            ast.Name):
                        return kwd.value.id
            if isinstance(val, ast.Name):
                return val.id
    return None


def _aliases(func, coll):
    '''Local names bound to `coll[...]` (e.g. test_lst = status_dict[K]).'''
    out = {}
    for node in walk_local(func.node):
        if isinstance(node, ast.Assign) and len(node.targets) == 1 and \
                isinstance(node.targets[0], ast.Name) and \
                isinstance(node.value, ast.Subscript) and \
                isinstance(node.value.value, ast.Name) and \
                node.value.value.id == coll:
            out.setdefault(node.targets[0].id, []).append(node.value.slice)
    return out


def _is_classification(node, coll, aliases):
    '''`coll[K].append(x)`, `alias.append(x)`, `coll.append(x)`,
    `coll[K] += [x]`, `coll.setdefault(K, []).append(x)`.'''
    if isinstance(node, ast.Call) and call_name(node) in ('append', 'add',
                                                          'extend'):
        recv = receiver(node)
        if isinstance(recv, ast.Subscript) and isinstance(
                recv.value, ast.Name) and recv.value.id == coll:
            return True
        if isinstance(recv, ast.Name) and (recv.id in aliases or
                                           recv.id == coll):
            return True
        if isinstance(recv, ast.Call) and call_name(recv) == 'setdefault' \
                and isinstance(receiver(recv), ast.Name) and \
                receiver(recv).id == coll:
            return True
    return False


def _count_stmt(stmt, coll, aliases):
    n = 0
    for node in walk_local(stmt):
        if _is_classification(node, coll, aliases):
            n += 1
    if isinstance(stmt, ast.AugAssign) and isinstance(
            stmt.target, ast.Subscript) and isinstance(
                stmt.target.value, ast.Name) and \
            stmt.target.value.id == coll:
        n += 1
    return n


CAP = 3


def _block_outcomes(stmts, coll, aliases):
    '''Syntax-directed path summary of a block: set of
    (appends, inner_loops, exit, trail) with exit in {fall, continue, break,
    return, raise}; trail = tuple of branch descriptions.'''
    states = {(0, 0, 'fall', ())}
    for stmt in stmts:
        new = set()
        for cnt, loops, how, trail in states:
            if how != 'fall':
                new.add((cnt, loops, how, trail))
                continue
            for dcnt, dloops, dhow, dtrail in _stmt_outcomes(stmt, coll,
                                                             aliases):
                new.add((min(cnt + dcnt, CAP), min(loops + dloops, CAP),
                         dhow, trail + dtrail))
        states = new
        if len(states) > 4000:
            raise OverflowError('too many paths')
    return states


def _stmt_outcomes(stmt, coll, aliases):
    if isinstance(stmt, ast.If):
        cond = txt(stmt.test)
        cond = cond if len(cond) <= 50 else cond[:47] + '...'
        out = set()
        for cnt, loops, how, trail in _block_outcomes(stmt.body, coll,
                                                      aliases):
            out.add((cnt, loops, how, ((cond, True),) + trail))
        for cnt, loops, how, trail in _block_outcomes(stmt.orelse, coll,
                                                      aliases):
            out.add((cnt, loops, how, ((cond, False),) + trail))
        return out
    if isinstance(stmt, (ast.For, ast.While)):
        has = any(_count_stmt(s, coll, aliases)
                  for s in ast.walk(stmt) if isinstance(s, ast.stmt))
        if has:
            return {(0, 1, 'fall', ())}
        return {(0, 0, 'fall', ())}
    if isinstance(stmt, ast.Continue):
        return {(0, 0, 'continue', ())}
    if isinstance(stmt, ast.Break):
        return {(0, 0, 'break', ())}
    if isinstance(stmt, ast.Return):
        return {(0, 0, 'return', ())}
    if isinstance(stmt, ast.Raise):
        return {(0, 0, 'raise', ())}
    if isinstance(stmt, ast.Try):
        # body (+ else) normally; each handler as an alternative path that
        # starts from the beginning of the try (over-approximation: the
        # appends of the partially executed body are not added)
        out = set()
        body = _block_outcomes(stmt.body + stmt.orelse, coll, aliases)
        for item in body:
            out.add(item)
        for idx, hdl in enumerate(stmt.handlers):
            for cnt, loops, how, trail in _block_outcomes(hdl.body, coll,
                                                          aliases):
                out.add((cnt, loops, how,
                         ((f'except#{idx}', True),) + trail))
        if stmt.finalbody:
            fin = _block_outcomes(stmt.finalbody, coll, aliases)
            new = set()
            for cnt, loops, how, trail in out:
                for fcnt, floops, fhow, ftrail in fin:
                    new.add((min(cnt + fcnt, CAP), min(loops + floops, CAP),
                             how if fhow == 'fall' else fhow,
                             trail + ftrail))
            out = new
        return out
    if isinstance(stmt, ast.With):
        return _block_outcomes(stmt.body, coll, aliases)
    if isinstance(stmt, (ast.FunctionDef, ast.AsyncFunctionDef,
                         ast.ClassDef)):
        return {(0, 0, 'fall', ())}
    return {(_count_stmt(stmt, coll, aliases), 0, 'fall', ())}


def _trail_text(trail):
    if not trail:
        return 'straight-line'
    return ' -> '.join(f'[{cond}]={"T" if pol else "F"}'
                       for cond, pol in trail)


def _item_loops(func, coll, aliases):
    '''Outermost loops of the function whose body (recursively) contains a
    classification.'''
    out = []

    def visit(stmts):
        for stmt in stmts:
            if isinstance(stmt, (ast.For, ast.While)):
                if any(_count_stmt(s, coll, aliases) for s in ast.walk(stmt)
                       if isinstance(s, ast.stmt)):
                    out.append(stmt)
                    continue
            for fld in ('body', 'orelse', 'finalbody'):
                sub = getattr(stmt, fld, None)
                if isinstance(sub, list) and not isinstance(
                        stmt, (ast.FunctionDef, ast.ClassDef)):
                    visit(sub)
            for hdl in getattr(stmt, 'handlers', []) or []:
                visit(hdl.body)
    visit(func.node.body)
    return out


def classification_sites(program):
    '''[(FuncInfo, collection var)]: the functions of the stats module that
    fill a collection in a per-item loop for a result.'''
    mod = program.module(MOD)
    sites = []
    for func in mod.functions.values():
        if func.cls is None or func.name not in ('evaluate',
                                                 '_build_labels_lod'):
            continue
        coll = _collection_var(func)
        if coll is None:
            continue
        aliases = _aliases(func, coll)
        loops = _item_loops(func, coll, aliases)
        if loops:
            sites.append((func, coll, aliases, loops))
    return sites


# --------------------------------------------------------------- CLS-ONCE --

def check_cls_once(ctx):
    sites = classification_sites(ctx.program)
    ctx.floor('CLS-ONCE', len(sites), 3,
              'methods filling a classification in a per-item loop')
    for func, coll, aliases, loops in sites:
        for loop in loops:
            _check_loop(ctx, func, coll, aliases, loop, depth=0)


def _loop_text(loop):
    if isinstance(loop, ast.For):
        return f'for {txt(loop.target)} in {txt(loop.iter)}'
    return f'while {txt(loop.test)}'


def _check_loop(ctx, func, coll, aliases, loop, depth):
    '''Every path through one iteration: exactly one classification and no
    inner classifying loop, or none and exactly one inner classifying loop
    (which is checked recursively).'''
    ltxt = _loop_text(loop)
    try:
        outcomes = _block_outcomes(loop.body, coll, aliases)
    except OverflowError:
        ctx.undecided('CLS-ONCE', func, f'{ltxt}: too many paths',
                      at=func.where(loop))
        return
    ctx.count('cfg_paths', len(outcomes))
    bad = []
    for cnt, loops, how, trail in sorted(outcomes, key=repr):
        if how == 'raise':
            continue
        if how in ('break', 'return') and (cnt, loops) == (0, 0):
            bad.append((cnt, loops, how, trail, 'leaves the loop without '
                        'classifying the item (later items are dropped)'))
            continue
        if how in ('break', 'return'):
            bad.append((cnt, loops, how, trail, 'classifies the item and '
                        'leaves the loop: later items are dropped'))
            continue
        if (cnt, loops) in ((1, 0), (0, 1)):
            continue
        if (cnt, loops) == (0, 0) and how == 'continue' and \
                func.name == '_build_labels_lod' and any(
                    pol and cond.replace('"', "'").startswith(
                        "'result' not in ") for cond, pol in trail):
            # the label list counts RESULTS ("successes plus failures equal
            # the number of results carrying the requested labels"): a task
            # without results contributes no result and is skipped
            continue
        if (cnt, loops) == (0, 0):
            why = 'does not classify the item at all'
        elif cnt >= 2 and loops == 0:
            why = f'classifies the item {cnt}{"+" if cnt >= CAP else ""} ' \
                  f'times'
        else:
            why = f'classifies the item {cnt} time(s) and also delegates ' \
                  f'to {loops} inner loop(s)'
        bad.append((cnt, loops, how, trail, why))
    if not bad:
        ctx.holds('CLS-ONCE', func, f'{ltxt}: every path of an iteration '
                  f'classifies the item exactly once',
                  at=func.where(loop),
                  detail={'paths': len(outcomes), 'collection': coll})
    for cnt, loops, how, trail, why in bad:
        ctx.violated('CLS-ONCE', func,
                     f'{ltxt}: path {_trail_text(trail)} {why}',
                     at=func.where(loop),
                     detail={'appends': cnt, 'inner_loops': loops,
                             'exit': how, 'collection': coll})
    # recurse into inner classifying loops
    if depth < 3:
        for stmt in _direct_inner_loops(loop.body):
            if any(_count_stmt(s, coll, aliases) for s in ast.walk(stmt)
                   if isinstance(s, ast.stmt)):
                _check_loop(ctx, func, coll, aliases, stmt, depth + 1)


def _direct_inner_loops(stmts):
    for stmt in stmts:
        if isinstance(stmt, (ast.For, ast.While)):
            yield stmt
            continue
        if isinstance(stmt, (ast.FunctionDef, ast.ClassDef)):
            continue
        for fld in ('body', 'orelse', 'finalbody'):
            sub = getattr(stmt, fld, None)
            if isinstance(sub, list):
                yield from _direct_inner_loops(sub)
        for hdl in getattr(stmt, 'handlers', []) or []:
            yield from _direct_inner_loops(hdl.body)


# ---------------------------------------------------------------- CLS-KEY --

def check_cls_key(ctx):
    '''The key under which an item is classified is the status the item
    carries (tasks), resp. follows the item's verdict with the right
    polarity (tests); tasks without results go to MISSING.'''
    program = ctx.program
    found = 0
    # (a) tasks: key = <item>['status'] with <item> the loop variable
    func = program.func(f'{MOD}:TestStatsTasks.evaluate')
    coll = _collection_var(func)
    for loop in _item_loops(func, coll, _aliases(func, coll)):
        loopvars = {n.id for n in ast.walk(loop.target)
                    if isinstance(n, ast.Name)}
        for node in walk_local(loop):
            if _is_classification(node, coll, {}) and isinstance(
                    receiver(node), ast.Subscript):
                key = receiver(node).slice
                found += 1
                good = isinstance(key, ast.Subscript) and isinstance(
                    key.value, ast.Name) and key.value.id in loopvars and \
                    isinstance(key.slice, ast.Constant) and \
                    key.slice.value == 'status'
                ctx.decide('CLS-KEY', func,
                           f'task classified under {txt(key)}',
                           True if good else None if isinstance(
                               key, ast.Name) else False,
                           at=func.where(node),
                           detail='the status the task ended with is the '
                                  "'status' entry of that task's own result")
    # (b) tests: SUCCESS on the true branch of the verdict test, FAILURE on
    # the false one; MISSING on the true branch of `'result' not in`
    for key_ in (f'{MOD}:TestStatsTests.evaluate',
                 f'{MOD}:TestStatsTestsByLabels._build_labels_lod'):
        func = program.func(key_)
        for node in walk_local(func.node):
            if isinstance(node, ast.IfExp):
                # SUCCESS if <verdict> else FAILURE
                test = node.test
                tru = _outcomes_in([ast.Expr(value=node.body)])
                fal = _outcomes_in([ast.Expr(value=node.orelse)])
            elif isinstance(node, ast.If):
                test = node.test
                tru = _outcomes_in(node.body)
                fal = _outcomes_in(node.orelse)
                # the presence test of the 'result' entry is judged below
                if any(isinstance(c, ast.Constant) and c.value == 'result'
                       for c in ast.walk(test)):
                    continue
                # an outer test whose branch holds the verdict test itself
                if any(isinstance(sub, (ast.If, ast.IfExp)) and
                       sub is not node and {'SUCCESS', 'FAILURE'} <=
                       _outcomes_in([sub]) for sub in ast.walk(node)):
                    continue
            else:
                continue
            if not (tru | fal) & {'SUCCESS', 'FAILURE'}:
                continue
            found += 1
            pol = _verdict_polarity(test, func)
            if pol is None:
                ctx.undecided('CLS-KEY', func,
                              f'if {txt(test)}: outcome assignment',
                              at=func.where(node))
                continue
            want_true = {'SUCCESS'} if pol else {'FAILURE'}
            want_false = {'FAILURE'} if pol else {'SUCCESS'}
            ctx.decide('CLS-KEY', func,
                       f'if {txt(test)}: {sorted(tru)} else {sorted(fal)}',
                       tru == want_true and fal == want_false,
                       at=func.where(node),
                       detail='a result is a success exactly when its '
                              'verdict is true; both branches assign, with '
                              'distinct outcomes')
    func = program.func(f'{MOD}:TestStatsTests.evaluate')
    for node in walk_local(func.node):
        if isinstance(node, ast.If) and 'MISSING' in _outcomes_in(node.body) \
                | _outcomes_in(node.orelse):
            found += 1
            test = node.test
            absent = None
            if isinstance(test, ast.Compare) and len(test.ops) == 1 and \
                    isinstance(test.left, ast.Constant) and \
                    test.left.value == 'result':
                if isinstance(test.ops[0], ast.NotIn):
                    absent = True
                elif isinstance(test.ops[0], ast.In):
                    absent = False
            if absent is None:
                ctx.undecided('CLS-KEY', func, f'if {txt(test)}: MISSING',
                              at=func.where(node))
            else:
                branch = node.body if absent else node.orelse
                other = node.orelse if absent else node.body
                ctx.decide('CLS-KEY', func,
                           f'if {txt(test)}: MISSING for tasks without '
                           f'results',
                           'MISSING' in _outcomes_in(branch) and
                           'MISSING' not in _outcomes_in(other),
                           at=func.where(node))
    ctx.floor('CLS-KEY', found, 4, 'classification key sites')


def _outcomes_in(stmts):
    out = set()
    for stmt in stmts:
        for node in ast.walk(stmt):
            mem = enum_member(node, 'TestOutcome')
            if mem:
                out.add(mem)
    return out


def _verdict_polarity(test, func):
    '''True if the test is the truth value of the loop item (a result),
    False if its negation, None otherwise.'''
    if isinstance(test, ast.Name):
        return True
    if isinstance(test, ast.Call) and call_name(test) == 'bool' and \
            len(test.args) == 1 and isinstance(test.args[0], ast.Name):
        return True
    if isinstance(test, ast.UnaryOp) and isinstance(test.op, ast.Not):
        inner = _verdict_polarity(test.operand, func)
        return None if inner is None else not inner
    return None


# ----------------------------------------------------------- VERDICT-KEYS --

def _eval_verdict(expr, cell, member):
    '''Three-valued evaluation of a __bool__ expression over one cell
    (success_present, other_present) of the classification's key set.
    Returns True / False / None (unknown).'''
    sp, nother = cell            # nother in (0, 1, 2) ; 2 = two or more
    op = nother > 0
    if isinstance(expr, ast.BoolOp):
        vals = [_eval_verdict(v, cell, member) for v in expr.values]
        if isinstance(expr.op, ast.And):
            if any(v is False for v in vals):
                return False
            return True if all(v is True for v in vals) else None
        if any(v is True for v in vals):
            return True
        return False if all(v is False for v in vals) else None
    if isinstance(expr, ast.UnaryOp) and isinstance(expr.op, ast.Not):
        val = _eval_verdict(expr.operand, cell, member)
        return None if val is None else not val
    if isinstance(expr, ast.Compare) and len(expr.ops) == 1:
        left, oper, right = expr.left, expr.ops[0], expr.comparators[0]
        # MEMBER in self.classify
        if isinstance(oper, (ast.In, ast.NotIn)) and \
                txt(right) == 'self.classify':
            mem = _member_of(left)
            if mem is None:
                return None
            present = sp if mem == member else (None if op else False)
            if present is None:
                return None
            return present if isinstance(oper, ast.In) else not present
        # len(self.classify) <op> N
        if isinstance(left, ast.Call) and call_name(left) == 'len' and \
                left.args and txt(left.args[0]) == 'self.classify' and \
                isinstance(right, ast.Constant) and isinstance(
                    right.value, int):
            lo = int(sp) + nother            # at least
            exact = nother < 2               # 2 = two or more other keys
            return _cmp_len(lo, exact, oper, right.value)
        # set(self.classify) == {MEMBER} / self.classify.keys() == {MEMBER}
        if isinstance(oper, (ast.Eq, ast.NotEq)) and isinstance(
                right, ast.Set) and len(right.elts) == 1 and \
                _member_of(right.elts[0]) == member and \
                txt(left) in ('set(self.classify)', 'self.classify.keys()',
                              'set(self.classify.keys())'):
            val = sp and not op
            return val if isinstance(oper, ast.Eq) else not val
    if isinstance(expr, ast.Call) and call_name(expr) == 'all' and \
            expr.args and isinstance(expr.args[0], ast.GeneratorExp):
        gen = expr.args[0]
        if len(gen.generators) == 1 and txt(gen.generators[0].iter) in (
                'self.classify', 'self.classify.keys()') and isinstance(
                    gen.elt, ast.Compare) and len(gen.elt.ops) == 1 and \
                isinstance(gen.elt.ops[0], ast.Eq):
            mems = {_member_of(gen.elt.left),
                    _member_of(gen.elt.comparators[0])} - {None}
            if mems == {member}:
                return not op
    if isinstance(expr, ast.Call) and call_name(expr) == 'bool' and \
            len(expr.args) == 1:
        if txt(expr.args[0]) == 'self.classify':
            return bool(sp or op)
        return _eval_verdict(expr.args[0], cell, member)
    if txt(expr) == 'self.classify':
        return bool(sp or op)
    return None


def _cmp_len(lo, exact, oper, num):
    '''len >= lo (== lo if exact) compared with num.'''
    if exact:
        table = {ast.Eq: lo == num, ast.NotEq: lo != num, ast.Lt: lo < num,
                 ast.LtE: lo <= num, ast.Gt: lo > num, ast.GtE: lo >= num}
        return table.get(type(oper))
    # len in [lo, inf)
    if isinstance(oper, ast.Eq):
        return False if num < lo else None
    if isinstance(oper, ast.NotEq):
        return True if num < lo else None
    if isinstance(oper, ast.Lt):
        return False if lo >= num else None
    if isinstance(oper, ast.LtE):
        return False if lo > num else None
    if isinstance(oper, ast.Gt):
        return True if lo > num else None
    if isinstance(oper, ast.GtE):
        return True if lo >= num else None
    return None


def _member_of(expr):
    if isinstance(expr, ast.Attribute) and isinstance(
            expr.value, (ast.Name, ast.Attribute)):
        return expr.attr
    return None


ENUM_HOME = {'TaskStatus': 'valjean.cosette.task',
             'TestOutcome': MOD}


def check_verdict_keys(ctx):
    '''The verdict of the two key-set results, as a decision table over
    EVERY subset of statuses present in the classification (each present
    status holds at least one name): true exactly when the success status is
    the only one present.  The table is computed by the finite-domain
    evaluator sa/minieval.py from the source of __bool__ (helper methods
    inlined); the empty classification is not constrained.'''
    from itertools import combinations
    from ..minieval import MiniEval, Unknown, read_int_enum
    program = ctx.program
    found = 0
    for cname, (enum, member) in SUCCESS_MEMBER.items():
        cinfo = program.cls(f'{MOD}:{cname}')
        meth = program.find_method(cinfo, '__bool__')
        if meth is None:
            raise AnalysisError(f'VERDICT-KEYS: {cname}.__bool__ not found')
        members = read_int_enum(program, ENUM_HOME[enum], enum)
        if not members or member not in members:
            raise AnalysisError(f'VERDICT-KEYS: enum {enum} not readable')
        enums = {}
        for ename, home in ENUM_HOME.items():
            got = read_int_enum(program, home, ename)
            if got:
                enums[ename] = got
        found += 1
        # class-level constants read through `self` (a status the base
        # class method compares with, overridden in the sub-classes)
        consts = {}
        for klass in reversed(program.mro(cinfo)):
            for stmt in klass.node.body:
                if isinstance(stmt, ast.Assign) and len(
                        stmt.targets) == 1 and isinstance(
                            stmt.targets[0], ast.Name):
                    try:
                        consts[stmt.targets[0].id] = MiniEval(
                            enums, {}).ev(stmt.value, {})
                    except Unknown:
                        consts.pop(stmt.targets[0].id, None)
                    except Exception:   # pylint: disable=broad-except
                        consts.pop(stmt.targets[0].id, None)
        names = sorted(members, key=lambda n: members[n].value)
        wrong, unknown, n_states = [], [], 0
        for size in range(1, len(names) + 1):
            for present in combinations(names, size):
                n_states += 1
                classify = {members[n]: [f'item-{n}'] for n in present}
                evaluator = MiniEval(
                    enums, dict(consts, classify=classify),
                    lambda mname, cinfo=cinfo: program.find_method(cinfo,
                                                                   mname),
                    globals_fn=lambda name, mod=meth.module:
                    mod.toplevel.get(name) if isinstance(
                        mod.toplevel.get(name), ast.expr) else None)
                try:
                    got = evaluator.truth(evaluator.call_function(meth.node))
                except Unknown as err:
                    unknown.append((present, str(err)))
                    continue
                want = present == (member,)
                if got != want:
                    wrong.append((present, got))
        ctx.count('decision_table_rows', n_states)
        rets = [n for n in walk_local(meth.node) if isinstance(n, ast.Return)]
        shown = txt(rets[0].value) if len(rets) == 1 and rets[0].value \
            is not None else '__bool__'
        if wrong:
            cond = False
        elif unknown:
            cond = None
        else:
            cond = True
        ctx.decide('VERDICT-KEYS', meth,
                   f'{cname}: `{shown[:70]}` is true exactly when '
                   f'{enum}.{member} is the only status present '
                   f'({n_states} subsets)', cond, at=meth.where(),
                   detail={'wrong': [f'{list(p)} -> {g}'
                                     for p, g in wrong[:6]],
                           'undecided': [f'{list(p)}: {e}'
                                         for p, e in unknown[:3]],
                           'note': 'the empty classification is not '
                                   'constrained'})
    # ByLabels: all(oracles) and OK == total
    cinfo = program.cls(f'{MOD}:TestResultStatsTestsByLabels')
    meth = cinfo.methods.get('__bool__')
    orac = cinfo.methods.get('oracles')
    if meth is None or orac is None:
        raise AnalysisError('VERDICT-KEYS: ByLabels verdict not found')
    rets = [n for n in walk_local(meth.node) if isinstance(n, ast.Return)]
    if len(rets) == 1 and rets[0].value is not None:
        found += 1
        expr = rets[0].value
        good = isinstance(expr, ast.Call) and call_name(expr) in (
            'all',) and len(expr.args) == 1 and txt(expr.args[0]) in (
                'self.oracles()',)
        wrong = isinstance(expr, ast.Call) and call_name(expr) == 'any'
        ctx.decide('VERDICT-KEYS', meth, f'{txt(expr)}: every label '
                   f'combination must succeed',
                   True if good else False if wrong or isinstance(
                       expr, ast.UnaryOp) else None, at=meth.where(rets[0]))
    rets = [n for n in walk_local(orac.node) if isinstance(n, ast.Return)]
    if len(rets) == 1 and isinstance(rets[0].value, ast.ListComp):
        found += 1
        elt = rets[0].value.elt
        cond = _ok_total(elt, rets[0].value)
        ctx.decide('VERDICT-KEYS', orac, f'oracle {txt(elt)}: all results '
                   f'of the combination succeeded', cond,
                   at=orac.where(rets[0]))
    ctx.floor('VERDICT-KEYS', found, 4, '__bool__/oracles of the three '
              'statistics results')


def _ok_total(elt, comp):
    '''t['OK'] == t['total']  or  t['KO'] == 0 (over self.classify).'''
    if len(comp.generators) != 1 or txt(comp.generators[0].iter) != \
            'self.classify' or comp.generators[0].ifs:
        return None
    if not (isinstance(elt, ast.Compare) and len(elt.ops) == 1):
        return None
    var = txt(comp.generators[0].target)

    def fld(node):
        if isinstance(node, ast.Subscript) and txt(node.value) == var and \
                isinstance(node.slice, ast.Constant):
            return node.slice.value
        if isinstance(node, ast.Constant):
            return node.value
        return None
    pair = (fld(elt.left), fld(elt.comparators[0]))
    oper = elt.ops[0]
    if None in pair:
        return None
    if set(pair) == {'OK', 'total'}:
        if isinstance(oper, ast.Eq):
            return True
        if isinstance(oper, (ast.GtE, ast.LtE)):
            # OK >= total / total <= OK are equivalent since OK <= total
            left_ok = pair[0] == 'OK'
            return (isinstance(oper, ast.GtE) and left_ok) or \
                (isinstance(oper, ast.LtE) and not left_ok)
        return False
    if set(pair) == {'KO', 0}:
        return True if isinstance(oper, (ast.Eq, ast.LtE)) and \
            pair[0] == 'KO' or isinstance(oper, (ast.Eq, ast.GtE)) and \
            pair[0] == 0 else False
    return False


# ------------------------------------------------------------ COUNT-SHAPE --

def check_count_shape(ctx):
    '''Leaf of the label partition: OK = |X & rok|, KO = |X & rko|,
    total = |X| over the same X; rok / rko are the index entries of the
    SUCCESS / FAILURE outcomes of the `_result` label.'''
    program = ctx.program
    func = program.func(f'{MOD}:TestStatsTestsByLabels._rloop_over_labels')
    found = 0
    params = func.params
    for node in walk_local(func.node):
        if not isinstance(node, ast.Dict):
            continue
        keys = {k.value: v for k, v in zip(node.keys, node.values)
                if isinstance(k, ast.Constant)}
        if not {'OK', 'KO', 'total'} <= set(keys):
            continue
        found += 1
        shapes = {}
        for name in ('OK', 'KO', 'total'):
            shapes[name] = _len_shape(keys[name])
        okx, okset = shapes['OK'] if shapes['OK'] else (None, None)
        kox, koset = shapes['KO'] if shapes['KO'] else (None, None)
        totx, totset = shapes['total'] if shapes['total'] else (None, None)
        if None in (okx, kox, totx) or okset is None or koset is None or \
                okset.startswith('op:') or koset.startswith('op:'):
            ctx.undecided('COUNT-SHAPE', func, f'leaf {txt(node)}',
                          at=func.where(node))
            continue
        rok, rko = (params[3], params[4]) if len(params) >= 5 else \
            ('rok', 'rko')
        cond = okx == kox == totx and totset == '' and okset == rok and \
            koset == rko
        ctx.decide('COUNT-SHAPE', func,
                   f"OK={txt(keys['OK'])}, KO={txt(keys['KO'])}, "
                   f"total={txt(keys['total'])}", cond,
                   at=func.where(node),
                   detail='OK and KO count the successes / failures among '
                          'the very set whose size is the total')
    ctx.floor('COUNT-SHAPE', found, 1, "leaf dictionary with 'OK', 'KO', "
              "'total'")
    # the recursive calls forward rok and rko unchanged, in that order
    for node in walk_local(func.node):
        if isinstance(node, ast.Call) and call_name(node) == \
                '_rloop_over_labels':
            args = [txt(a) for a in node.args]
            cond = len(args) >= 4 and args[2:4] == params[3:5]
            ctx.decide('COUNT-SHAPE', func, f'recursive call forwards '
                       f'{args[2:4]}', cond, at=func.where(node))
            # ... and descends into the sub-index RESTRICTED to the results
            # carrying the current label value, on every path
            _check_restricted(ctx, func, node)
    # source of rok / rko
    src = program.func(f'{MOD}:TestStatsTestsByLabels._stats_for_labels')
    assigns = {}
    for node in walk_local(src.node):
        if isinstance(node, ast.Assign) and len(node.targets) == 1 and \
                isinstance(node.targets[0], ast.Name):
            assigns[node.targets[0].id] = node.value
    n_src = 0
    for node in walk_local(src.node):
        if isinstance(node, ast.Call) and call_name(node) == \
                '_rloop_over_labels' and len(node.args) >= 4:
            for pos, want in ((2, 'SUCCESS'), (3, 'FAILURE')):
                arg = node.args[pos]
                val = assigns.get(arg.id) if isinstance(arg, ast.Name) \
                    else arg
                n_src += 1
                mems = _outcomes_in([ast.Expr(value=val)]) if val is not \
                    None else set()
                lab = val is not None and "'_result'" in txt(val)
                ctx.decide('COUNT-SHAPE', src,
                           f'{"rok" if pos == 2 else "rko"} = '
                           f'{txt(val) if val is not None else "?"}',
                           None if not mems else (mems == {want} and lab),
                           at=src.where(node),
                           detail=f'the set of {want} results')
    ctx.floor('COUNT-SHAPE-src', n_src, 2, 'rok/rko arguments')


def _check_restricted(ctx, func, call):
    '''The index handed to the recursive call is, on every path,
    `<index>.keep_only(<set of the current label value>)`.'''
    if not call.args:
        return
    arg = call.args[0]
    index_par = func.params[1] if len(func.params) > 1 else 'index'
    # the loop that supplies the label value and its set
    parents = {}
    for node in ast.walk(func.node):
        for child in ast.iter_child_nodes(node):
            parents[id(child)] = node
    loop = call
    while loop is not None and not isinstance(loop, ast.For):
        loop = parents.get(id(loop))
    setvar = None
    if loop is not None and isinstance(loop.target, ast.Tuple) and len(
            loop.target.elts) == 2:
        setvar = txt(loop.target.elts[1])

    def restricted(expr):
        return isinstance(expr, ast.Call) and call_name(expr) == \
            'keep_only' and txt(receiver(expr)) == index_par and len(
                expr.args) == 1 and txt(expr.args[0]) == setvar
    sources = [arg]
    if isinstance(arg, ast.Name):
        sources = [n.value for n in ast.walk(loop or func.node)
                   if isinstance(n, ast.Assign) and any(
                       txt(t) == arg.id for t in n.targets)]
    flat = []
    for src in sources:
        if isinstance(src, ast.IfExp):
            flat += [src.body, src.orelse]
        else:
            flat.append(src)
    # second spelling: the index is handed down as it is and a SELECTION of
    # identifiers (a parameter intersected with the set of the current label
    # value) carries the restriction
    sel_par = None
    counted = {id(n) for c in ast.walk(func.node) if isinstance(
        c, ast.Call) and call_name(c) == 'len' for n in ast.walk(c)}
    for par in func.params[2:]:
        # (the intersections under len() are the counts of the leaf, not a
        # selection handed down)
        if any(isinstance(n, ast.BinOp) and isinstance(n.op, ast.BitAnd) and
               {txt(n.left), txt(n.right)} == {setvar, par} and
               id(n) not in counted for n in ast.walk(func.node)):
            sel_par = par
    # third spelling: the groups of the loop come from a method of the index
    # that receives the selection (`index.restricted_items(label, ids)`) and
    # the recursion hands the set of the current value down as the selection
    if sel_par is None and setvar is not None and loop is not None and \
            txt(arg) == index_par:
        src = loop.iter
        if isinstance(src, ast.Name):
            cands = [n.value for n in ast.walk(func.node) if isinstance(
                n, ast.Assign) and any(txt(t) == src.id for t in n.targets)]
            src = cands[0] if len(cands) == 1 else None
        while isinstance(src, ast.Call) and call_name(src) in (
                'list', 'tuple', 'sorted') and src.args:
            src = src.args[0]
        if isinstance(src, ast.Call) and txt(receiver(src) or src) == \
                index_par:
            passed = {txt(a) for a in src.args} | {
                txt(k.value) for k in src.keywords}
            handed = {k.arg: txt(k.value) for k in call.keywords}
            pars = [p for p in func.params if p not in ('self', 'cls')]
            for pos, a in enumerate(call.args):
                if pos < len(pars):
                    handed[pars[pos]] = txt(a)
            for par in func.params[2:]:
                if par in passed and handed.get(par) == setvar:
                    callees, _ = ctx.program.resolve_call(func, src)
                    narrows = [c for c in callees if any(
                        (isinstance(n, ast.BinOp) and isinstance(
                            n.op, ast.BitAnd)) or (isinstance(
                                n, ast.Call) and call_name(n) in (
                                    'intersection', 'keep_only'))
                        for n in ast.walk(c.node))]
                    ctx.decide(
                        'COUNT-SHAPE', func,
                        f'recursion narrows the selection inside '
                        f'{txt(src.func)}: {par}={setvar}',
                        True if callees and len(narrows) == len(callees)
                        else None, at=func.where(call))
                    return
    if sel_par is not None and setvar is not None and txt(arg) == index_par:
        given = None
        for kwd in call.keywords:
            if kwd.arg == sel_par:
                given = kwd.value
        if given is None and sel_par in func.params:
            pos = func.params.index(sel_par) - (
                1 if func.params[0] in ('self', 'cls') else 0)
            if pos < len(call.args):
                given = call.args[pos]
        construct = f'recursion narrows the selection: {sel_par}=' \
                    f'{txt(given) if given is not None else "<default>"}'
        if given is None or txt(given) in (setvar, sel_par):
            ctx.violated(
                'COUNT-SHAPE', func, construct, at=func.where(call),
                detail=f'the deeper levels must see the results selected by '
                       f'ALL the labels so far ({setvar} & {sel_par}); '
                       + ('nothing is passed' if given is None else
                          f'`{txt(given)}` alone ' + (
                              'forgets the previous labels (rows of the '
                              'third label count results of other '
                              'branches)' if txt(given) == setvar else
                              'is not narrowed by the current label')))
            return
        defs = [n.value for n in ast.walk(loop or func.node)
                if isinstance(n, ast.Assign) and any(
                    txt(t) == txt(given) for t in n.targets)] \
            if isinstance(given, ast.Name) else [given]
        parts = []
        for src in defs:
            parts += [src.body, src.orelse] if isinstance(
                src, ast.IfExp) else [src]
        good = bool(parts) and all(
            (isinstance(pt, ast.BinOp) and isinstance(pt.op, ast.BitAnd) and
             {txt(pt.left), txt(pt.right)} == {setvar, sel_par}) or
            txt(pt) == setvar for pt in parts) and any(
                isinstance(pt, ast.BinOp) for pt in parts)
        ctx.decide('COUNT-SHAPE', func, construct, True if good else None,
                   at=func.where(call))
        return
    if not flat or setvar is None:
        ctx.undecided('COUNT-SHAPE', func, f'sub-index of the recursion '
                      f'{txt(arg)} not understood', at=func.where(call))
        return
    bad = [src for src in flat if not restricted(src)]
    passthrough = [src for src in bad if txt(src) == index_par]
    ctx.decide('COUNT-SHAPE', func,
               f'recursion descends into {[txt(s)[:40] for s in flat]}',
               True if not bad else False if passthrough else None,
               at=func.where(call),
               detail='on some path the index is handed down unfiltered: '
                      'results that lack the current label are counted at '
                      'the deeper levels (OK / KO / total inflated)'
               if passthrough else None)


def _len_shape(expr):
    '''len(X) -> (X, ''); len(X & S) / len(X.intersection(S)) -> (X, S);
    anything else None.'''
    if not (isinstance(expr, ast.Call) and call_name(expr) == 'len' and
            len(expr.args) == 1 and isinstance(expr.func, ast.Name)):
        return None
    arg = expr.args[0]
    if isinstance(arg, ast.Name):
        return (arg.id, '')
    if isinstance(arg, ast.BinOp) and isinstance(arg.op, ast.BitAnd) and \
            isinstance(arg.left, ast.Name) and isinstance(arg.right,
                                                          ast.Name):
        return (arg.left.id, arg.right.id)
    if isinstance(arg, ast.BinOp) and isinstance(arg.left, ast.Name):
        return (arg.left.id, 'op:' + type(arg.op).__name__)
    if isinstance(arg, ast.Call) and call_name(arg) == 'intersection' and \
            isinstance(receiver(arg), ast.Name) and len(arg.args) == 1 and \
            isinstance(arg.args[0], ast.Name):
        return (receiver(arg).id, arg.args[0].id)
    return None


# ------------------------------------------------------------- CLS-READ ---

def check_cls_read(ctx):
    """The classification is a defaultdict(list) and the verdict of a summary
    is computed from its KEYS (len(classify) == 1, membership of SUCCESS /
    DONE): reading classify[k] for a k that no item had INSERTS k with an
    empty list, so counting or tabulating a successful summary turns it into
    a failure.  Every function that touches a classification (the summary
    classes, classification_counts, the javert representers of the stats
    results) is analysed with the defaultdict-aware effect analysis: no
    subscript read with a key that is not drawn from the mapping itself."""
    from . import purity
    program = ctx.program
    analyzer = purity.make_analyzer(program, max_depth=4)
    entries = []
    for func in program.all_functions():
        if func.parent is not None or func.name in ('__init__', 'evaluate'):
            continue
        mname = func.module.name
        if not (mname.startswith('valjean.gavroche.diagnostics') or
                mname.startswith('valjean.javert')):
            continue
        if not any(isinstance(n, ast.Attribute) and n.attr == 'classify' or
                   isinstance(n, ast.Name) and n.id == 'classify'
                   for n in ast.walk(func.node)):
            continue
        for idx, par in enumerate(func.params):
            if par in ('classify', 'result', 'self', 'results', 'res'):
                entries.append((func, idx))
                break
    ctx.floor('CLS-READ', len(entries), 6, 'functions touching a '
              'classification')
    for func, idx in entries:
        program.consulted.add(func.module.relpath)
        summ = analyzer.summary(func)
        if summ is None:
            ctx.undecided('CLS-READ', func, f'{func.name}: not summarised')
            continue
        effs = [e for e in summ.effects if e.root == idx and
                e.kind == 'dd-insert']
        if not effs:
            ctx.holds('CLS-READ', func, f'{func.name}: no inserting read of '
                      f'the classification', at=func.where(),
                      nontrivial=False)
        seen = set()
        for eff in effs:
            if eff.what in seen:
                continue
            seen.add(eff.what)
            ctx.violated('CLS-READ', func, f'{func.name}: {eff.what}',
                         at=f'{eff.func.module.relpath}:{eff.lineno}',
                         detail='the read inserts the key: a summary whose '
                                'only key was the success outcome gets '
                                'more keys and its verdict becomes false '
                                '(' + eff.describe() + ')')


# -------------------------------------------------------------- ID-UNIQUE ---

def check_id_unique(ctx):
    """Every result gets ONE identifier that no other result has: the
    by-labels index registers the position of the result in the complete list
    (enumerate from 0).  Numbering a later batch from `len(index[<label>])`
    counts the DISTINCT values of that label, not the results: two results
    with the same test name make a later task re-use identifiers and distinct
    results merge in the sets (OK + KO != total, negative missing count)."""
    program = ctx.program
    func = program.func(f'{MOD}:TestStatsTestsByLabels._build_index')
    program.consulted.add(func.module.relpath)
    n = 0
    for loop in [l for l in walk_local(func.node) if isinstance(l, ast.For)]:
        it = loop.iter
        if not (isinstance(it, ast.Call) and call_name(it) == 'enumerate'):
            continue
        counter = loop.target.elts[0].id if isinstance(
            loop.target, ast.Tuple) and isinstance(
                loop.target.elts[0], ast.Name) else None
        adds = [c for c in ast.walk(loop) if isinstance(c, ast.Call) and
                call_name(c) == 'add' and c.args and
                txt(c.args[0]) == counter]
        if not adds:
            continue
        n += 1
        start = it.args[1] if len(it.args) > 1 else next(
            (k.value for k in it.keywords if k.arg == 'start'), None)
        if start is None or (isinstance(start, ast.Constant) and
                             start.value == 0):
            ctx.holds('ID-UNIQUE', func, f'ids are positions in '
                      f'{txt(it.args[0])[:30]} counted from 0',
                      at=func.where(loop))
            continue
        defs = {}
        for node in walk_local(func.node):
            if isinstance(node, ast.Assign) and isinstance(
                    node.targets[0], ast.Name):
                defs[node.targets[0].id] = node.value
        expr = defs.get(start.id, start) if isinstance(
            start, ast.Name) else start
        distinct = any(isinstance(c, ast.Call) and call_name(c) == 'len'
                       and c.args and isinstance(c.args[0], ast.Subscript)
                       for c in ast.walk(expr))
        ctx.decide('ID-UNIQUE', func,
                   f'ids start at {txt(expr)[:40]}',
                   False if distinct else None, at=func.where(loop),
                   detail='the length of an index entry counts the distinct '
                          'values of a label, not the results registered so '
                          'far: ids are re-used when two results share that '
                          'value' if distinct else None)
    ctx.floor('ID-UNIQUE', n, 1, 'enumerate loop registering ids in '
              '_build_index')
