'''C12 - failure marks in rendered results: DISPATCH, LEAF, ROW-ALIGNED,
LEN-ALIGNED, EXHAUSTIVE, HL-WRAP.

DISPATCH evaluates the guards of every table_repr dispatcher concretely over
the finite product Verbosity x {verdict true, verdict false} (like a
compiler's exhaustiveness check: only GUARDS are evaluated, no valjean code
is run) and collects the leaf representers reached; LEAF classifies what a
leaf puts into its templates.
'''
import ast

from ..astutil import txt, call_name, receiver, walk_local, calls_in, dotted
from ..loader import AnalysisError

TREPR = 'valjean.javert.table_repr'
REPR = 'valjean.javert.representation'
TEMPL = 'valjean.javert.templates'
RSTM = 'valjean.javert.rst'

# result kinds of the property <-> class names (frozen: the wording of the
# property)
KINDS = {
    'equal': 'TestResultEqual', 'approx-equal': 'TestResultApproxEqual',
    'Student': 'TestResultStudent', 'Bonferroni': 'TestResultBonferroni',
    'Holm-Bonferroni': 'TestResultHolmBonferroni',
    'metadata': 'TestResultMetadata',
    'statistics of tasks': 'TestResultStatsTasks',
    'statistics of tests': 'TestResultStatsTests',
    'statistics of tests by labels': 'TestResultStatsTestsByLabels',
    'failed evaluation': 'TestResultFailed',
}


class Unknown(Exception):
    pass


def read_verbosity(program):
    mod = program.module('valjean.javert.verbosity')
    klass = mod.classes.get('Verbosity')
    if klass is None:
        raise AnalysisError('Verbosity enum not found')
    members = {}
    for stmt in klass.node.body:
        if isinstance(stmt, ast.Assign) and isinstance(
                stmt.value, ast.Constant) and isinstance(stmt.value.value,
                                                         int):
            members[stmt.targets[0].id] = stmt.value.value
    if len(members) < 4:
        raise AnalysisError(f'Verbosity members not understood: {members}')
    return members


# ----------------------------------------------------------- guard values --

class GuardEval:
    '''Concrete evaluation of guard expressions over one point
    (verbosity member, verdict).'''

    def __init__(self, members, verb_name, verdict, verb_var='verbosity',
                 result_var='result'):
        self.members = members
        self.env = {verb_var: ('verb', verb_name)}
        self.result_var = result_var
        self.verdict = verdict

    def value(self, expr):
        if isinstance(expr, ast.Constant):
            return expr.value
        if isinstance(expr, ast.Name):
            if expr.id == self.result_var:
                return ('result',)
            if expr.id in self.env:
                return self.env[expr.id]
            raise Unknown(expr.id)
        if isinstance(expr, ast.Attribute):
            if isinstance(expr.value, ast.Name) and expr.value.id == \
                    'Verbosity' and expr.attr in self.members:
                return ('verb', expr.attr)
            base = self.value(expr.value)
            if isinstance(base, tuple) and base[0] == 'verb' and \
                    expr.attr == 'value':
                return self.members[base[1]]
            if isinstance(base, tuple) and base[0] == 'verb' and \
                    expr.attr == 'name':
                return base[1]
            raise Unknown(txt(expr))
        if isinstance(expr, (ast.Tuple, ast.List, ast.Set)):
            return tuple(self.value(e) for e in expr.elts)
        if isinstance(expr, ast.Call):
            cname = call_name(expr)
            if cname == 'bool' and len(expr.args) == 1:
                return self.truth(expr.args[0])
            if cname == 'Verbosity' and len(expr.args) == 1:
                num = self.value(expr.args[0])
                for name, val in self.members.items():
                    if val == num:
                        return ('verb', name)
                raise Unknown('Verbosity(%r)' % (num,))
            raise Unknown(txt(expr))
        if isinstance(expr, ast.BinOp) and isinstance(expr.op, (ast.Sub,
                                                                ast.Add)):
            left, right = self.value(expr.left), self.value(expr.right)
            if isinstance(left, int) and isinstance(right, int):
                return left - right if isinstance(expr.op, ast.Sub) else \
                    left + right
            raise Unknown(txt(expr))
        if isinstance(expr, ast.IfExp):
            return self.value(expr.body if self.truth(expr.test)
                              else expr.orelse)
        if isinstance(expr, (ast.Compare, ast.BoolOp, ast.UnaryOp)):
            return self.truth(expr)
        raise Unknown(txt(expr))

    def truth(self, expr):
        if isinstance(expr, ast.BoolOp):
            vals = [self.truth(v) for v in expr.values]
            return all(vals) if isinstance(expr.op, ast.And) else any(vals)
        if isinstance(expr, ast.UnaryOp) and isinstance(expr.op, ast.Not):
            return not self.truth(expr.operand)
        if isinstance(expr, ast.Compare) and len(expr.ops) == 1:
            left = self.value(expr.left)
            right = self.value(expr.comparators[0])
            oper = expr.ops[0]
            if isinstance(oper, (ast.Eq, ast.Is)):
                return left == right
            if isinstance(oper, (ast.NotEq, ast.IsNot)):
                return left != right
            if isinstance(oper, ast.In):
                return left in right
            if isinstance(oper, ast.NotIn):
                return left not in right
            if isinstance(left, int) and isinstance(right, int):
                return {ast.Lt: left < right, ast.LtE: left <= right,
                        ast.Gt: left > right,
                        ast.GtE: left >= right}[type(oper)]
            raise Unknown(txt(expr))
        val = self.value(expr)
        if val == ('result',):
            return self.verdict
        if isinstance(val, bool):
            return val
        raise Unknown(txt(expr))


# ------------------------------------------------------------- dispatcher --

class Reached:
    '''What a dispatcher returns at one point: list of items
    ('empty',) | ('leaf', FuncInfo, call) | ('other-result', text) |
    ('unknown', text).'''


def eval_dispatcher(program, func, members, verb, verdict, depth=0):
    '''Interprets the body of a dispatcher at one (verbosity, verdict) point;
    returns a list of reached items.'''
    params = func.params
    off = 1 if params and params[0] in ('self', 'cls') else 0
    result_var = params[off] if len(params) > off else 'result'
    verb_var = params[off + 1] if len(params) > off + 1 else 'verbosity'
    guard = GuardEval(members, verb, verdict, verb_var, result_var)
    return _eval_block(program, func, func.node.body, guard, depth)


def _eval_block(program, func, stmts, guard, depth):
    for stmt in stmts:
        if isinstance(stmt, ast.Expr):
            continue
        if isinstance(stmt, ast.If):
            try:
                val = guard.truth(stmt.test)
            except Unknown as err:
                return [('unknown', f'guard {txt(stmt.test)[:50]} ({err})')]
            res = _eval_block(program, func, stmt.body if val else
                              stmt.orelse, guard, depth)
            if res is not None:
                return res
            continue
        if isinstance(stmt, ast.Assign) and len(stmt.targets) == 1 and \
                isinstance(stmt.targets[0], ast.Name):
            try:
                guard.env[stmt.targets[0].id] = guard.value(stmt.value)
            except Unknown:
                guard.env.pop(stmt.targets[0].id, None)
            continue
        if isinstance(stmt, ast.Return):
            return _eval_return(program, func, stmt.value, guard, depth)
        return [('unknown', f'statement {txt(stmt)[:50]}')]
    return None


def _eval_return(program, func, expr, guard, depth):
    if expr is None:
        return [('empty',)]
    if isinstance(expr, ast.List) and not expr.elts:
        return [('empty',)]
    if isinstance(expr, ast.BinOp) and isinstance(expr.op, ast.Add):
        return _eval_return(program, func, expr.left, guard, depth) + \
            _eval_return(program, func, expr.right, guard, depth)
    if isinstance(expr, ast.Call):
        cname = call_name(expr)
        args = [txt(a) for a in expr.args]
        # representation of ANOTHER result (the first test of a Bonferroni
        # result ...): not a mark of this result
        if args and args[0] != guard.result_var and args[0].startswith(
                guard.result_var + '.'):
            return [('other-result', txt(expr)[:60])]
        cands, how = program.resolve_call(func, expr)
        if how == 'by-unique-name':
            cands = []
        if len(cands) == 1 and args and args[0] == guard.result_var:
            callee = cands[0]
            # a dispatcher called with (result, verbosity): evaluate it at
            # the verbosity it receives; a leaf called with (result ...)
            cparams = callee.params
            if len(expr.args) >= 2 and depth < 4:
                try:
                    verb_val = guard.value(expr.args[1])
                except Unknown:
                    verb_val = None
                if isinstance(verb_val, tuple) and verb_val[0] == 'verb':
                    return eval_dispatcher(program, callee, guard.members,
                                           verb_val[1], guard.verdict,
                                           depth + 1)
            return [('leaf', callee, expr)]
        return [('unknown', f'return {txt(expr)[:60]}')]
    if isinstance(expr, ast.List):
        return [('inline', expr)]
    return [('unknown', f'return {txt(expr)[:60]}')]


# ------------------------------------------------------------------- LEAF --

def verdict_family(program, cinfo):
    '''(positive names, negative names): attributes / methods of the result
    whose truth means success resp. failure, read from __bool__.'''
    pos, neg = {'oracles'}, set()
    meth = program.find_method(cinfo, '__bool__')
    if meth is None:
        return pos, neg
    for node in ast.walk(meth.node):
        if isinstance(node, ast.Return) and node.value is not None:
            val = node.value
            negated = False
            while True:
                if isinstance(val, ast.UnaryOp) and isinstance(val.op,
                                                               ast.Not):
                    negated = not negated
                    val = val.operand
                elif isinstance(val, ast.Call) and call_name(val) == 'bool' \
                        and val.args:
                    val = val.args[0]
                else:
                    break
            for sub in ast.walk(val):
                if isinstance(sub, ast.Attribute) and isinstance(
                        sub.value, ast.Name) and sub.value.id == 'self' \
                        and sub.attr not in ('test',):
                    (neg if negated else pos).add(sub.attr)
    return pos, neg


class LeafInfo:
    def __init__(self):
        self.kind = None       # 'mark' | 'nomark' | 'by-verdict' |
        #                        'by-dependence' | 'wrong' | 'unknown'
        self.why = ''


def _string_of(expr):
    if isinstance(expr, ast.Constant) and isinstance(expr.value, str):
        return expr.value
    if isinstance(expr, ast.JoinedStr):
        return ''.join(v.value if isinstance(v, ast.Constant) else '{}'
                       for v in expr.values)
    if isinstance(expr, ast.BinOp) and isinstance(expr.op, ast.Add):
        left, right = _string_of(expr.left), _string_of(expr.right)
        if left is not None or right is not None:
            return (left or '') + (right or '')
    if isinstance(expr, ast.Call) and isinstance(expr.func, ast.Attribute):
        return _string_of(expr.func.value)
    return None


def classify_leaf(program, leaf, verdict, role, family, depth=0):
    '''Marking behaviour of a leaf representer for a result whose verdict
    is `verdict`: list of (kind, why) for each template it returns.'''
    params = leaf.params
    result_var = params[0] if params else 'result'
    guard = GuardEval({}, None, verdict, '_no_verbosity_', result_var)
    out = []
    _leaf_block(program, leaf, leaf.node.body, guard, role, family, out,
                depth)
    return out


def _leaf_block(program, leaf, stmts, guard, role, family, out, depth):
    '''Follows the tests on the verdict; other tests split.'''
    for stmt in stmts:
        if isinstance(stmt, ast.If):
            try:
                val = guard.truth(stmt.test)
            except Unknown:
                val = None
            if val is None:
                # data-dependent branch: both are possible
                done_a = _leaf_block(program, leaf, stmt.body, guard, role,
                                     family, out, depth)
                done_b = _leaf_block(program, leaf, stmt.orelse, guard, role,
                                     family, out, depth)
                if done_a and done_b:
                    return True
                continue
            if _leaf_block(program, leaf, stmt.body if val else stmt.orelse,
                           guard, role, family, out, depth):
                return True
            continue
        if isinstance(stmt, ast.Return):
            _leaf_return(program, leaf, stmt.value, guard, role, family, out,
                         depth)
            return True
        if isinstance(stmt, (ast.For, ast.While, ast.With, ast.Try)):
            continue
    return False


def _leaf_return(program, leaf, expr, guard, role, family, out, depth):
    if expr is None or (isinstance(expr, ast.List) and not expr.elts):
        out.append(('empty', 'returns nothing'))
        return
    if isinstance(expr, ast.BinOp) and isinstance(expr.op, ast.Add):
        _leaf_return(program, leaf, expr.left, guard, role, family, out,
                     depth)
        _leaf_return(program, leaf, expr.right, guard, role, family, out,
                     depth)
        return
    if isinstance(expr, ast.List):
        for elt in expr.elts:
            out.append(_classify_template(program, leaf, elt, role, family))
        return
    if isinstance(expr, ast.Name):
        # a list built by appends: every template appended to it
        found = False
        for node in walk_local(leaf.node):
            if isinstance(node, ast.Call) and call_name(node) == 'append' \
                    and txt(receiver(node)) == expr.id and node.args:
                out.append(_classify_template(program, leaf, node.args[0],
                                              role, family))
                found = True
        if not found:
            out.append(('unknown', f'returns {expr.id}'))
        return
    if isinstance(expr, ast.Call) and depth < 3:
        cands, how = program.resolve_call(leaf, expr)
        if len(cands) == 1 and how != 'by-unique-name' and expr.args and \
                txt(expr.args[0]) == guard.result_var:
            out.extend(classify_leaf(program, cands[0], guard.verdict, role,
                                     family, depth + 1))
            return
    out.append(('unknown', f'returns {txt(expr)[:50]}'))


def _resolve_local(leaf, expr, depth=0):
    '''All expressions that may flow into a local name (assignments,
    appends, extends, augmented additions).'''
    if not isinstance(expr, ast.Name) or depth > 3:
        return [expr]
    out = []
    for node in walk_local(leaf.node):
        if isinstance(node, ast.Assign) and any(
                txt(t) == expr.id for t in node.targets):
            out.append(node.value)
        elif isinstance(node, ast.AugAssign) and txt(node.target) == \
                expr.id:
            out.append(node.value)
        elif isinstance(node, ast.Call) and call_name(node) in (
                'append', 'extend') and txt(receiver(node)) == expr.id and \
                node.args:
            out.append(node.args[0])
    return out or [expr]


def _classify_template(program, leaf, expr, role, family):
    if isinstance(expr, ast.Name):
        srcs = [s for s in _resolve_local(leaf, expr)
                if isinstance(s, ast.Call)]
        if len(srcs) == 1:
            expr = srcs[0]
    if not isinstance(expr, ast.Call):
        return ('unknown', f'template {txt(expr)[:40]}')
    cname = call_name(expr)
    if cname == 'TextTemplate' and expr.args:
        arg = expr.args[0]
        strings = []
        for sub in ast.walk(arg):
            text = _string_of(sub)
            if text:
                strings.append(text)
        for name in [n for n in ast.walk(arg) if isinstance(n, ast.Name)]:
            for src in _resolve_local(leaf, name):
                if src is name:
                    continue
                for sub in ast.walk(src):
                    text = _string_of(sub)
                    if text:
                        strings.append(text)
        joined = ' '.join(strings)
        if f':{role}:`' in joined:
            return ('mark', 'text with the highlight role')
        return ('nomark', 'text without mark')
    if cname == 'TableTemplate':
        hls = [k.value for k in expr.keywords if k.arg == 'highlights']
        if not hls:
            return ('nomark', 'table without highlights')
        return _classify_highlights(leaf, hls[0], family)
    cands, how = program.resolve_call(leaf, expr)
    if len(cands) == 1 and how in ('name', 'dotted') and \
            cands[0].module is leaf.module:
        # a local helper that builds the template: follow it, remembering
        # what its parameters are bound to
        sub = cands[0]
        for par, arg in zip(sub.params, expr.args):
            _PARAM_BIND[(sub.key, par)] = (leaf, arg)
        for node in walk_local(sub.node):
            if isinstance(node, ast.Return) and isinstance(
                    node.value, ast.Call):
                return _classify_template(program, sub, node.value,
                                          role, family)
    return ('unknown', f'template {txt(expr)[:40]}')


def _elements(leaf, expr, depth=0):
    '''Leaf element expressions of a highlights value.'''
    if depth > 5:
        return [expr]
    if isinstance(expr, ast.Name):
        out = []
        for src in _resolve_local(leaf, expr):
            if src is expr:
                return [expr]
            out += _elements(leaf, src, depth + 1)
        return out
    if isinstance(expr, (ast.List, ast.Tuple)):
        out = []
        for elt in expr.elts:
            out += _elements(leaf, elt, depth + 1)
        return out
    if isinstance(expr, ast.BinOp) and isinstance(expr.op, ast.Mult):
        return _elements(leaf, expr.left, depth + 1)
    if isinstance(expr, ast.BinOp) and isinstance(expr.op, ast.Add):
        return _elements(leaf, expr.left, depth + 1) + _elements(
            leaf, expr.right, depth + 1)
    if isinstance(expr, (ast.ListComp, ast.GeneratorExp)):
        return _elements(leaf, expr.elt, depth + 1)
    if isinstance(expr, ast.Call) and call_name(expr) in ('list', 'tuple') \
            and expr.args:
        return _elements(leaf, expr.args[0], depth + 1)
    if isinstance(expr, ast.Call) and call_name(expr) == 'values' and \
            isinstance(receiver(expr), ast.Name):
        # values of a local dict filled by d[k].append(x) / d[k] = x
        name = receiver(expr).id
        out = []
        for node in walk_local(leaf.node):
            if isinstance(node, ast.Call) and call_name(node) == 'append' \
                    and isinstance(receiver(node), ast.Subscript) and txt(
                        receiver(node).value) == name and node.args:
                out += _elements(leaf, node.args[0], depth + 1)
        return out or [expr]
    return [expr]


_PARAM_BIND = {}


def _derives_from_family(leaf, expr, names, depth=0):
    '''Does the expression read a verdict-family member of the result
    (directly or through locals / loop variables / helper parameters)?'''
    if depth > 6:
        return False
    for node in ast.walk(expr):
        if isinstance(node, ast.Attribute) and node.attr in names:
            return True
        if isinstance(node, ast.Name) and isinstance(node.ctx, ast.Load):
            bound = _PARAM_BIND.get((leaf.key, node.id))
            if bound is not None and _derives_from_family(
                    bound[0], bound[1], names, depth + 1):
                return True
            for src in _bindings(leaf, node.id):
                if src is not None and _derives_from_family(
                        leaf, src, names, depth + 1):
                    return True
    return False


def _bindings(leaf, name):
    out = []
    for node in walk_local(leaf.node):
        if isinstance(node, ast.Assign) and any(
                isinstance(t, ast.Name) and t.id == name
                for t in node.targets):
            out.append(node.value)
        elif isinstance(node, ast.Assign) and any(
                isinstance(t, ast.Tuple) and any(
                    isinstance(e, ast.Name) and e.id == name
                    for e in t.elts) for t in node.targets):
            out.append(node.value)
        elif isinstance(node, (ast.For, ast.comprehension)):
            if any(isinstance(n, ast.Name) and n.id == name
                   for n in ast.walk(node.target)):
                itr = node.iter
                # positional binding through zip(...) / enumerate(...)
                if isinstance(node.target, ast.Tuple) and isinstance(
                        itr, ast.Call) and call_name(itr) == 'zip' and \
                        len(itr.args) == len(node.target.elts):
                    for elt, arg in zip(node.target.elts, itr.args):
                        if any(isinstance(n, ast.Name) and n.id == name
                               for n in ast.walk(elt)):
                            out.append(arg)
                elif isinstance(node.target, ast.Tuple) and isinstance(
                        itr, ast.Call) and call_name(itr) == 'enumerate' \
                        and len(node.target.elts) == 2 and itr.args:
                    if any(isinstance(n, ast.Name) and n.id == name
                           for n in ast.walk(node.target.elts[1])):
                        out.append(itr.args[0])
                else:
                    out.append(itr)
        elif isinstance(node, ast.AugAssign) and isinstance(
                node.target, ast.Name) and node.target.id == name:
            out.append(node.value)
        elif isinstance(node, (ast.Assign, ast.AugAssign)):
            # name[<index>] = value : what the index and the value read
            tgts = node.targets if isinstance(node, ast.Assign) else \
                [node.target]
            for tgt in tgts:
                if isinstance(tgt, ast.Subscript) and isinstance(
                        tgt.value, ast.Name) and tgt.value.id == name:
                    out.append(tgt.slice)
                    if not isinstance(node.value, ast.Constant):
                        out.append(node.value)
    return out


def _classify_highlights(leaf, expr, family):
    pos, neg = family
    kinds = []
    for elt in _elements(leaf, expr):
        kinds.append(_classify_element(leaf, elt, pos, neg))
    if any(k == 'pos-verdict' for k in kinds):
        return ('wrong', 'a success flag is used un-negated as a highlight')
    if any(k == 'neg-verdict' for k in kinds):
        return ('by-verdict', 'highlights are the negation of the verdict '
                              'family')
    if any(k == 'dep-verdict' for k in kinds):
        return ('by-dependence', 'highlights depend on the verdict family')
    if any(k == 'true' for k in kinds):
        return ('mark', 'constant highlight')
    if kinds and all(k == 'false' for k in kinds):
        return ('nomark', 'all highlights are constant False')
    return ('unknown', f'highlights {sorted(set(kinds))}')


def _classify_element(leaf, elt, pos, neg):
    if isinstance(elt, ast.Constant):
        return 'true' if elt.value is True else 'false' if elt.value is \
            False else 'other'
    # falses = np.full_like(..., False) / np.zeros(..., dtype=bool)
    if isinstance(elt, ast.Call) and call_name(elt) in ('full_like', 'full',
                                                        'zeros',
                                                        'zeros_like'):
        consts = [a.value for a in elt.args if isinstance(a, ast.Constant)]
        if call_name(elt).startswith('zeros') or False in consts:
            return 'false'
        if True in consts:
            return 'true'
    negated = False
    inner = elt
    while True:
        if isinstance(inner, ast.UnaryOp) and isinstance(
                inner.op, (ast.Not, ast.Invert)):
            negated = not negated
            inner = inner.operand
        elif isinstance(inner, ast.Call) and call_name(inner) == \
                'logical_not' and inner.args:
            negated = not negated
            inner = inner.args[0]
        elif isinstance(inner, ast.Compare) and len(inner.ops) == 1 and \
                isinstance(inner.comparators[0], ast.Constant) and \
                inner.comparators[0].value in (0, False) and isinstance(
                    inner.ops[0], ast.Eq):
            negated = not negated
            inner = inner.left
        else:
            break
    reads_pos = _derives_from_family(leaf, inner, pos)
    reads_neg = _derives_from_family(leaf, inner, neg)
    plain = isinstance(inner, (ast.Name, ast.Attribute, ast.Subscript,
                               ast.Call)) and not isinstance(
                                   inner, ast.Compare)
    if plain and (reads_pos or reads_neg):
        failing = (reads_pos and negated) or (reads_neg and not negated
                                              and not reads_pos)
        return 'neg-verdict' if failing else 'pos-verdict'
    if reads_pos or reads_neg:
        return 'dep-verdict'
    if isinstance(inner, ast.Name):
        # a local whose every source is constant False
        srcs = _bindings(leaf, inner.id)
        kinds = {_classify_element(leaf, s, pos, neg) for s in srcs
                 if s is not None and s is not inner}
        if kinds == {'false'}:
            return 'false'
    return 'other'


# --------------------------------------------------------------- DISPATCH --

def dispatchers(program):
    '''table_repr.repr_testresult* with (result, verbosity) + the overrides
    of FullTableRepresenter.'''
    mod = program.module(TREPR)
    out = []
    for func in mod.functions.values():
        if func.parent is None and func.name.startswith('repr_testresult') \
                and len(func.params) >= 2 and 'erbosity' in func.params[1]:
            out.append(func)
    rep = program.module(REPR)
    klass = rep.classes.get('FullTableRepresenter')
    if klass is not None:
        for meth in klass.methods.values():
            if meth.name.startswith('repr_testresult'):
                out.append(meth)
    return out


def result_class_of(program, func):
    name = func.name[len('repr_'):]
    for cinfo in program.all_classes():
        if cinfo.name.lower() == name:
            return cinfo
    return None


def highlight_role(program):
    klass = program.cls(f'{RSTM}:RstTable')
    for stmt in klass.node.body:
        if isinstance(stmt, ast.Assign) and txt(stmt.targets[0]) == \
                'HIGHLIGHT_ROLE' and isinstance(stmt.value, ast.Constant):
            return stmt.value.value
    raise AnalysisError('RstTable.HIGHLIGHT_ROLE not found')


def constant_verdicts(program, cinfo):
    '''Feasible verdicts of a result class: a __bool__ that returns a
    constant restricts the product.'''
    meth = program.find_method(cinfo, '__bool__')
    if meth is None:
        return (True, False)
    rets = [n for n in walk_local(meth.node) if isinstance(n, ast.Return)]
    if len(rets) == 1 and isinstance(rets[0].value, ast.Constant) and \
            isinstance(rets[0].value.value, bool):
        return (rets[0].value.value,)
    return (True, False)


def check_dispatch(ctx):
    program = ctx.program
    members = read_verbosity(program)
    role = highlight_role(program)
    silent = [m for m, v in members.items() if v == min(members.values())]
    funcs = dispatchers(program)
    ctx.floor('DISPATCH', len(funcs), 11, 'dispatchers (table_repr.'
              'repr_testresult* and FullTableRepresenter overrides)')
    n_points = 0
    leaf_cache = {}
    for func in funcs:
        cinfo = result_class_of(program, func)
        if cinfo is None:
            ctx.undecided('DISPATCH', func, f'{func.name}: no result class '
                          f'with that name', at=func.where())
            continue
        if cinfo.name == 'TestResultExternal':
            continue       # represented by ExternalRepresenter, not listed
        family = verdict_family(program, cinfo)
        verdicts = constant_verdicts(program, cinfo)
        bad, und = [], []
        table = {}
        for verb in members:
            for verdict in verdicts:
                n_points += 1
                items = eval_dispatcher(program, func, members, verb,
                                        verdict) or [('unknown',
                                                      'falls off the end')]
                kinds = []
                for item in items:
                    if item[0] == 'empty':
                        continue
                    if item[0] == 'other-result':
                        kinds.append('other-result')
                        continue
                    if item[0] == 'unknown':
                        kinds.append('unknown:' + item[1])
                        continue
                    if item[0] == 'inline':
                        for elt in item[1].elts:
                            kinds.append(_classify_template(
                                program, func, elt, role, family)[0])
                        continue
                    leaf = item[1]
                    key = (leaf.key, verdict, cinfo.name)
                    if key not in leaf_cache:
                        leaf_cache[key] = classify_leaf(
                            program, leaf, verdict, role, family)
                    kinds += [f'{k}' for k, _why in leaf_cache[key]
                              if k != 'empty']
                table[(verb, verdict)] = kinds
                if verb in silent:
                    continue
                marking = [k for k in kinds if k in ('mark', 'by-verdict',
                                                     'by-dependence')]
                unknown = [k for k in kinds if k.startswith('unknown')]
                if 'wrong' in kinds:
                    bad.append((verb, verdict, 'a success flag is used '
                                'un-negated as a highlight'))
                elif verdict is False and not marking:
                    if unknown:
                        und.append((verb, verdict, unknown[0]))
                    else:
                        bad.append((verb, verdict, 'failing result rendered '
                                    f'without any mark ({kinds or "nothing"}'
                                    ')'))
                elif verdict is True and 'mark' in kinds:
                    bad.append((verb, verdict, 'passing result rendered '
                                'with an unconditional mark'))
        site = func
        label = f'{func.qual} over {len(members)} verbosities x ' \
                f'{len(verdicts)} verdict(s)'
        for verb, verdict, why in bad:
            ctx.violated('DISPATCH', site,
                         f'{func.qual}: verbosity {verb}, verdict {verdict}:'
                         f' {why}', at=func.where(),
                         detail={'reached': table[(verb, verdict)]})
        for verb, verdict, why in und[:2]:
            ctx.undecided('DISPATCH', site,
                          f'{func.qual}: verbosity {verb}, verdict '
                          f'{verdict}: {why}', at=func.where())
        if not bad:
            ctx.holds('DISPATCH', site, label + ': a mark exactly when the '
                      'verdict is false (non-silent verbosities)',
                      at=func.where(),
                      detail={f'{v}/{d}': k for (v, d), k in table.items()})
    ctx.count('decision_table_rows', n_points)
    ctx.stats['leaves_classified'] = len(leaf_cache)


# ------------------------------------------------------------- EXHAUSTIVE --

def check_exhaustive(ctx):
    program = ctx.program
    mod = program.module(TREPR)
    for kind, cname in KINDS.items():
        classes = [c for c in program.all_classes() if c.name == cname]
        fname = 'repr_' + cname.lower()
        func = mod.functions.get(fname)
        ok = bool(classes) and func is not None and len(func.params) >= 2
        ctx.decide('EXHAUSTIVE', mod.name + ':' + fname,
                   f'{kind}: {cname} -> table_repr.{fname}(result, '
                   f'verbosity)', ok, at=mod.relpath,
                   detail='the reflective dispatch finds the representer by '
                          'the lower-cased class name: a renamed class or '
                          'function silently loses its representation'
                   if not ok else None, nontrivial=False)
    # the reflective dispatch itself
    rep = program.func(f'{REPR}:Representer.__call__')
    shape = any(isinstance(n, ast.BinOp) and isinstance(n.op, ast.Add) and
                isinstance(n.left, ast.Constant) and n.left.value == 'repr_'
                for n in ast.walk(rep.node))
    lower = any(isinstance(n, ast.Call) and call_name(n) == 'lower'
                for n in ast.walk(rep.node))
    ctx.decide('EXHAUSTIVE', rep, "method name = 'repr_' + class name "
               "lower-cased", shape and lower, at=rep.where())
    trep = program.func(f'{REPR}:TableRepresenter.__call__')
    fallback = any(isinstance(n, ast.Call) and call_name(n) == 'getattr' and
                   n.args and txt(n.args[0]) == 'table_repr'
                   for n in ast.walk(trep.node))
    ctx.decide('EXHAUSTIVE', trep, 'TableRepresenter falls back on '
               'table_repr.<name>', fallback, at=trep.where())


# ------------------------------------------------------------ ROW-ALIGNED --

def check_row_aligned(ctx):
    program = ctx.program
    klass = program.cls(f'{TEMPL}:TableTemplate')
    getitem = klass.methods.get('__getitem__')
    join = klass.methods.get('_binary_join')
    if getitem is None or join is None:
        raise AnalysisError('TableTemplate.__getitem__ / _binary_join not '
                            'found')
    index = getitem.params[1]
    ret = [n for n in walk_local(getitem.node) if isinstance(n, ast.Return)
           and isinstance(n.value, ast.Call)]
    ctx.floor('ROW-ALIGNED', len(ret), 1, 'TableTemplate(...) returned by '
              '__getitem__')
    call = ret[0].value

    def indexed(expr, field):
        subs = [n for n in ast.walk(expr) if isinstance(n, ast.Subscript)
                and txt(n.slice) == index]
        return bool(subs) and f'self.{field}' in txt(expr)
    cols = call.args[0] if call.args else None
    hls = [k.value for k in call.keywords if k.arg == 'highlights']
    ctx.decide('ROW-ALIGNED', getitem, f'__getitem__: columns <- '
               f'{txt(cols)[:50] if cols is not None else "?"}',
               cols is not None and indexed(cols, 'columns'),
               at=getitem.where(call))
    ctx.decide('ROW-ALIGNED', getitem, f'__getitem__: highlights <- '
               f'{txt(hls[0])[:50] if hls else "<default>"}',
               bool(hls) and indexed(hls[0], 'highlights'),
               at=getitem.where(call),
               detail='the rows of the highlights must be selected by the '
                      'same index as the rows of the columns'
               if not (hls and indexed(hls[0], 'highlights')) else None)
    for fld in ('headers', 'units'):
        kws = [k.value for k in call.keywords if k.arg == fld]
        ctx.decide('ROW-ALIGNED', getitem, f'__getitem__: {fld} carried '
                   f'over', bool(kws) and f'self.{fld}' in txt(kws[0]) and
                   not indexed(kws[0], fld), at=getitem.where(call),
                   nontrivial=False)
    # join
    stores = {}
    for node in walk_local(join.node):
        if isinstance(node, ast.Assign) and isinstance(
                node.targets[0], ast.Attribute) and txt(
                    node.targets[0].value) == 'self':
            stores[node.targets[0].attr] = node.value
    shapes = {}
    for fld in ('columns', 'highlights'):
        val = stores.get(fld)
        shapes[fld] = _join_shape(val, fld) if val is not None else None
        good = val is not None and shapes[fld] is not None and \
            f'self.{fld}' in txt(val) and f'other.{fld}' in txt(val)
        ctx.decide('ROW-ALIGNED', join, f'_binary_join: self.{fld} <- '
                   f'{txt(val)[:50] if val is not None else "<unchanged>"}',
                   True if good else False if val is None or
                   f'other.{fld}' not in txt(val) else None,
                   at=join.where(),
                   detail='joined rows and their highlights are stacked '
                          'together' if not good else None)
    # JOIN-AXIS: the flags of a column are joined along the axis its column
    # is joined along.  np.hstack joins 1-d columns along axis 0 and N-d
    # columns (the tables of N-d datasets, walked with np.nditer) along
    # axis 1; a column of flags may have one axis more than its column (the
    # by-labels builders hand `[[flag], [flag], ...]` next to plain lists).
    # Hence: hstack of the two LISTS of flags joins axis 1 of the stack =
    # axis 0 of the cells (wrong for N-d cells, F25); hstack column by
    # column joins the unit axis of `[[flag], ...]` (wrong for the by-labels
    # tables); what is right for both is a concatenation whose axis is read
    # from the column.
    unit_axis = _unit_axis_flag_producers(program)
    ctx.stats['flag_columns_with_unit_axis'] = unit_axis
    hshape, cshape = shapes['highlights'], shapes['columns']
    hval = stores.get('highlights')
    if hval is not None and cshape is not None:
        verdict, why = None, 'form of the join not read'
        axis_src = _axis_from_column(join, hval)
        if axis_src is True:
            verdict, why = True, 'axis read from the number of dimensions ' \
                                 'of the column'
        elif hshape is not None and hshape[0] == 'hstack' and \
                hshape[1] == 'whole lists' and cshape[0] == 'hstack' and \
                cshape[1] == 'per column':
            verdict = False
            why = ('hstack of the two lists of flags joins the FIRST axis '
                   'of the cells, hstack of two N-d columns their SECOND '
                   'axis: after joining tables of 2-d datasets the mark of '
                   'a failing bin sits on another bin')
        elif hshape is not None and hshape[0] in ('hstack', 'column_stack',
                                                  'dstack') and \
                hshape[1] == 'per column' and not hshape[2]:
            verdict = False if unit_axis else None
            why = (f'{hshape[0]} column by column joins the trailing unit '
                   f'axis of the flag columns built as [[flag], ...] '
                   f'({unit_axis} builder(s) of table_repr): the flags of '
                   f'the joined tables are interleaved while the rows are '
                   f'appended')
        ctx.decide('JOIN-AXIS', join,
                   f'_binary_join: flags joined by '
                   f'{hshape[0] + " " + hshape[1] if hshape else "?"}, '
                   f'columns by {cshape[0]} {cshape[1]}', verdict,
                   at=join.where(), detail=why if verdict is not True
                   else None)
    else:
        ctx.undecided('JOIN-AXIS', join, '_binary_join: joins of columns / '
                      'highlights not read', at=join.where())
    if val is not None:
        order_ok = all(
            txt(stores[f]).find(f'self.{f}') < txt(stores[f]).find(
                f'other.{f}') for f in ('columns', 'highlights')
            if f in stores)
        ctx.decide('ROW-ALIGNED', join, '_binary_join: self rows before '
                   'other rows for both fields', order_ok, at=join.where())


def _unit_axis_flag_producers(program):
    '''Number of table builders that fill a column of flags with
    one-element lists (`hlight.append([not ora])`) and hand it over as
    highlights: such a column has shape (n, 1) next to columns of shape
    (n,).'''
    count = 0
    mod = program.module(TREPR)
    for func in mod.functions.values():
        filled = {txt(receiver(c)) for c in calls_in(func.node)
                  if call_name(c) == 'append' and len(c.args) == 1 and
                  isinstance(c.args[0], ast.List) and
                  len(c.args[0].elts) == 1 and receiver(c) is not None}
        if not filled:
            continue
        for call in calls_in(func.node):
            for kwd in call.keywords:
                if kwd.arg == 'highlights' and any(
                        isinstance(n, ast.Name) and n.id in filled
                        for n in ast.walk(kwd.value)):
                    count += 1
    return count


def _axis_from_column(join, hval):
    '''True when the flags are joined by a concatenation whose `axis` is
    read from the number of dimensions of the column, taken before the
    columns are re-bound.'''
    calls = [n for n in ast.walk(hval) if isinstance(n, ast.Call) and
             call_name(n) in ('concatenate', 'append', 'stack')]
    if len(calls) != 1:
        return None
    axis = next((k.value for k in calls[0].keywords if k.arg == 'axis'),
                None)
    if axis is None:
        return None

    def from_ndim(expr, depth=0):
        if any((isinstance(n, ast.Call) and call_name(n) == 'ndim') or (
                isinstance(n, ast.Attribute) and n.attr == 'ndim')
               for n in ast.walk(expr)) and 'columns' in txt(expr):
            return True
        if depth > 2:
            return False
        for name in {n.id for n in ast.walk(expr)
                     if isinstance(n, ast.Name)}:
            # a comprehension variable over a local, or a local
            for comp in ast.walk(hval):
                if isinstance(comp, ast.comprehension) and any(
                        isinstance(t, ast.Name) and t.id == name
                        for t in ast.walk(comp.target)):
                    if from_ndim(comp.iter, depth + 1):
                        return True
            for node in walk_local(join.node):
                if isinstance(node, ast.Assign) and any(
                        isinstance(t, ast.Name) and t.id == name
                        for t in node.targets):
                    col_store = [n for n in walk_local(join.node)
                                 if isinstance(n, ast.Assign) and txt(
                                     n.targets[0]) == 'self.columns']
                    before = not col_store or node.lineno < \
                        col_store[0].lineno
                    if before and from_ndim(node.value, depth + 1):
                        return True
        return False
    return True if from_ndim(axis) else None


JOIN_FUNCS = ('hstack', 'concatenate', 'vstack', 'append', 'dstack',
              'column_stack', 'row_stack')


def _join_shape(val, fld):
    '''(function, 'per column' | 'whole lists', axis text) of the
    concatenation that builds the joined field, else None.  Per column: the
    operands of the call are single elements of self.<fld> / other.<fld> (a
    subscript, or the variables of a loop / zip over the two lists); whole
    lists: the operands are the lists themselves (or comprehensions over
    them).'''
    calls = [n for n in ast.walk(val) if isinstance(n, ast.Call) and
             call_name(n) in JOIN_FUNCS]
    if len(calls) != 1:
        return None
    call = calls[0]
    axis = next((txt(k.value) for k in call.keywords if k.arg == 'axis'),
                '')
    if len(call.args) == 1 and isinstance(call.args[0], (ast.Tuple,
                                                         ast.List)):
        operands = list(call.args[0].elts)
    else:
        operands = list(call.args)
    if len(operands) != 2:
        return None
    # loop variables bound to single elements of the two lists
    elem_vars = set()
    for comp in ast.walk(val):
        if not isinstance(comp, ast.comprehension) or not any(
                n is call for n in ast.walk(val)):
            continue
        inside = False
        for holder in ast.walk(val):
            if isinstance(holder, (ast.ListComp, ast.GeneratorExp,
                                   ast.SetComp)) and comp in \
                    holder.generators and any(
                        n is call for n in ast.walk(holder.elt)):
                inside = True
        if not inside:
            continue
        for n in ast.walk(comp.target):
            if isinstance(n, ast.Name) and f'.{fld}' in txt(comp.iter):
                elem_vars.add(n.id)

    def strip(expr):
        while isinstance(expr, ast.Call) and call_name(expr) in (
                'atleast_1d', 'asarray', 'array', 'atleast_2d') and \
                expr.args:
            expr = expr.args[0]
        return expr

    def level(expr):
        expr = strip(expr)
        if isinstance(expr, ast.Subscript) and txt(expr.value) in (
                f'self.{fld}', f'other.{fld}'):
            return 'per column'
        if isinstance(expr, ast.Name) and expr.id in elem_vars:
            return 'per column'
        if txt(expr) in (f'self.{fld}', f'other.{fld}'):
            return 'whole lists'
        if isinstance(expr, (ast.ListComp, ast.GeneratorExp)) and any(
                txt(g.iter) in (f'self.{fld}', f'other.{fld}')
                for g in expr.generators):
            return 'whole lists'
        if isinstance(expr, ast.Call) and call_name(expr) in (
                'list', 'tuple') and expr.args:
            return level(expr.args[0])
        return None
    levels = {level(o) for o in operands}
    if len(levels) != 1 or None in levels:
        return None
    return call_name(call), levels.pop(), axis


# ---------------------------------------------------------------- HL-WRAP --

def check_hl_wrap(ctx):
    program = ctx.program
    klass = program.cls(f'{RSTM}:RstTable')
    hl = klass.methods.get('highlight')
    fmt = klass.methods.get('format_columns')
    if hl is None or fmt is None:
        raise AnalysisError('RstTable.highlight / format_columns not found')
    flag = hl.params[-1]
    ifs = [n for n in walk_local(hl.node) if isinstance(n, ast.If)]
    good = None
    if ifs:
        test = ifs[0].test
        pol = True
        if isinstance(test, ast.UnaryOp) and isinstance(test.op, ast.Not):
            pol = False
            test = test.operand
        if txt(test) == flag:
            # statements executed when the test is true / false (a guard
            # clause `if c: return X` continues with what follows the if)
            after = []
            if ifs[0] in hl.node.body:
                after = hl.node.body[hl.node.body.index(ifs[0]) + 1:]
            ends = bool(ifs[0].body) and isinstance(
                ifs[0].body[-1], (ast.Return, ast.Raise))
            on_true = list(ifs[0].body) + ([] if ends else after)
            on_false = list(ifs[0].orelse) + after
            if not pol:
                on_true, on_false = on_false, on_true

            def wraps(stmts):
                return any('HIGHLIGHT_ROLE' in txt(s) or ':hl:' in txt(s)
                           for s in stmts)
            good = wraps(on_true) and not wraps(on_false)
    ctx.decide('HL-WRAP', hl, f'highlight(): the role wraps the value '
               f'exactly when `{flag}` is true', good, at=hl.where())
    # rows zipped with the highlights transposed the same way
    zips = [n for n in ast.walk(fmt.node) if isinstance(n, ast.Call) and
            call_name(n) == 'zip']
    good = None
    colpar = fmt.params[1] if len(fmt.params) >= 3 else 'columns'
    hlpar = fmt.params[2] if len(fmt.params) >= 3 else 'highlights'
    for zipc in zips:
        if len(zipc.args) != 2:
            continue
        one, two = zipc.args
        if not (colpar in txt(one) and (hlpar in txt(two) or isinstance(
                two, (ast.Call, ast.Name)))):
            continue
        walk_one = call_name(one) if isinstance(one, ast.Call) else None
        walk_two = call_name(two) if isinstance(two, ast.Call) else None
        if walk_one == 'transpose' and walk_two == 'transpose':
            args = [txt(a.args[0]) for a in zipc.args]
            good = args == [colpar, hlpar]
        elif walk_one is not None and walk_two is not None and \
                walk_one != walk_two and 'transpose' in (walk_one,
                                                         walk_two):
            # the cells are walked by one traversal (np.nditer: memory
            # order) and their flags by another: for arrays that are not
            # C-contiguous the marks land on the wrong cells
            good = False
    ctx.decide('HL-WRAP', fmt, 'format_columns: rows and highlight rows are '
               'transposed alike and zipped in that order', good,
               at=fmt.where())
    strm = klass.methods.get('__str__')
    if strm is not None:
        good = 'self.table.columns' in txt(strm.node) and \
            'self.table.highlights' in txt(strm.node)
        ctx.decide('HL-WRAP', strm, '__str__ formats the columns with the '
                   "table's own highlights", good, at=strm.where(),
                   nontrivial=False)


# ------------------------------------------------------------ LEN-ALIGNED --

class _Len:
    '''Symbolic length: {symbol: coefficient} + constant; None = unknown.'''

    def __init__(self, terms=None, const=0):
        self.terms = dict(terms or {})
        self.const = const

    def __add__(self, other):
        terms = dict(self.terms)
        for key, val in other.terms.items():
            terms[key] = terms.get(key, 0) + val
        return _Len({k: v for k, v in terms.items() if v}, self.const +
                    other.const)

    def key(self):
        return (tuple(sorted(self.terms.items())), self.const)

    def __repr__(self):
        parts = [f'{c}*{s}' if c != 1 else s for s, c in sorted(
            self.terms.items())]
        if self.const or not parts:
            parts.append(str(self.const))
        return ' + '.join(parts)


def _length(func, expr, lens, depth=0):
    '''Symbolic length of a list-valued expression.'''
    if depth > 5:
        return None
    if isinstance(expr, ast.Name):
        return lens.get(expr.id)
    if isinstance(expr, (ast.List, ast.Tuple)):
        if any(isinstance(e, ast.Starred) for e in expr.elts):
            return None
        return _Len(const=len(expr.elts))
    if isinstance(expr, (ast.ListComp, ast.GeneratorExp)):
        if len(expr.generators) != 1 or expr.generators[0].ifs:
            return None
        return _length(func, expr.generators[0].iter, lens, depth + 1)
    if isinstance(expr, ast.Subscript) and isinstance(expr.slice,
                                                      ast.Slice):
        base = _length(func, expr.value, lens, depth + 1)
        if base is None:
            return None
        lower, upper = expr.slice.lower, expr.slice.upper
        cut = 0
        if lower is not None:
            if isinstance(lower, ast.Constant) and lower.value >= 0:
                cut += lower.value
            else:
                return None
        if upper is not None:
            if isinstance(upper, ast.UnaryOp) and isinstance(
                    upper.op, ast.USub) and isinstance(
                        upper.operand, ast.Constant):
                cut += upper.operand.value
            else:
                return None
        return base + _Len(const=-cut)
    if isinstance(expr, ast.Call) and call_name(expr) in (
            'list', 'tuple', 'sorted', 'reversed', 'enumerate') and \
            expr.args:
        return _length(func, expr.args[0], lens, depth + 1)
    if isinstance(expr, ast.Call) and call_name(expr) == 'zip' and expr.args:
        got = [_length(func, a, lens, depth + 1) for a in expr.args]
        if all(g is not None for g in got) and len({g.key() for g in got}) \
                == 1:
            return got[0]
        return None
    if isinstance(expr, ast.BinOp) and isinstance(expr.op, ast.Mult) and \
            isinstance(expr.left, ast.List) and len(expr.left.elts) == 1:
        if isinstance(expr.right, ast.Constant):
            return _Len(const=expr.right.value)
        return _Len({'n:' + txt(expr.right): 1})
    if isinstance(expr, ast.BinOp) and isinstance(expr.op, ast.Add):
        one = _length(func, expr.left, lens, depth + 1)
        two = _length(func, expr.right, lens, depth + 1)
        return None if one is None or two is None else one + two
    return None


def _list_lengths(func):
    '''Symbolic lengths of the local lists of a straight-line builder.'''
    lens = {}
    body = [s for s in func.node.body]

    def visit(stmts):
        for stmt in stmts:
            if isinstance(stmt, ast.Assign) and len(stmt.targets) == 1:
                tgt = stmt.targets[0]
                if isinstance(tgt, ast.Name):
                    lens[tgt.id] = _length(func, stmt.value, lens)
                    if lens[tgt.id] is None and isinstance(
                            stmt.value, ast.Call):
                        lens[tgt.id] = None
                elif isinstance(tgt, ast.Tuple) and isinstance(
                        stmt.value, ast.Call):
                    # a, b = f(...): lists of equal, unknown length when the
                    # callee documents "a pair of lists of equal length"
                    if call_name(stmt.value) == 'classification_counts':
                        for elt in tgt.elts:
                            if isinstance(elt, ast.Name):
                                lens[elt.id] = _Len(
                                    {'len:' + txt(stmt.value)[:40]: 1})
                    else:
                        for elt in tgt.elts:
                            if isinstance(elt, ast.Name):
                                lens[elt.id] = None
            elif isinstance(stmt, ast.Expr) and isinstance(stmt.value,
                                                           ast.Call):
                call = stmt.value
                recv = receiver(call)
                if isinstance(recv, ast.Name) and recv.id in lens and \
                        lens[recv.id] is not None:
                    if call_name(call) == 'append':
                        lens[recv.id] = lens[recv.id] + _Len(const=1)
                    elif call_name(call) == 'extend' and call.args:
                        add = _length(func, call.args[0], lens)
                        lens[recv.id] = None if add is None else \
                            lens[recv.id] + add
            elif isinstance(stmt, (ast.For, ast.While, ast.If)):
                # lists touched inside loops / branches become unknown
                for node in ast.walk(stmt):
                    if isinstance(node, ast.Call) and call_name(node) in (
                            'append', 'extend', 'insert', 'pop') and \
                            isinstance(receiver(node), ast.Name):
                        lens[receiver(node).id] = None
                    if isinstance(node, ast.Assign):
                        for tgt in node.targets:
                            if isinstance(tgt, ast.Name):
                                lens[tgt.id] = None
            elif isinstance(stmt, ast.Return):
                break
    visit(body)
    return lens


def check_len_aligned(ctx):
    program = ctx.program
    mod = program.module(TREPR)
    n_dec = 0
    n_sites = 0
    for func in mod.functions.values():
        if func.parent is not None:
            continue
        calls = [n for n in walk_local(func.node) if isinstance(n, ast.Call)
                 and call_name(n) == 'TableTemplate']
        if not calls:
            continue
        lens = _list_lengths(func)
        for call in calls:
            hls = [k.value for k in call.keywords if k.arg == 'highlights']
            if not hls or any(isinstance(a, ast.Starred) for a in call.args):
                continue
            hl = hls[0]
            if not isinstance(hl, ast.List) or len(hl.elts) != len(
                    call.args):
                continue
            n_sites += 1
            for col, high in zip(call.args, hl.elts):
                lcol = _length(func, col, lens)
                lhigh = _length(func, high, lens)
                if lcol is None or lhigh is None:
                    continue
                n_dec += 1
                same = lcol.key() == lhigh.key()
                comparable = lcol.terms == lhigh.terms
                ctx.decide('LEN-ALIGNED', func,
                           f'{func.name}: len({txt(high)}) = {lhigh!r} vs '
                           f'len({txt(col)}) = {lcol!r}',
                           True if same else False if comparable else None,
                           at=func.where(call),
                           detail='rows are zipped with their highlight '
                                  'flags: a shorter highlight column '
                                  'silently drops the last rows'
                           if not same else None)
    ctx.stats['len_aligned_sites'] = n_sites
    ctx.floor('LEN-ALIGNED', n_dec, 2, 'highlight / column pairs with '
              'linear lengths')


# ------------------------------------------------------------- ROW-SELECT --

PER_BIN_VERDICT = {'oracles', 'equal', 'approx_equal', 'dict_res',
                   'rejected_null_hyp', 'only_failed_comparisons'}
STATISTIC_NAMES = {'tstud', 'pvalue', 'threshold', 'alpha', 'delta',
                   'chi2', 'chi2_per_ndf', 'alphas_i'}


def check_row_select(ctx):
    '''Detailed tables that show only some bins select them with the SAME
    per-bin verdict that drives the highlights (oracles(), equal, ...): a
    selection re-derived from the statistic (|t| >= threshold ...) disagrees
    with the oracles on undefined bins (NaN compares false both ways), so
    failing bins drop out of the table.'''
    program = ctx.program
    mod = program.module(TREPR)
    n = 0
    for func in mod.functions.values():
        if func.parent is not None or not func.params or \
                func.params[0] != 'result':
            continue
        selectors = []
        for node in walk_local(func.node):
            if isinstance(node, ast.Call) and call_name(node) in (
                    'where', 'nonzero', 'flatnonzero', 'argwhere') and \
                    node.args:
                selectors.append(node.args[0])
        seen = set()
        for sel in selectors:
            key = txt(sel)
            if key in seen:
                continue
            seen.add(key)
            n += 1
            from_verdict = _derives_from_family(func, sel, PER_BIN_VERDICT)
            from_stat = _derives_from_family(func, sel, STATISTIC_NAMES)
            ctx.decide('ROW-SELECT', func,
                       f'{func.name}: rows selected where `{key[:50]}`',
                       True if from_verdict else False if from_stat
                       else None, at=func.where(sel),
                       detail='the shown bins are chosen by a criterion '
                              're-computed from the statistic, the '
                              'highlights come from the oracles: a bin with '
                              'an undefined statistic fails the test but is '
                              'left out of the table'
                       if not from_verdict and from_stat else None)
    ctx.floor('ROW-SELECT', n, 1, 'row selectors (np.where) in the detailed '
              'tables')


# ------------------------------------------------------------ HL-SOURCE ---

def _result_chains(func, pname='result'):
    """Maximal attribute chains rooted at the result parameter."""
    chains = set()
    inner = set()
    for node in ast.walk(func.node):
        if isinstance(node, ast.Attribute):
            dot = dotted(node)
            if dot and dot.split('.')[0] == pname:
                chains.add(dot)
                if isinstance(node.value, ast.Attribute):
                    inner.add(dotted(node.value))
    return {c for c in chains if c not in inner} | {
        c for c in chains if c.count('.') == 1 and c not in inner}


def _flow_sources(func, expr, pname='result'):
    """('verdict' | 'inputs') kinds of result-rooted data the expression
    depends on (flow-insensitive closure over the local names)."""
    from . import verdict as V
    kinds = set()
    for chain in _result_chains(func, pname):
        derived = V.derived_names(func.node, {chain})
        if V.mentions(expr, derived - {chain}, (chain,)) or any(
                isinstance(n, ast.Attribute) and (dotted(n) or '').startswith(
                    chain) for n in ast.walk(expr)):
            kinds.add('inputs' if chain.startswith(f'{pname}.test')
                      else 'verdict')
    return kinds


def check_hl_source(ctx):
    """The highlights of a table come from what the result RECORDED (its
    per-key / per-bin verdicts: dict_res, oracles(), equal ...), not from a
    comparison re-made by the representer on the inputs of the test
    (result.test...), formatted or not: two criteria can disagree (values
    equal but printed differently, different but printed alike, NaN), and
    then the table marks a passing result or shows a failing one unmarked."""
    from . import verdict as V
    program = ctx.program
    mod = program.module(TREPR)
    funcs = [f for f in mod.functions.values() if f.parent is None]
    # helpers (no result parameter) that build the table: which parameters
    # reach the highlights
    helper_params = {}
    for func in funcs:
        if func.params[:1] == ['result']:
            continue
        for call in calls_in(func.node):
            if call_name(call) != 'TableTemplate':
                continue
            hlt = next((k.value for k in call.keywords
                        if k.arg == 'highlights'), None)
            if hlt is None:
                continue
            reach = set()
            for par in func.params:
                derived = V.derived_names(func.node, {par})
                if V.mentions(hlt, derived):
                    reach.add(par)
            helper_params[func.name] = (func, reach)
    n = 0
    for func in funcs:
        if func.params[:1] != ['result']:
            continue
        sites = []
        for call in calls_in(func.node):
            if call_name(call) == 'TableTemplate':
                hlt = next((k.value for k in call.keywords
                            if k.arg == 'highlights'), None)
                if hlt is not None:
                    sites.append((call, [hlt]))
            elif call_name(call) in helper_params and isinstance(
                    call.func, ast.Name):
                helper, reach = helper_params[call.func.id]
                args = []
                for par, arg in zip(helper.params, call.args):
                    if par in reach:
                        args.append(arg)
                for kwd in call.keywords:
                    if kwd.arg in reach:
                        args.append(kwd.value)
                sites.append((call, args))
        for call, exprs in sites:
            kinds = set()
            for expr in exprs:
                kinds |= _flow_sources(func, expr)
            if not kinds:
                continue            # constant highlights
            n += 1
            ctx.decide('HL-SOURCE', func,
                       f'{func.name}: highlights of {txt(call)[:40]} derive '
                       f'from {sorted(kinds)}',
                       True if 'verdict' in kinds else False,
                       at=func.where(call),
                       detail=None if 'verdict' in kinds else
                       'the marks are re-computed from the inputs of the '
                       'test (result.test...) instead of the verdicts the '
                       'result recorded')
    ctx.floor('HL-SOURCE', n, 5, 'tables with non-constant highlights')


# ----------------------------------------------------------- HL-PER-DS ---

def _constant_flags(func, expr, depth=0):
    """The expression is an array / list of constant flags (all False or all
    True), possibly through a local name."""
    if isinstance(expr, ast.Constant):
        return True
    if isinstance(expr, ast.Call) and call_name(expr) in (
            'zeros', 'ones', 'full', 'full_like', 'zeros_like', 'ones_like'):
        return True
    if isinstance(expr, (ast.List, ast.Tuple)):
        return all(_constant_flags(func, e, depth) for e in expr.elts)
    if isinstance(expr, ast.BinOp) and isinstance(expr.op, ast.Mult):
        return _constant_flags(func, expr.left, depth)
    if isinstance(expr, ast.Name) and depth < 3:
        defs = [n.value for n in walk_local(func.node)
                if isinstance(n, ast.Assign) and any(
                    isinstance(t, ast.Name) and t.id == expr.id
                    for t in n.targets)]
        return bool(defs) and all(_constant_flags(func, d, depth + 1)
                                  for d in defs)
    return False


def check_hl_per_dataset(ctx):
    """With several compared datasets every dataset has its own verdict
    column: its flags come from ITS oracle.  A list of flag columns obtained
    by REPEATING one non-constant array (`[f, f, f, kos] * len(oracles)`)
    marks every dataset alike - with the combined verdict, a dataset that
    passes in a listed bin is highlighted as failing."""
    program = ctx.program
    mod = program.module(TREPR)
    n = 0
    bad = 0
    for func in mod.functions.values():
        if func.parent is not None or func.params[:1] != ['result']:
            continue
        hl_names = {'highlights', 'highl', 'hlights'}
        for node in walk_local(func.node):
            val = None
            if isinstance(node, ast.AugAssign) and isinstance(
                    node.target, ast.Name) and node.target.id in hl_names:
                val = node.value
            elif isinstance(node, ast.Assign) and any(
                    isinstance(t, ast.Name) and t.id in hl_names
                    for t in node.targets):
                val = node.value
            if val is None:
                continue
            for sub in ast.walk(val):
                if isinstance(sub, ast.BinOp) and isinstance(
                        sub.op, ast.Mult) and isinstance(
                            sub.left, (ast.List, ast.Tuple)) and not \
                        isinstance(sub.right, ast.Constant):
                    n += 1
                    varying = [e for e in sub.left.elts
                               if not _constant_flags(func, e)]
                    if varying:
                        bad += 1
                    ctx.decide('HL-PER-DS', func,
                               f'{func.name}: flag columns {txt(sub)[:60]}',
                               not varying, at=func.where(node),
                               detail=None if not varying else
                               f'`{txt(varying[0])}` is one array repeated '
                               f'for every dataset: the columns of a '
                               f'dataset that passes are marked with the '
                               f'flags of the one that fails')
    if not n:
        ctx.holds('HL-PER-DS', TREPR, 'no flag column obtained by repeating '
                  'one non-constant array', nontrivial=False)


# ---------------------------------------------------------- ZIP-PARALLEL ---

def _reorder_kind(func_node, expr, defs, depth=0):
    '''('sorted', text) / ('filter', text) when the sequence denoted by the
    expression has been re-ordered or filtered, None when it is taken as it
    is.'''
    if depth > 4:
        return None
    # every element is the same constant: no order to speak of
    if isinstance(expr, ast.BinOp) and isinstance(expr.op, ast.Mult) and \
            isinstance(expr.left, (ast.List, ast.Tuple)) and all(
                isinstance(e, ast.Constant) for e in expr.left.elts):
        return ('const', txt(expr)[:30])
    if isinstance(expr, (ast.List, ast.Tuple)) and expr.elts and all(
            isinstance(e, ast.Constant) for e in expr.elts) and len(
                {repr(e.value) for e in expr.elts}) == 1:
        return ('const', txt(expr)[:30])
    if isinstance(expr, ast.Name):
        for node in ast.walk(func_node):
            if isinstance(node, ast.Call) and call_name(node) in (
                    'sort', 'reverse') and isinstance(
                        receiver(node), ast.Name) and \
                    receiver(node).id == expr.id:
                return ('sorted', txt(node)[:50])
        vals = defs.get(expr.id, [])
        if len(vals) == 1:
            return _reorder_kind(func_node, vals[0], defs, depth + 1)
        return None
    if isinstance(expr, ast.Call) and isinstance(expr.func, ast.Name):
        if expr.func.id in ('sorted', 'reversed'):
            return ('sorted', txt(expr)[:50])
        if expr.func.id == 'filter':
            return ('filter', txt(expr)[:50])
        if expr.func.id in ('list', 'tuple') and expr.args:
            return _reorder_kind(func_node, expr.args[0], defs, depth + 1)
    if isinstance(expr, (ast.ListComp, ast.GeneratorExp)):
        if any(gen.ifs for gen in expr.generators):
            return ('filter', txt(expr)[:50])
        if len(expr.generators) == 1:
            return _reorder_kind(func_node, expr.generators[0].iter, defs,
                                 depth + 1)
    if isinstance(expr, ast.Subscript) and isinstance(
            expr.slice, ast.Slice) and isinstance(
                expr.slice.step, ast.UnaryOp):
        return ('sorted', txt(expr)[:50])
    return None


def _local_defs(func):
    defs = {}
    for node in walk_local(func.node):
        if isinstance(node, ast.Assign) and len(node.targets) == 1 and \
                isinstance(node.targets[0], ast.Name):
            defs.setdefault(node.targets[0].id, []).append(node.value)
    return defs


def check_zip_parallel(ctx, modules=(TREPR,)):
    """Sequences walked in parallel (`zip(rows, oracles)`) pair their
    elements by POSITION: when one of them has been sorted, reversed or
    filtered and another one has not, the marks land on the wrong rows.  The
    operands are followed to their origin: through single-assignment locals,
    and through the parameters of a helper to the arguments of its call sites
    in the module."""
    program = ctx.program
    n = 0
    for modname in modules:
        mod = program.module(modname)
        program.consulted.add(mod.relpath)
        callers = {}
        for func in mod.functions.values():
            for call in calls_in(func.node):
                if isinstance(call.func, ast.Name):
                    callers.setdefault(call.func.id, []).append((func, call))
        for func in mod.functions.values():
            defs = _local_defs(func)
            for call in calls_in(func.node):
                if not (isinstance(call.func, ast.Name) and
                        call.func.id == 'zip' and len(call.args) >= 2):
                    continue
                n += 1
                # one list of kinds per calling context
                contexts = [(func, None)]
                if any(isinstance(a, ast.Name) and a.id in func.params
                       for a in call.args) and callers.get(func.name):
                    contexts = [(cfunc, ccall)
                                for cfunc, ccall in callers[func.name]]
                bad = None
                for cfunc, ccall in contexts:
                    kinds = []
                    for arg in call.args:
                        kind = _reorder_kind(func.node, arg, defs)
                        if kind is None and ccall is not None and isinstance(
                                arg, ast.Name) and arg.id in func.params:
                            pos = func.params.index(arg.id)
                            actual = ccall.args[pos] if pos < len(
                                ccall.args) else next(
                                    (k.value for k in ccall.keywords
                                     if k.arg == arg.id), None)
                            if actual is not None:
                                kind = _reorder_kind(cfunc.node, actual,
                                                     _local_defs(cfunc))
                        kinds.append(kind)
                    kinds_all = list(kinds)
                    kinds = [k for k in kinds
                             if k is None or k[0] != 'const']
                    if any(k is not None for k in kinds) and any(
                            k is None for k in kinds):
                        bad = (cfunc, kinds_all)
                        break
                where = func.where(call)
                if bad is None:
                    ctx.holds('ZIP-PARALLEL', func,
                              f'{func.name}: {txt(call)[:50]} operands in '
                              f'their common order', at=where,
                              nontrivial=False)
                else:
                    cfunc, kinds = bad
                    moved = next(k for k in kinds if k is not None and
                                 k[0] != 'const')
                    still = txt(call.args[kinds.index(None)])
                    ctx.violated(
                        'ZIP-PARALLEL', func,
                        f'{func.name}: {txt(call)[:50]} pairs a re-ordered '
                        f'sequence ({moved[1]}'
                        + (f', in {cfunc.name}' if cfunc is not func else '')
                        + f') with `{still}` in its original order',
                        at=where,
                        detail='rows and marks are paired by position: the '
                               'highlight of one category is put on '
                               'another one')
    ctx.floor('ZIP-PARALLEL', n, 5, 'zip() calls in the table representers')
