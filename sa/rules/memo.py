'''C15 - generated tasks correspond one-to-one to requests: KEY (cache-key
completeness of the two memo functions), UNIQUE, CLOSE-FIELDS.

KEY.  A memo site is a function that tests `k in D`, returns `D[k]` on a hit
and stores `D[k] = <new task>` on a miss, with D a dict kept on the class or
the instance.  For every CFG path from the entry to the membership test the
SOURCES the key `k` is computed from are collected by a per-path def-use
interpretation (sources: `self.<field>` with an element component, and
parameters); the sources the NEW TASK is built from (constructor arguments
and the free variables of the closures handed to it) are collected the same
way.  Rule: behaviour sources  ⊆  key sources  ∪  (fields of the object that
owns an instance-level cache)  ∪  (sources compared on a hit).
'''
import ast

from ..astutil import txt, call_name, receiver, walk_local, dotted, calls_in
from ..cfg import CFG
from ..loader import AnalysisError

SITES = ('valjean.cosette.use:Use.get_task',
         'valjean.cosette.run:RunTaskFactory.make')


# ------------------------------------------------------------- sources ----

class Env:
    '''name -> set of sources (strings).'''

    def __init__(self, func):
        self.func = func
        self.vars = {}
        self.unordered = set()      # sources that went through set/sorted
        args = func.node.args
        for arg in args.posonlyargs + args.args + args.kwonlyargs:
            if arg.arg not in ('self', 'cls'):
                self.vars[arg.arg] = {f'param:{arg.arg}'}
        if args.kwarg:
            self.vars[args.kwarg.arg] = {f'param:**{args.kwarg.arg}'}
        if args.vararg:
            self.vars[args.vararg.arg] = {f'param:*{args.vararg.arg}'}

    def clone(self):
        new = Env.__new__(Env)
        new.func = self.func
        new.vars = {k: set(v) for k, v in self.vars.items()}
        new.unordered = set(self.unordered)
        return new


def _field_of(expr):
    '''"inj_args" for self.inj_args'''
    if isinstance(expr, ast.Attribute) and isinstance(
            expr.value, ast.Name) and expr.value.id in ('self', 'cls'):
        return expr.attr
    return None


def elem_sources(expr, env):
    '''Sources of the ELEMENTS produced by iterating expr: list of
    (source prefix, kind) with kind in 'list' | 'values' | 'items' | 'keys'
    | 'opaque'.'''
    if isinstance(expr, ast.Call):
        cname = call_name(expr)
        if cname in ('reversed', 'sorted', 'list', 'tuple', 'set',
                     'frozenset', 'iter') and expr.args:
            return elem_sources(expr.args[0], env)
        if cname == 'chain':
            out = []
            for arg in expr.args:
                out += elem_sources(arg, env)
            return out
        if cname in ('values', 'items', 'keys') and receiver(expr) is not \
                None:
            fld = _field_of(receiver(expr))
            if fld:
                return [(f'self.{fld}', cname)]
            return [(src, cname) for src in sources(receiver(expr), env)]
    fld = _field_of(expr)
    if fld:
        return [(f'self.{fld}', 'list')]
    if isinstance(expr, ast.Name):
        return [(src, 'list*') for src in env.vars.get(expr.id, ())]
    return [(src, 'opaque') for src in sources(expr, env)]


def bind_target(target, elems, env):
    '''Bind a loop / comprehension target to element sources with
    components.'''
    def comp_sources(path):
        out = set()
        for prefix, kind in elems:
            if kind == 'list*' or kind == 'opaque':
                out.add(prefix if not path else prefix)
                continue
            if kind == 'keys':
                out.add(f'{prefix}.keys')
            elif kind == 'values':
                out.add(f'{prefix}[*]' + ''.join(f'[{p}]' for p in path))
            elif kind == 'items':
                if not path:
                    out.add(f'{prefix}.keys')
                    out.add(f'{prefix}[*]')
                elif path[0] == 0:
                    out.add(f'{prefix}.keys')
                else:
                    out.add(f'{prefix}[*]' + ''.join(f'[{p}]'
                                                     for p in path[1:]))
            else:
                out.add(f'{prefix}[*]' + ''.join(f'[{p}]' for p in path))
        return out

    def rec(tgt, path):
        if isinstance(tgt, ast.Name):
            env.vars[tgt.id] = comp_sources(path)
        elif isinstance(tgt, (ast.Tuple, ast.List)):
            for idx, elt in enumerate(tgt.elts):
                rec(elt, path + [idx])
    rec(target, [])


def sources(expr, env):
    '''Set of sources the value of expr depends on.'''
    if expr is None:
        return set()
    if isinstance(expr, ast.Constant):
        return set()
    if isinstance(expr, ast.Name):
        return set(env.vars.get(expr.id, ()))
    fld = _field_of(expr)
    if fld:
        meth = _method_of(env.func, fld)
        if meth is not None:
            # a bound method handed over as a callable (`partial(self._run,
            # name)`): the task depends on what the method reads, exactly
            # like a closure defined on the spot
            return free_sources(meth.node, env)
        return {f'self.{fld}'}
    if isinstance(expr, ast.Attribute):
        # x.name, x.attr : property of the same source
        return sources(expr.value, env)
    if isinstance(expr, ast.Subscript):
        base = sources(expr.value, env)
        idx = expr.slice
        if isinstance(idx, ast.Constant) and isinstance(idx.value, int):
            return {_with_index(src, idx.value) for src in base}
        return base | sources(idx, env)
    if isinstance(expr, (ast.GeneratorExp, ast.ListComp, ast.SetComp,
                         ast.DictComp)):
        local = env.clone()
        for gen in expr.generators:
            bind_target(gen.target, elem_sources(gen.iter, local), local)
        out = set()
        for gen in expr.generators:
            for cond in gen.ifs:
                out |= sources(cond, local)
        if isinstance(expr, ast.DictComp):
            return out | sources(expr.key, local) | sources(expr.value,
                                                            local)
        return out | sources(expr.elt, local)
    if isinstance(expr, ast.Call):
        out = set()
        cname = call_name(expr)
        recv = receiver(expr)
        if recv is not None and not (isinstance(recv, ast.Name) and
                                     recv.id in ('LOGGER',)):
            out |= sources(recv, env)
        # self.<field>(...) : calling a callable stored in a field
        fld = _field_of(expr.func)
        if fld and not _is_method(env.func, fld):
            out.add(f'self.{fld}')
        for arg in expr.args:
            out |= sources(arg.value if isinstance(arg, ast.Starred)
                           else arg, env)
        for kwd in expr.keywords:
            out |= sources(kwd.value, env)
        if cname in ('set', 'sorted', 'frozenset'):
            env.unordered |= {_strip(s) for s in out}
        return out
    if isinstance(expr, ast.Lambda):
        return free_sources(expr, env)
    out = set()
    for child in ast.iter_child_nodes(expr):
        if isinstance(child, ast.expr):
            out |= sources(child, env)
    return out


def _method_of(func, name):
    todo = [func.cls] if getattr(func, 'cls', None) is not None else []
    seen = set()
    while todo:
        klass = todo.pop()
        if not hasattr(klass, 'methods') or id(klass) in seen:
            continue
        seen.add(id(klass))
        if name in klass.methods:
            return klass.methods[name]
        todo.extend(klass.bases)
    return None


def _is_method(func, name):
    todo = [func.cls] if func.cls is not None else []
    seen = set()
    while todo:
        klass = todo.pop()
        if not hasattr(klass, 'methods') or id(klass) in seen:
            continue
        seen.add(id(klass))
        if name in klass.methods:
            return True
        todo.extend(klass.bases)
    return False


def _with_index(src, idx):
    if src.endswith('[*]') or src.endswith(']'):
        return f'{src}[{idx}]'
    return src


def _strip(src):
    return src.split('[')[0].split('.keys')[0]


def free_sources(funcnode, env):
    '''Sources read by a nested function / lambda through its free
    variables and through self.<field>.'''
    local = env.clone()
    args = funcnode.args
    for arg in args.posonlyargs + args.args + args.kwonlyargs:
        local.vars[arg.arg] = set()
    body = funcnode.body if isinstance(funcnode.body, list) else \
        [ast.Expr(value=funcnode.body)]
    out = set()
    out |= _block_sources(body, local)
    return out


def _block_sources(stmts, env):
    '''All sources read by the statements (a closure body is executed
    later: every read counts), binding loop targets on the way.'''
    out = set()
    for stmt in stmts:
        if isinstance(stmt, (ast.For,)):
            elems = elem_sources(stmt.iter, env)
            bind_target(stmt.target, elems, env)
            if any(kind == 'opaque' for _src, kind in elems):
                out |= sources(stmt.iter, env)
            out |= _block_sources(stmt.body, env)
            out |= _block_sources(stmt.orelse, env)
        elif isinstance(stmt, ast.Assign):
            val = sources(stmt.value, env)
            out |= val
            for tgt in stmt.targets:
                if isinstance(tgt, ast.Name):
                    env.vars[tgt.id] = val
                elif isinstance(tgt, (ast.Tuple, ast.List)):
                    for elt in tgt.elts:
                        if isinstance(elt, ast.Name):
                            env.vars[elt.id] = val
                elif isinstance(tgt, ast.Subscript):
                    out |= sources(tgt.slice, env)
                    base = tgt.value
                    if isinstance(base, ast.Name):
                        env.vars[base.id] = env.vars.get(base.id,
                                                         set()) | val
        elif isinstance(stmt, ast.If):
            out |= sources(stmt.test, env)
            out |= _block_sources(stmt.body, env)
            out |= _block_sources(stmt.orelse, env)
        elif isinstance(stmt, ast.Return):
            out |= sources(stmt.value, env)
        elif isinstance(stmt, ast.Expr):
            call = stmt.value
            if isinstance(call, ast.Call):
                recv = receiver(call)
                if dotted(recv) and dotted(recv).split('.')[0] == 'LOGGER':
                    continue
                srcs = sources(call, env)
                out |= srcs
                if call_name(call) in ('append', 'extend', 'add', 'update') \
                        and isinstance(recv, ast.Name):
                    env.vars[recv.id] = env.vars.get(recv.id, set()) | srcs
            else:
                out |= sources(stmt.value, env)
        elif isinstance(stmt, (ast.With, ast.Try)):
            out |= _block_sources(stmt.body, env)
            for hdl in getattr(stmt, 'handlers', []):
                out |= _block_sources(hdl.body, env)
        elif isinstance(stmt, (ast.FunctionDef,)):
            env.vars[stmt.name] = free_sources(stmt, env)
        elif isinstance(stmt, (ast.Import, ast.ImportFrom, ast.Pass)):
            continue
        else:
            for child in ast.walk(stmt):
                if isinstance(child, ast.expr):
                    out |= sources(child, env)
                    break
    return out


# ---------------------------------------------------------------- sites ---

class MemoSite:
    def __init__(self, func, cache_txt, key_var, test_node, store_node,
                 new_var, level):
        self.func = func
        self.cache = cache_txt
        self.key = key_var
        self.test = test_node
        self.store = store_node
        self.new = new_var
        self.level = level          # 'class' | 'instance'


def find_memo_site(program, key):
    func = program.func(key)
    store = None
    for node in walk_local(func.node):
        if isinstance(node, ast.Assign) and isinstance(
                node.targets[0], ast.Subscript) and _field_of(
                    node.targets[0].value) and isinstance(
                        node.targets[0].slice, ast.Name):
            store = node
    if store is None:
        raise AnalysisError(f'KEY: no cache store D[k] = task in {key}')
    cache = txt(store.targets[0].value)
    kvar = store.targets[0].slice.id
    test = None
    for node in walk_local(func.node):
        if isinstance(node, ast.Compare) and len(node.ops) == 1 and \
                isinstance(node.ops[0], (ast.In, ast.NotIn)) and \
                txt(node.left) == kvar and txt(node.comparators[0]) == cache:
            test = node
    if test is None:
        # `hit = cache.get(key)` followed by `if hit is not None:` / `if hit:`
        got = {}
        for node in walk_local(func.node):
            if isinstance(node, ast.Assign) and len(node.targets) == 1 and \
                    isinstance(node.targets[0], ast.Name) and isinstance(
                        node.value, ast.Call) and call_name(node.value) == \
                    'get' and receiver(node.value) is not None and txt(
                        receiver(node.value)) == cache and node.value.args \
                    and txt(node.value.args[0]) == kvar:
                got[node.targets[0].id] = node
        for node in walk_local(func.node):
            if isinstance(node, ast.If):
                names = {n.id for n in ast.walk(node.test)
                         if isinstance(n, ast.Name)}
                if names & set(got) and any(
                        isinstance(s, ast.Return) for s in node.body +
                        node.orelse):
                    test = node.test
    if test is None:
        raise AnalysisError(f'KEY: no membership test {kvar} in {cache}')
    fld = _field_of(store.targets[0].value)
    level = 'instance'
    if func.cls is not None:
        for stmt in func.cls.node.body:
            if isinstance(stmt, ast.Assign) and any(
                    txt(t) == fld for t in stmt.targets):
                level = 'class'
    newvar = txt(store.value)
    return MemoSite(func, cache, kvar, test, store, newvar, level)


def _path_envs(site):
    '''For every CFG path entry -> membership test: (label, Env at the
    test, Env continued to the store along the miss edge).'''
    func = site.func
    cfg = CFG(func.node, may_raise=lambda n: False)
    test_nodes = [n for n in cfg.nodes if n.kind == 'test' and any(
        sub is site.test for sub in ast.walk(n.ast))]
    if not test_nodes:
        raise AnalysisError('KEY: membership test not a CFG test node')
    tnode = test_nodes[0]
    store_nodes = [n for n in cfg.nodes if n.kind == 'stmt' and
                   n.ast is site.store]
    out = []
    for path in cfg.paths(cfg.entry, stop_ids={tnode.id}):
        if path[-1][0] is not tnode:
            continue
        env = Env(func)
        label = []
        for node, edge in path[:-1]:
            _step(node, edge, env, label)
        out.append((' ; '.join(label) or 'straight', env))
    # continuation: from the test (miss edge) to the store, one walk over
    # the statements in source order (the construction code is linear)
    return cfg, tnode, store_nodes, out


def _step(node, edge, env, label):
    if node.kind == 'stmt':
        _block_sources([node.ast], env)
    elif node.kind == 'test':
        label.append(f'{txt(node.ast)[:40]}={edge[0].upper()}')
    elif node.kind == 'iter' and edge == 'loop':
        bind_target(node.ast.target, elem_sources(node.ast.iter, env), env)


def analyse_site(site):
    '''Per path: key sources, behaviour sources.'''
    cfg, tnode, store_nodes, envs = _path_envs(site)
    func = site.func
    results = []
    # statements on the miss side: everything after the test statement in
    # the function body (source order)
    body = func.node.body
    idx = None
    for pos, stmt in enumerate(body):
        if any(sub is site.test for sub in ast.walk(stmt)):
            idx = pos
    after = body[idx + 1:] if idx is not None else []
    for label, env in envs:
        kenv = env.clone()
        ksrc = sources(ast.Name(id=site.key, ctx=ast.Load()), kenv)
        # control dependence of the key: tests on the path that guard
        # assignments of the key variable
        benv = env.clone()
        benv.unordered = set()
        _block_sources(after, benv)
        new_src = set()
        for stmt in after:
            for node in ast.walk(stmt):
                if isinstance(node, ast.Assign) and any(
                        txt(t) == site.new for t in node.targets):
                    new_src |= sources(node.value, benv)
        results.append({'path': label, 'key': ksrc,
                        'unordered': set(kenv.unordered),
                        'behaviour': new_src})
    return results


def _norm(src):
    return src


def _covered(src, keyset):
    '''A behaviour source is covered if the key has it, a prefix of it (the
    whole field), or the same source at field level.'''
    if src in keyset:
        return True
    for k in keyset:
        if src.startswith(k + '[') or src.startswith(k + '.'):
            return True
    return False


def _check_key_injective(ctx, program, site):
    '''The sources reach the key through an encoding that keeps them apart:
    a structured hash of the values themselves.  `sep.join(parts)` of a
    sequence source forgets where one element ends and the next begins
    (['--title', 'spam eggs'] and ['--title', 'spam', 'eggs'] collide), as do
    string concatenation and `%`-formatting of several sources without a
    delimiter that cannot occur in them.'''
    func = site.func
    defs = {}
    for node in walk_local(func.node):
        if isinstance(node, ast.Assign) and len(node.targets) == 1 and \
                isinstance(node.targets[0], ast.Name):
            defs.setdefault(node.targets[0].id, []).append(node.value)
    seen = set()
    todo = [ast.Name(id=site.key, ctx=ast.Load())] if isinstance(
        site.key, str) and site.key.isidentifier() else []
    exprs = []
    while todo:
        cur = todo.pop()
        for node in ast.walk(cur):
            if isinstance(node, ast.Name) and node.id in defs and \
                    node.id not in seen:
                seen.add(node.id)
                todo.extend(defs[node.id])
                exprs.extend(defs[node.id])
            if isinstance(node, ast.Call):
                cands, how = program.resolve_call(func, node)
                if how != 'by-unique-name':
                    for cand in cands[:1]:
                        if cand.key not in seen and \
                                cand.module.name.startswith('valjean'):
                            seen.add(cand.key)
                            for ret in walk_local(cand.node):
                                if isinstance(ret, ast.Return) and \
                                        ret.value is not None:
                                    exprs.append(ret.value)
                                    todo.append(ret.value)
    joins = []
    for expr in exprs:
        for node in ast.walk(expr):
            if isinstance(node, ast.Call) and call_name(node) == 'join' and \
                    isinstance(node.func, ast.Attribute) and isinstance(
                        node.func.value, ast.Constant) and isinstance(
                            node.func.value.value, str):
                joins.append(node)
    for node in joins[:2]:
        ctx.violated('KEY-INJECTIVE', func,
                     f'{site.cache}[{site.key}]: key built from '
                     f'{txt(node)[:50]}', at=func.where(site.test),
                     detail='joining the elements of a sequence with a '
                            'separator that may occur inside them is not '
                            'injective: two different requests spell the '
                            'same string and silently share one task')
    if not joins:
        ctx.holds('KEY-INJECTIVE', func,
                  f'{site.cache}[{site.key}]: no separator-joined sequence '
                  f'on the way to the key', at=func.where(site.test),
                  nontrivial=False)


def check_key(ctx):
    program = ctx.program
    n = 0
    for key in SITES:
        site = find_memo_site(program, key)
        n += 1
        program.consulted.add(site.func.module.relpath)
        results = analyse_site(site)
        ctx.count('cfg_paths', len(results))
        ctx.stats[f'memo[{site.func.qual}]'] = {
            'cache': site.cache, 'level': site.level, 'key': site.key,
            'paths': len(results)}
        missing = {}
        for res in results:
            beh = set(res['behaviour'])
            # the key itself and constants are not requests
            for src in sorted(beh):
                if src.startswith('self.') and site.level == 'instance':
                    continue          # constant for the owner of the cache
                if _covered(src, res['key']):
                    continue
                missing.setdefault(src, []).append(res['path'])
            # order / multiplicity lost: the key saw the field only through
            # set() / sorted() while the task uses its elements in order
            for src in sorted(beh):
                base = _strip(src)
                if base in res['unordered'] and _covered(src, res['key']) \
                        and base.startswith('self.') and \
                        _ordered_use(site.func, base):
                    missing.setdefault(f'order of {base}', []).append(
                        res['path'])
        all_paths = {res['path'] for res in results}
        for src in sorted(missing):
            paths = sorted(set(missing[src]))
            where = 'every path' if set(paths) == all_paths else \
                'path ' + ' | '.join(paths)
            scope = 'always' if set(paths) == all_paths else \
                'when ' + ' | '.join(paths)
            if len(scope) > 90:
                scope = scope[:87] + '...'
            ctx.violated('KEY', site.func,
                         f'{site.cache}[{site.key}]: key ignores {src} '
                         f'({scope})',
                         at=site.func.where(site.test),
                         detail={'why': f'the created task depends on '
                                        f'{src}, the cache key does not: '
                                        f'two requests that differ there '
                                        f'silently share one task',
                                 'on': where})
        if not missing:
            ctx.holds('KEY', site.func, f'{site.cache}[{site.key}]: every '
                      f'input of the created task is part of the key',
                      at=site.func.where(site.test),
                      detail={'paths': len(results)})
        _check_key_injective(ctx, program, site)
        # what the key does cover (evidence)
        cov = sorted(set().union(*(r['key'] for r in results)))
        ctx.holds('KEY-COVER', site.func, f'{site.key} depends on {cov}',
                  at=site.func.where(site.test), nontrivial=False)
        # hit path returns the cached object unchanged
        ret_ok = False
        for node in walk_local(site.func.node):
            if isinstance(node, ast.Return) and node.value is not None:
                val = node.value
                if txt(val) == f'{site.cache}[{site.key}]':
                    ret_ok = True
                if isinstance(val, ast.Name):
                    for sub in walk_local(site.func.node):
                        if isinstance(sub, ast.Assign) and txt(
                                sub.targets[0]) == val.id and txt(
                                    sub.value) in (
                                        f'{site.cache}[{site.key}]',
                                        f'{site.cache}.get({site.key})',
                                        f'{site.cache}.get({site.key}, '
                                        f'None)'):
                            ret_ok = True
        ctx.decide('KEY-HIT', site.func, f'a hit returns {site.cache}'
                   f'[{site.key}] (identical requests get the same task)',
                   ret_ok, at=site.func.where(site.test), nontrivial=False)
        # the stored task is the one returned on a miss
        last_ret = max((n for n in walk_local(site.func.node)
                        if isinstance(n, ast.Return)),
                       key=lambda n: n.lineno)
        ctx.decide('KEY-HIT', site.func, f'a miss stores and returns '
                   f'{site.new}', txt(last_ret.value) in (
                       site.new, f'{site.cache}[{site.key}]'),
                   at=site.func.where(last_ret), nontrivial=False)
    ctx.floor('KEY', n, 2, 'memo functions (Use.get_task, '
              'RunTaskFactory.make)')


def _ordered_use(func, base):
    '''The field is iterated by a for loop that builds positional
    arguments (order matters).'''
    fld = base.split('.', 1)[1]
    for node in ast.walk(func.node):
        if isinstance(node, ast.For) and fld in txt(node.iter) and any(
                isinstance(c, ast.Call) and call_name(c) == 'append'
                for c in ast.walk(node)):
            return True
    return False


# --------------------------------------------------------------- UNIQUE ---

COMMON = 'valjean.cambronne.common'
TASKM = 'valjean.cosette.task'


def check_unique(ctx):
    program = ctx.program
    func = program.func(f'{COMMON}:collect_tasks')
    body = [s for s in func.node.body if not (isinstance(s, ast.Expr) and
                                              isinstance(s.value,
                                                         ast.Constant))]
    closed_var = None
    closed_at = checked_at = ret_at = None
    for pos, stmt in enumerate(body):
        if isinstance(stmt, ast.Assign) and isinstance(
                stmt.value, ast.Call) and call_name(stmt.value) == \
                'close_dependency_graph':
            closed_var = txt(stmt.targets[0])
            closed_at = pos
        if isinstance(stmt, ast.Expr) and isinstance(
                stmt.value, ast.Call) and call_name(stmt.value) == \
                'check_unique_task_names' and stmt.value.args and \
                txt(stmt.value.args[0]) == closed_var:
            checked_at = pos
        if isinstance(stmt, ast.Return):
            ret_at = pos
            ret_val = txt(stmt.value)
    ok = None not in (closed_at, checked_at, ret_at) and \
        closed_at < checked_at < ret_at and ret_val == closed_var
    top_level_only = all(not isinstance(s, (ast.If, ast.Try, ast.For,
                                            ast.While)) for s in body)
    ctx.decide('UNIQUE', func, 'collect_tasks: close_dependency_graph -> '
               'check_unique_task_names(closed list) -> return closed list',
               ok if top_level_only or ok is False else None,
               at=func.where(),
               detail='the duplicate-name check must see the transitive '
                      'dependencies, and the list returned is the one '
                      'checked')
    # body of the check: raises iff a name is seen twice
    chk = program.func(f'{COMMON}:check_unique_task_names')
    param = chk.params[0]
    loop = [n for n in walk_local(chk.node) if isinstance(n, ast.For)]
    good = None
    if loop and txt(loop[0].iter) == param:
        tests = [n for n in ast.walk(loop[0]) if isinstance(n, ast.If)]
        seen = None
        for test in tests:
            if isinstance(test.test, ast.Compare) and isinstance(
                    test.test.ops[0], ast.In) and txt(
                        test.test.left).endswith('.name'):
                seen = txt(test.test.comparators[0])
                marks = [c for c in ast.walk(ast.Module(
                    body=test.body, type_ignores=[]))
                    if isinstance(c, (ast.Call, ast.Raise))]
                dupvar = None
                for call in marks:
                    if isinstance(call, ast.Call) and call_name(call) in (
                            'add', 'append'):
                        dupvar = txt(receiver(call))
                    if isinstance(call, ast.Raise):
                        dupvar = '<raise>'
        adds = [c for c in ast.walk(loop[0]) if isinstance(c, ast.Call) and
                call_name(c) == 'add' and txt(receiver(c)) == seen]
        in_else = False
        raises = [n for n in walk_local(chk.node) if isinstance(n, ast.If)
                  and any(isinstance(s, ast.Raise) for s in n.body) and
                  txt(n.test) == (dupvar or '')]
        good = bool(seen and adds and (dupvar == '<raise>' or raises))
    ctx.decide('UNIQUE', chk, 'check_unique_task_names: every task visited, '
               'name membership test, raise when a name was seen twice',
               good, at=chk.where())


def _field_flows(func, fields):
    '''Flow-insensitive def-use closure inside one function: for every
    local name, the dependency fields (task.depends_on ...) whose elements
    may flow into it.  An over-approximation of the flows, so a field that
    does NOT reach a name certainly never does.'''
    flows = {}

    def of(expr, local=None):
        '''fields flowing into the value of expr; comprehension variables
        are scoped to their comprehension.'''
        local = local or {}
        if isinstance(expr, (ast.ListComp, ast.SetComp, ast.GeneratorExp,
                             ast.DictComp)):
            scope = dict(local)
            got = set()
            for gen in expr.generators:
                src = of(gen.iter, scope)
                for sub in ast.walk(gen.target):
                    if isinstance(sub, ast.Name):
                        scope[sub.id] = src
            if isinstance(expr, ast.DictComp):
                return of(expr.key, scope) | of(expr.value, scope)
            return of(expr.elt, scope)
        if isinstance(expr, ast.Attribute) and expr.attr in fields:
            return {expr.attr}
        if isinstance(expr, ast.Name):
            if expr.id in local:
                return set(local[expr.id])
            return set(flows.get(expr.id, set()))
        got = set()
        for child in ast.iter_child_nodes(expr):
            if isinstance(child, ast.expr):
                got |= of(child, local)
        return got

    def add(name, got):
        if got - flows.get(name, set()):
            flows[name] = flows.get(name, set()) | got
            return True
        return False
    def step(node):
        changed = False
        if isinstance(node, ast.Assign):
            got = of(node.value)
            for tgt in node.targets:
                for sub in ast.walk(tgt):
                    if isinstance(sub, ast.Name):
                        changed |= add(sub.id, got)
        elif isinstance(node, ast.AugAssign) and isinstance(
                node.target, ast.Name):
            changed |= add(node.target.id, of(node.value))
        elif isinstance(node, ast.For):
            got = of(node.iter)
            for sub in ast.walk(node.target):
                if isinstance(sub, ast.Name):
                    changed |= add(sub.id, got)
        elif isinstance(node, ast.Call) and call_name(node) in (
                'append', 'add', 'extend', 'update', 'insert',
                'appendleft', 'extendleft', 'push') and isinstance(
                    receiver(node), ast.Name):
            got = set()
            for arg in node.args:
                got |= of(arg)
            changed |= add(receiver(node).id, got)
        return changed

    # statements before the first loop run once, in order; the loops are
    # iterated to a fixpoint; then the rest once
    body = func.node.body
    first_loop = next((i for i, st in enumerate(body)
                       if isinstance(st, (ast.While, ast.For))), len(body))
    for stmt in body[:first_loop]:
        for node in ast.walk(stmt):
            step(node)
    changed, rounds = True, 0
    while changed and rounds < 10:
        changed, rounds = False, rounds + 1
        for stmt in body[first_loop:]:
            for node in ast.walk(stmt):
                changed |= step(node)
    return flows


def check_close_fields(ctx):
    program = ctx.program
    init = program.func(f'{TASKM}:Task.__init__')
    fields = []
    for node in walk_local(init.node):
        if isinstance(node, ast.Assign) and _field_of(node.targets[0]) and \
                isinstance(node.value, ast.Call) and call_name(
                    node.value) == 'set' and not node.value.args:
            fields.append(_field_of(node.targets[0]))
    # however the sets are built (a validating helper, a comprehension):
    # the attributes of the task that hold its dependencies
    for node in walk_local(init.node):
        if isinstance(node, ast.Assign) and _field_of(node.targets[0]) and \
                'depend' in _field_of(node.targets[0]) and \
                _field_of(node.targets[0]) not in fields:
            fields.append(_field_of(node.targets[0]))
    fed = {}
    for node in walk_local(init.node):
        if isinstance(node, ast.Call) and call_name(node) == 'update' and \
                _field_of(receiver(node)) in fields and node.args:
            fed[_field_of(receiver(node))] = txt(node.args[0])
    ctx.floor('CLOSE-FIELDS', len(fields), 2, 'dependency-set fields of '
              'Task')
    close = program.func(f'{TASKM}:close_dependency_graph')
    flows = _field_flows(close, fields)
    loop = [n for n in ast.walk(close.node) if isinstance(n, ast.While)]
    ret = [n for n in ast.walk(close.node) if isinstance(n, ast.Return) and
           n.value is not None]
    if not loop or not ret:
        ctx.undecided('CLOSE-FIELDS', close, 'no work-list loop / return')
        return
    retvars = {n.id for n in ast.walk(max(ret, key=lambda r: r.lineno).value)
               if isinstance(n, ast.Name)}
    qvars = {n.id for n in ast.walk(loop[0].test) if isinstance(n, ast.Name)}
    for fld in fields:
        got_ret = any(fld in flows.get(v, set()) for v in retvars)
        got_q = any(fld in flows.get(v, set()) for v in qvars)
        ctx.decide('CLOSE-FIELDS', close, f'closure result '
                   f'`{"/".join(sorted(retvars))}` collects task.{fld}',
                   got_ret, at=close.where(loop[0]),
                   detail='no data flow from that field into the returned '
                          'collection (flow-insensitive def-use closure)'
                   if not got_ret else None)
        ctx.decide('CLOSE-FIELDS', close, f'work list '
                   f'`{"/".join(sorted(qvars))}` follows task.{fld}',
                   got_q, at=close.where(loop[0]),
                   detail='transitive: dependencies of dependencies of both '
                          'kinds' if not got_q else None)
    # identity, not name: two different tasks with one name must BOTH be
    # returned, the duplicate-name check that follows has to see them
    by_name = []
    for node in ast.walk(close.node):
        if isinstance(node, ast.Compare) and isinstance(
                node.ops[0], (ast.In, ast.NotIn)) and isinstance(
                    node.left, ast.Attribute) and node.left.attr == 'name':
            by_name.append(node)
        if isinstance(node, ast.Call) and call_name(node) in ('add',
                                                              'append') \
                and node.args and isinstance(
                    node.args[0], ast.Attribute) and \
                node.args[0].attr == 'name' and receiver(node) is not None:
            by_name.append(node)
    if by_name:
        ctx.violated('CLOSE-FIELDS', close,
                     f'visited tasks are remembered by name: '
                     f'{txt(by_name[0])[:50]}', at=close.where(by_name[0]),
                     detail='a second task with an already seen name is '
                            'neither returned nor traversed: its '
                            'dependencies are lost and '
                            'check_unique_task_names never sees the '
                            'duplicate')
    else:
        ctx.holds('CLOSE-FIELDS', close, 'tasks are de-duplicated by '
                  'identity (no membership test on .name)',
                  at=close.where(), nontrivial=False)
    # build_graphs: each field to its own graph
    build = program.func(f'{COMMON}:build_graphs')
    pairs = {}
    for node in walk_local(build.node):
        if isinstance(node, ast.For) and isinstance(
                node.iter, ast.Attribute) and node.iter.attr in fields:
            for call in ast.walk(node):
                if isinstance(call, ast.Call) and call_name(call) == \
                        'add_dependency':
                    pairs[node.iter.attr] = txt(receiver(call))
    want = {'depends_on': 'hard', 'soft_depends_on': 'soft'}
    for fld in fields:
        graph = pairs.get(fld)
        ctx.decide('CLOSE-FIELDS', build, f'build_graphs: task.{fld} -> '
                   f'{graph}', graph is not None and want.get(fld, '') in
                   graph, at=build.where())
    # both graphs get every task as a node
    adds = [txt(receiver(c)) for c in ast.walk(build.node)
            if isinstance(c, ast.Call) and call_name(c) == 'add_node']
    ctx.decide('CLOSE-FIELDS', build, f'every task is a node of {adds}',
               len(set(adds)) >= 2, at=build.where(), nontrivial=False)


# ------------------------------------------------------------- USE-PURE ---

def check_use_pure(ctx):
    '''Deriving a wrapper from another one (stacked decorators, map) and
    asking a wrapper for its task never modify the wrapper they start from:
    a request is described by the wrapper alone, whatever was derived from
    it before.'''
    from .. import effects
    program = ctx.program
    analyzer = effects.Analyzer(program, max_depth=3)
    n = 0
    for key in ('valjean.cosette.use:Use.from_func',
                'valjean.cosette.use:Use.map',
                'valjean.cosette.use:using',
                'valjean.cosette.use:Use.__call__'):
        func = program.maybe_func(key)
        if func is None:
            continue
        n += 1
        summ = analyzer.summary(func)
        # filling the memo (Use._CACHE) is the purpose of get_task: it does
        # not change what the wrapper asks for
        effs = [e for e in summ.effects
                if not (func.params and func.params[0] == 'cls' and
                        e.root == 0) and e.field != '_CACHE' and
                '_CACHE' not in e.what]
        if effs:
            for eff in effs[:2]:
                pname = func.params[eff.root] if eff.root < len(
                    func.params) else f'#{eff.root}'
                ctx.violated('USE-PURE', func,
                             f'{func.name}: {eff.what} (reaches `{pname}`'
                             f'{"." + eff.field if eff.field else ""})',
                             at=f'{eff.func.module.relpath}:{eff.lineno}',
                             detail='the wrapper that is decorated again is '
                                    'modified: every wrapper derived from it '
                                    'earlier now describes another request '
                                    '(' + eff.describe() + ')')
        else:
            ctx.holds('USE-PURE', func, f'{func.name}: no write reaches the '
                      f'wrapper / task it is given', at=func.where(),
                      nontrivial=func.name == 'from_func')
    ctx.floor('USE-PURE', n, 3, 'wrapper-deriving functions of use.py')


# --------------------------------------------------------- FACTORY-PURE ---

def check_factory_pure(ctx):
    """A run-task factory describes requests: asking it for a task (make)
    or deriving another factory (copy) fills its memo and nothing else.  A
    write that reaches the factory's own deps / soft_deps / kwargs makes
    every LATER request of the same factory carry what an earlier request
    asked for ("whatever was created earlier in the process")."""
    from .. import effects
    program = ctx.program
    analyzer = effects.Analyzer(program, max_depth=3)
    n = 0
    for key in ('valjean.cosette.run:RunTaskFactory.make',
                'valjean.cosette.run:RunTaskFactory.copy'):
        func = program.maybe_func(key)
        if func is None:
            continue
        n += 1
        summ = analyzer.summary(func)
        effs = [e for e in summ.effects
                if not (e.root == 0 and e.field == 'cache')]
        for eff in effs[:3]:
            pname = func.params[eff.root] if eff.root < len(func.params) \
                else f'#{eff.root}'
            ctx.violated(
                'FACTORY-PURE', func,
                f'{func.name}: {eff.what} (reaches `{pname}`'
                f'{"." + eff.field if eff.field else ""})',
                at=f'{eff.func.module.relpath}:{eff.lineno}',
                detail='a request modifies the factory (or its arguments): '
                       'later requests of the same factory, and of its '
                       'copies sharing the object, no longer get what they '
                       'ask for (' + eff.describe() + ')')
        if not effs:
            ctx.holds('FACTORY-PURE', func,
                      f'{func.name}: the only write reaching the factory or '
                      f'the arguments is the memo self.cache',
                      at=func.where())
    ctx.floor('FACTORY-PURE', n, 2, 'RunTaskFactory.make / copy')


# ----------------------------------------------------------- CLOSE-FRESH ---

def check_close_fresh(ctx):
    """The transitive closure of the dependencies is computed from the
    CURRENT depends_on / soft_depends_on sets at every call.  Dependencies
    may be added after a first walk (Task.add_dependency; task_stats walks
    the graph before the job is complete): a reachability set remembered on
    a task, in a module-level mapping or behind functools caching can only
    be validated against the task's OWN direct dependencies and goes stale
    when a task further down gets a new one."""
    program = ctx.program
    start = program.func('valjean.cosette.task:close_dependency_graph')
    todo, seen = [start], {}
    while todo:
        cur = todo.pop()
        if cur.key in seen:
            continue
        seen[cur.key] = cur
        for call in calls_in(cur.node):
            cands, how = program.resolve_call(cur, call)
            if how == 'by-unique-name':
                continue
            for cand in cands:
                if cand.module.name == start.module.name and \
                        cand.name not in ('__init__',):
                    todo.append(cand)
    bad = 0
    for func in seen.values():
        program.consulted.add(func.module.relpath)
        for deco in func.node.decorator_list:
            if any(w in txt(deco) for w in ('lru_cache', 'cache',
                                            'memoize')):
                bad += 1
                ctx.violated('CLOSE-FRESH', func,
                             f'{func.name} is memoised with @{txt(deco)[:30]}',
                             at=func.where(), detail='stale when a '
                             'dependency is added after the first call')
        params = set(func.params)
        for node in walk_local(func.node):
            tgt = None
            if isinstance(node, ast.Assign):
                for cand in node.targets:
                    if isinstance(cand, ast.Attribute):
                        tgt = cand
            elif isinstance(node, ast.Call) and call_name(node) == \
                    'setattr' and node.args:
                tgt = node
            if tgt is None:
                continue
            bad += 1
            ctx.violated('CLOSE-FRESH', func,
                         f'{func.name}: {txt(node)[:60]} stores a result of '
                         f'the walk on an object that outlives it',
                         at=func.where(node),
                         detail='a remembered reachability set is checked '
                                'against the direct dependencies of its own '
                                'task at best: a dependency added to a task '
                                'further down (add_dependency after '
                                'task_stats) is never seen from above')
    if not bad:
        ctx.holds('CLOSE-FRESH', start,
                  f'{len(seen)} function(s) of the closure: nothing '
                  f'remembered between calls', at=start.where(),
                  nontrivial=False)


# ----------------------------------------------------------- CACHE-KEEP ---

SHRINKERS = {'pop', 'popitem', 'clear', '__delitem__'}


def check_cache_keep(ctx):
    """"Identical requests get the same task": what the memo remembers it
    keeps.  No code of the module removes entries from the memo container
    (pop / popitem / clear / del / re-binding to a fresh container outside
    the constructor): after an eviction the next identical request builds a
    SECOND task object for the same name."""
    program = ctx.program
    n = 0
    for key in SITES:
        site = find_memo_site(program, key)
        fld = _field_of(ast.parse(site.cache, mode='eval').body)
        n += 1
        mod = site.func.module
        program.consulted.add(mod.relpath)
        bad = []
        for func in mod.functions.values():
            for node in walk_local(func.node):
                hit = None
                if isinstance(node, ast.Call) and call_name(node) in \
                        SHRINKERS and receiver(node) is not None and \
                        _field_of(receiver(node)) == fld:
                    hit = node
                elif isinstance(node, ast.Delete) and any(
                        isinstance(t, ast.Subscript) and
                        _field_of(t.value) == fld for t in node.targets):
                    hit = node
                elif isinstance(node, ast.Assign) and any(
                        _field_of(t) == fld for t in node.targets) and \
                        func.name not in ('__init__', '__new__') and \
                        site.level == 'instance' and func.cls is \
                        site.func.cls:
                    hit = node
                if hit is not None:
                    bad.append((func, hit))
        for func, node in bad:
            ctx.violated('CACHE-KEEP', func,
                         f'{func.name}: {txt(node)[:60]} removes entries '
                         f'from the memo {site.cache}', at=func.where(node),
                         detail='after the eviction an identical request '
                                'misses the memo and a second task object '
                                'is created for the same name')
        if not bad:
            ctx.holds('CACHE-KEEP', site.func,
                      f'nothing in {mod.name} removes entries from '
                      f'{site.cache}', at=site.func.where(site.store))
    ctx.floor('CACHE-KEEP', n, 2, 'memo sites')
