'''C19 - external commands: RUN-LOOP, RUN-FLOW, SANITIZE, SAN-BODY, CAP-FLOW.'''
import ast

from ..astutil import (txt, call_name, receiver, walk_local, dotted,
                       enum_member, get_arg, calls_in)
from ..loader import AnalysisError

RUNMOD = 'valjean.cosette.run'
RUN = f'{RUNMOD}:run'
SANITIZER = 'valjean.path:sanitize_filename'
ROOT_KEYS = ('output-root', 'log-root', 'report-root')


# -------------------------------------------------------------- RUN-LOOP --

class _LoopState:
    def __init__(self, status):
        self.status = status          # 'DONE' | 'FAILED' | '?'
        self.appended = 0
        self.exit = 'fall'


def _find_call_loop(func):
    '''The loop of `run` that calls subprocess.call for each command.'''
    for node in walk_local(func.node):
        if isinstance(node, ast.For):
            for sub in ast.walk(node):
                if isinstance(sub, ast.Call) and call_name(sub) in (
                        'call', 'run', 'check_call', 'Popen') and (
                            isinstance(sub.func, ast.Name) or dotted(
                                receiver(sub)) == 'subprocess'):
                    return node, sub
    return None, None


def _eval_rc_test(test, var, zero):
    '''Truth of a test on the return code for the cell zero / non-zero.'''
    if isinstance(test, ast.UnaryOp) and isinstance(test.op, ast.Not):
        inner = _eval_rc_test(test.operand, var, zero)
        return None if inner is None else not inner
    if isinstance(test, ast.Name) and test.id == var:
        return not zero
    if isinstance(test, ast.Compare) and len(test.ops) == 1:
        left, oper, right = test.left, test.ops[0], test.comparators[0]
        if isinstance(right, ast.Name) and right.id == var:
            left, right = right, left
            flip = {ast.Lt: ast.Gt, ast.Gt: ast.Lt, ast.LtE: ast.GtE,
                    ast.GtE: ast.LtE}
            oper = flip.get(type(oper), type(oper))()
        if isinstance(left, ast.Name) and left.id == var and isinstance(
                right, ast.Constant) and right.value == 0 and not \
                isinstance(right.value, bool):
            if isinstance(oper, (ast.NotEq, ast.IsNot)):
                return not zero
            if isinstance(oper, (ast.Eq, ast.Is)):
                return zero
            # >, < : the sign of a non-zero code is unknown
            return None if not zero else isinstance(oper, (ast.LtE,
                                                            ast.GtE))
    return None


def _run_body(stmts, state, var, results_var, status_var, zero):
    '''Interprets the loop body for one cell; returns list of final
    states (paths split on undecidable tests).'''
    states = [state]
    for stmt in stmts:
        nxt = []
        for st in states:
            if st.exit != 'fall':
                nxt.append(st)
                continue
            nxt += _run_stmt(stmt, st, var, results_var, status_var, zero)
        states = nxt
    return states


def _clone(st):
    new = _LoopState(st.status)
    new.appended, new.exit = st.appended, st.exit
    return new


def _run_stmt(stmt, st, var, results_var, status_var, zero):
    if isinstance(stmt, ast.If):
        val = _eval_rc_test(stmt.test, var, zero)
        if val is None:
            out = _run_body(stmt.body, _clone(st), var, results_var,
                            status_var, zero)
            out += _run_body(stmt.orelse, _clone(st), var, results_var,
                             status_var, zero)
            for item in out:
                item.exit = item.exit if item.exit != 'fall' else 'fall'
            return out
        return _run_body(stmt.body if val else stmt.orelse, st, var,
                         results_var, status_var, zero)
    if isinstance(stmt, ast.Break):
        st.exit = 'break'
        return [st]
    if isinstance(stmt, ast.Continue):
        st.exit = 'continue'
        return [st]
    if isinstance(stmt, ast.Return):
        st.exit = 'return'
        return [st]
    if isinstance(stmt, ast.Raise):
        st.exit = 'raise'
        return [st]
    if isinstance(stmt, ast.Assign) and len(stmt.targets) == 1 and \
            txt(stmt.targets[0]) == status_var:
        mem = enum_member(stmt.value, 'TaskStatus')
        st.status = mem or '?'
        return [st]
    for node in ast.walk(stmt):
        if isinstance(node, ast.Call) and call_name(node) in (
                'append', 'extend', 'insert') and txt(
                    receiver(node)) == results_var and any(
                        var in txt(a) for a in node.args):
            st.appended += 1
    if isinstance(stmt, ast.AugAssign) and txt(stmt.target) == results_var \
            and var in txt(stmt.value):
        st.appended += 1
    if isinstance(stmt, (ast.With, ast.Try)):
        body = list(stmt.body)
        return _run_body(body, st, var, results_var, status_var, zero)
    return [st]


def check_run_loop(ctx):
    program = ctx.program
    func = program.func(RUN)
    loop, call = _find_call_loop(func)
    ctx.floor('RUN-LOOP', int(loop is not None), 1,
              'loop around subprocess.call in run()')
    # the return code variable
    rc_var = None
    for node in ast.walk(loop):
        if isinstance(node, ast.Assign) and node.value is call and \
                isinstance(node.targets[0], ast.Name):
            rc_var = node.targets[0].id
    if rc_var is None:
        ctx.undecided('RUN-LOOP', func, 'return code of the call not bound '
                      'to a name', at=func.where(call))
        return
    # the returned tuple: results, status
    ret = [n for n in walk_local(func.node) if isinstance(n, ast.Return)]
    if len(ret) != 1 or not isinstance(ret[0].value, ast.Tuple) or \
            len(ret[0].value.elts) < 2:
        ctx.undecided('RUN-LOOP', func, 'run() does not return one tuple',
                      at=func.where())
        return
    results_var, status_var = (txt(e) for e in ret[0].value.elts[:2])
    # initial status
    init = None
    post_assign = []
    after_loop = False
    for node in func.node.body if True else []:
        pass
    loop_line = loop.lineno
    loop_end = loop.end_lineno
    for node in walk_local(func.node):
        if isinstance(node, ast.Assign) and len(node.targets) == 1 and \
                txt(node.targets[0]) == status_var:
            if node.lineno < loop_line:
                init = enum_member(node.value, 'TaskStatus') or '?'
            elif node.lineno > loop_end:
                post_assign.append(node)
    ctx.decide('RUN-LOOP', func, f'{status_var} starts as TaskStatus.DONE '
               f'before the loop (found {init})',
               True if init == 'DONE' else False if init else None,
               at=func.where(loop), nontrivial=False)
    for node in post_assign:
        mem = enum_member(node.value, 'TaskStatus')
        ctx.decide('RUN-LOOP', func, f'after the loop: {txt(node)}',
                   False if mem == 'DONE' else None, at=func.where(node),
                   detail='a failure recorded in the loop must not be '
                          'overwritten')
    # where does the call statement sit in the body? interpret from the
    # statement after the call
    body = loop.body
    idx = None
    for pos, stmt in enumerate(body):
        if any(n is call for n in ast.walk(stmt)):
            idx = pos
    if idx is None:
        ctx.undecided('RUN-LOOP', func, 'call not at the top level of the '
                      'loop body', at=func.where(call))
        return
    rest = body[idx + 1:]
    table = {}
    for zero in (True, False):
        finals = _run_body(rest, _LoopState(init or '?'), rc_var,
                           results_var, status_var, zero)
        table['zero' if zero else 'nonzero'] = sorted(
            {(st.status, st.appended, st.exit) for st in finals})
    ctx.count('decision_table_rows', 2)
    ok_zero = all(stat == (init or '?') and app == 1 and ext in (
        'fall', 'continue') for stat, app, ext in table['zero'])
    ok_non = all(stat == 'FAILED' and app == 1 and ext in ('break', 'return')
                 for stat, app, ext in table['nonzero'])
    ctx.decide('RUN-LOOP', func,
               f'return code 0: {table["zero"]} (recorded once, status '
               f'kept, next command runs)', ok_zero, at=func.where(loop),
               detail='(status, times recorded, how the iteration ends)')
    ctx.decide('RUN-LOOP', func,
               f'return code != 0: {table["nonzero"]} (recorded once, '
               f'FAILED, remaining commands skipped)', ok_non,
               at=func.where(loop),
               detail='(status, times recorded, how the iteration ends)')
    # the else clause of the for must not restore DONE
    for stmt in loop.orelse:
        for node in ast.walk(stmt):
            if isinstance(node, ast.Assign) and txt(node.targets[0]) == \
                    status_var:
                ctx.violated('RUN-LOOP', func, f'for-else: {txt(node)}',
                             at=func.where(node))
    # the call runs the command of this iteration with the given streams
    target = txt(loop.target)
    first = call.args[0] if call.args else None
    ctx.decide('RUN-FLOW', func, f'{txt(call)[:60]}: runs the command of '
               f'the iteration', first is not None and txt(first) == target,
               at=func.where(call))
    for stream in ('stdout', 'stderr'):
        arg = get_arg(call, None, stream)
        ctx.decide('RUN-FLOW', func, f'call(... {stream}='
                   f'{txt(arg) if arg is not None else "<missing>"})',
                   arg is not None and txt(arg) == stream and stream in
                   func.params, at=func.where(call),
                   detail='every command writes to the capture file handed '
                          'to run()')
    ctx.decide('RUN-FLOW', func, f'loop visits {txt(loop.iter)} in order',
               txt(loop.iter) == func.params[0] if func.params else None,
               at=func.where(loop), nontrivial=False)


# -------------------------------------------------------------- CAP-FLOW --

def check_cap_flow(ctx):
    '''RunTask.run_task.runner: the capture files live under the per-task
    directory, are opened for writing once, and are the handles given to
    run(); the returned status and return codes are those of run().'''
    program = ctx.program
    runner = program.func(f'{RUNMOD}:RunTask.run_task.runner')
    assigns = {}
    for node in walk_local(runner.node):
        if isinstance(node, ast.Assign) and len(node.targets) == 1:
            tgt = node.targets[0]
            if isinstance(tgt, ast.Name):
                assigns[tgt.id] = node.value
            elif isinstance(tgt, ast.Tuple):
                for elt in tgt.elts:
                    if isinstance(elt, ast.Name):
                        assigns[elt.id] = node.value
    run_call = None
    for node in walk_local(runner.node):
        if isinstance(node, ast.Call) and isinstance(node.func, ast.Name) \
                and node.func.id == 'run':
            run_call = node
    ctx.floor('CAP-FLOW', int(run_call is not None), 1, 'run(...) call in '
              'the runner')
    withs = {}
    for node in walk_local(runner.node):
        if isinstance(node, ast.With):
            for item in node.items:
                if item.optional_vars is not None:
                    withs[txt(item.optional_vars)] = item.context_expr
    outdir = None
    for pos, stream in ((1, 'stdout'), (2, 'stderr')):
        arg = get_arg(run_call, pos, stream)
        opened = withs.get(txt(arg)) if arg is not None else None
        good = None
        if opened is not None and isinstance(opened, ast.Call) and \
                call_name(opened) == 'open':
            mode = opened.args[0] if opened.args else get_arg(
                opened, None, 'mode')
            pathvar = txt(receiver(opened))
            src = assigns.get(pathvar)
            from_caps = isinstance(src, ast.Call) and call_name(src) == \
                'make_cap_paths'
            if from_caps:
                outdir = txt(src.args[0]) if src.args else None
            wmode = isinstance(mode, ast.Constant) and mode.value in ('w',
                                                                      'wt')
            good = bool(from_caps and wmode)
            if isinstance(mode, ast.Constant) and mode.value.startswith(
                    ('r', 'a')):
                good = False
        ctx.decide('CAP-FLOW', runner, f'run(... {stream}) <- '
                   f'{txt(opened) if opened is not None else "?"}', good,
                   at=runner.where(run_call),
                   detail='opened once for writing from the per-task '
                          'capture path')
    # the capture directory is the sanitized per-task directory
    if outdir is not None:
        src = assigns.get(outdir)
        good = src is not None and 'sanitize_filename(' in txt(src) and \
            'output-root' in txt(src)
        ctx.decide('CAP-FLOW', runner, f'{outdir} = '
                   f'{txt(src) if src is not None else "?"}', good,
                   at=runner.where(run_call))
        cwd = get_arg(run_call, None, 'cwd')
        ctx.decide('CAP-FLOW', runner, f'commands run in cwd='
                   f'{txt(cwd) if cwd is not None else "<inherited>"}',
                   True if cwd is not None and outdir in txt(cwd) else None,
                   at=runner.where(run_call), nontrivial=False)
    # status / return codes returned are those of run()
    ret = [n for n in walk_local(runner.node) if isinstance(n, ast.Return)]
    tgt = None
    for node in walk_local(runner.node):
        if isinstance(node, ast.Assign) and node.value is run_call and \
                isinstance(node.targets[0], ast.Tuple):
            tgt = [txt(e) for e in node.targets[0].elts]
    if tgt and len(ret) == 1 and isinstance(ret[0].value, ast.Tuple):
        status_ret = txt(ret[0].value.elts[-1])
        ctx.decide('CAP-FLOW', runner, f'returned status {status_ret} is '
                   f'the status computed by run()', status_ret == tgt[1],
                   at=runner.where(ret[0]))
        upd = assigns.get(txt(ret[0].value.elts[0]))
        codes = None
        if isinstance(upd, ast.Dict):
            for node in ast.walk(upd):
                if isinstance(node, ast.Dict):
                    for key, val in zip(node.keys, node.values):
                        if isinstance(key, ast.Constant) and key.value == \
                                'return_codes':
                            codes = txt(val)
        ctx.decide('CAP-FLOW', runner, f"'return_codes': {codes}",
                   codes == tgt[0] if codes else None,
                   at=runner.where(ret[0]))


# -------------------------------------------------------------- SANITIZE --

def _root_sources(func):
    '''Names / attributes of the function that hold a configured root
    directory: assigned from config.query('path', '<x>-root').'''
    roots = {}
    for node in walk_local(func.node):
        if isinstance(node, ast.Assign) and len(node.targets) == 1:
            val = node.value
            key = _root_key(val)
            if key:
                roots[txt(node.targets[0])] = key
    return roots


def _root_key(expr):
    for node in ast.walk(expr):
        if isinstance(node, ast.Call) and call_name(node) == 'query' and \
                len(node.args) == 2 and isinstance(
                    node.args[1], ast.Constant) and \
                node.args[1].value in ROOT_KEYS:
            return node.args[1].value
    return None


NAME_HINTS = ('name',)


def _mentions_task_name(expr):
    for node in ast.walk(expr):
        if isinstance(node, ast.Name) and (
                node.id == 'name' or node.id.endswith('_name')):
            return True
        if isinstance(node, ast.Attribute) and node.attr == 'name':
            return True
    return False


def _sanitized(expr, assigns, depth=0):
    '''True if every task-name ingredient of expr went through
    sanitize_filename; False if a raw name is used; None otherwise.'''
    if depth > 4:
        return None
    if isinstance(expr, ast.Call) and call_name(expr) == \
            'sanitize_filename':
        return True
    if isinstance(expr, ast.Constant):
        return True
    if isinstance(expr, ast.BinOp) and isinstance(expr.op, (ast.Add,
                                                            ast.Mod)):
        left = _sanitized(expr.left, assigns, depth + 1)
        right = _sanitized(expr.right, assigns, depth + 1)
        if left is False or right is False:
            return False
        return True if left and right else None
    if isinstance(expr, ast.JoinedStr):
        res = True
        for val in expr.values:
            if isinstance(val, ast.FormattedValue):
                sub = _sanitized(val.value, assigns, depth + 1)
                if sub is False:
                    return False
                if sub is None:
                    res = None
        return res
    if isinstance(expr, ast.Name):
        vals = assigns.get(expr.id)
        if vals:
            subs = [_sanitized(v, assigns, depth + 1) for v in vals]
            if any(s is False for s in subs):
                return False
            return True if all(subs) else None
        return False if _mentions_task_name(expr) else None
    if isinstance(expr, ast.Attribute):
        return False if _mentions_task_name(expr) else None
    if isinstance(expr, ast.Call) and call_name(expr) == 'str' and \
            expr.args:
        return _sanitized(expr.args[0], assigns, depth + 1)
    return None


READ_SIDE = {
    'valjean.cambronne.common:read_env':
        'read side: it only has to name the path the writer produced, and '
        'the sanitizer is the identity on accepted names',
}


READ_CALLS = ('from_file',)


def _only_read(func, node):
    '''The path built at `node` is bound to a local whose only uses are
    arguments of the deserializer (and of logging calls): the read side,
    wherever the code sits.'''
    for call in walk_local(func.node):
        if isinstance(call, ast.Call) and call_name(call) in READ_CALLS and \
                any(n is node for arg in list(call.args) + [
                    k.value for k in call.keywords] for n in ast.walk(arg)):
            return True
    holder = next((st for st in walk_local(func.node) if isinstance(
        st, ast.Assign) and len(st.targets) == 1 and isinstance(
            st.targets[0], ast.Name) and any(n is node for n in
                                             ast.walk(st.value))), None)
    if holder is None:
        return False
    name = holder.targets[0].id
    if sum(1 for n in walk_local(func.node) if isinstance(n, ast.Name) and
           n.id == name and isinstance(n.ctx, ast.Store)) != 1:
        return False
    loads = [n for n in walk_local(func.node) if isinstance(n, ast.Name) and
             n.id == name and isinstance(n.ctx, ast.Load)]
    if not loads:
        return False
    ok_args = set()
    n_read = 0
    for call in walk_local(func.node):
        if not isinstance(call, ast.Call):
            continue
        cname = call_name(call)
        recv = receiver(call)
        logging_ = cname in ('debug', 'info', 'warning', 'error', 'note') \
            and recv is not None and txt(recv).split('.')[0] in (
                'LOGGER', 'logging')
        if cname in READ_CALLS or logging_:
            for arg in list(call.args) + [k.value for k in call.keywords]:
                if isinstance(arg, ast.Name) and arg.id == name:
                    ok_args.add(id(arg))
                    n_read += cname in READ_CALLS
    return n_read > 0 and all(id(n) in ok_args for n in loads)


def path_sites(program):
    '''(func, node, root key, [name operands]) for every filesystem path
    built from a configured root and a task name.'''
    sites = []
    for func in program.all_functions():
        if func.parent is not None and not _root_sources(func) and \
                _root_key(func.node) is None:
            continue
        if _root_key(func.node) is None and 'root' not in ' '.join(
                func.params):
            continue
        roots = _root_sources(func)
        for node in walk_local(func.node):
            operands = None
            rootkey = None
            if isinstance(node, ast.Call) and call_name(node) in (
                    'Path', 'ensure', 'join', 'PurePath') and node.args:
                first = node.args[0]
                rootkey = _root_key(first) or roots.get(txt(first))
                if call_name(node) == 'Path' and isinstance(
                        first, ast.Name) and first.id == 'root' and \
                        'root' in func.params:
                    rootkey = 'parameter root'
                operands = node.args[1:]
            elif isinstance(node, ast.BinOp) and isinstance(node.op,
                                                            ast.Div):
                chain = []
                cur = node
                while isinstance(cur, ast.BinOp) and isinstance(cur.op,
                                                                ast.Div):
                    chain.insert(0, cur.right)
                    cur = cur.left
                rootkey = _root_key(cur) or roots.get(txt(cur))
                if isinstance(cur, ast.Call) and call_name(cur) == 'Path' \
                        and cur.args and txt(cur.args[0]) == 'root' and \
                        'root' in func.params:
                    rootkey = 'parameter root'
                operands = chain
            if not rootkey or not operands:
                continue
            named = [op for op in operands if _mentions_task_name(op) or (
                isinstance(op, ast.Call) and call_name(op) ==
                'sanitize_filename')]
            if named:
                sites.append((func, node, rootkey, named))
    # keep outermost BinOp only
    uniq, seen = [], set()
    for func, node, key, named in sites:
        ident = (func.key, node.lineno, node.col_offset)
        if ident in seen:
            continue
        seen.add(ident)
        uniq.append((func, node, key, named))
    return uniq


def check_sanitize(ctx, scope=('output-root', 'log-root', 'report-root',
                               'parameter root'), floor=6):
    program = ctx.program
    sites = path_sites(program)
    sites = [s for s in sites if s[2] in scope]
    ctx.floor('SANITIZE', len(sites), floor, 'filesystem paths built from a '
              'configured root and a task name')
    for func, node, rootkey, named in sites:
        program.consulted.add(func.module.relpath)
        assigns = {}
        for sub in walk_local(func.node):
            if isinstance(sub, ast.Assign) and len(sub.targets) == 1 and \
                    isinstance(sub.targets[0], ast.Name):
                assigns.setdefault(sub.targets[0].id, []).append(sub.value)
        # a parameter with a constant default (`suffix='.log'`) is a fixed
        # decoration chosen by the code, not a task name
        fargs = func.node.args
        pos_args = fargs.posonlyargs + fargs.args
        for arg, dflt in list(zip(pos_args[len(pos_args) -
                                           len(fargs.defaults):],
                                  fargs.defaults)) + [
                (a, d) for a, d in zip(fargs.kwonlyargs, fargs.kw_defaults)
                if d is not None]:
            if isinstance(dflt, ast.Constant) and isinstance(
                    dflt.value, str) and '/' not in dflt.value and \
                    not _mentions_task_name(ast.Name(id=arg.arg,
                                                     ctx=ast.Load())):
                assigns.setdefault(arg.arg, []).append(dflt)
        read_side = func.key in READ_SIDE or _only_read(func, node)
        for opd in named:
            key = f'{rootkey} / {txt(opd)[:50]}'
            if read_side:
                ctx.holds('SANITIZE', func, key + ' (read side, exempt)',
                          at=func.where(node),
                          detail=next(iter(READ_SIDE.values())),
                          nontrivial=False)
                continue
            res = _sanitized(opd, assigns)
            ctx.decide('SANITIZE', func, key, res, at=func.where(node),
                       detail='a task name used as a path component under '
                              'a shared root must pass sanitize_filename: '
                              'otherwise two tasks can share a directory '
                              "('x' and './x') or escape the root ('..')"
                       if res is not True else None)


# -------------------------------------------------------------- SAN-BODY --

SAMPLES = [('plain', 'task_1'), ('with space', 'a b'), ('slash', 'a/b'),
           ('leading slash', '/a'), ('dot-slash', './a'), ('dot', '.'),
           ('dotdot', '..'), ('nul', 'a\0b'), ('dotted', 'a.b'),
           ('unicode', 'tâche'), ('upper', 'Task')]
MUST_REJECT = {'slash', 'leading slash', 'dot-slash', 'dot', 'dotdot', 'nul'}


def _eval_str_guard(expr, env):
    '''Concrete evaluation of the small guard language of the sanitizer on
    one sample name; None if outside the language.'''
    if isinstance(expr, ast.Constant):
        return expr.value
    if isinstance(expr, ast.Name):
        return env.get(expr.id, _UNKNOWN)
    if isinstance(expr, (ast.Tuple, ast.List, ast.Set)):
        vals = [_eval_str_guard(e, env) for e in expr.elts]
        return _UNKNOWN if any(v is _UNKNOWN for v in vals) else tuple(vals)
    if isinstance(expr, ast.UnaryOp) and isinstance(expr.op, ast.Not):
        val = _eval_str_guard(expr.operand, env)
        return _UNKNOWN if val is _UNKNOWN else not val
    if isinstance(expr, ast.BoolOp):
        vals = [_eval_str_guard(v, env) for v in expr.values]
        if any(v is _UNKNOWN for v in vals):
            return _UNKNOWN
        return all(vals) if isinstance(expr.op, ast.And) else any(vals)
    if isinstance(expr, ast.Compare) and len(expr.ops) == 1:
        left = _eval_str_guard(expr.left, env)
        right = _eval_str_guard(expr.comparators[0], env)
        if left is _UNKNOWN or right is _UNKNOWN:
            return _UNKNOWN
        oper = expr.ops[0]
        try:
            if isinstance(oper, ast.In):
                return left in right
            if isinstance(oper, ast.NotIn):
                return left not in right
            if isinstance(oper, ast.Eq):
                return left == right
            if isinstance(oper, ast.NotEq):
                return left != right
        except TypeError:
            return _UNKNOWN
    # pure path algebra of the standard library (no filesystem access)
    if isinstance(expr, ast.Call) and isinstance(expr.func, ast.Name) and \
            expr.func.id in ('PurePosixPath', 'PurePath', 'Path',
                             'PosixPath') and len(expr.args) == 1:
        from pathlib import PurePosixPath
        arg = _eval_str_guard(expr.args[0], env)
        if arg is _UNKNOWN or not isinstance(arg, str) or '\0' in arg:
            return _UNKNOWN
        return PurePosixPath(arg)
    if isinstance(expr, ast.Attribute) and expr.attr in (
            'name', 'parts', 'stem', 'suffix', 'parent', 'anchor'):
        from pathlib import PurePosixPath
        base = _eval_str_guard(expr.value, env)
        if isinstance(base, PurePosixPath):
            val = getattr(base, expr.attr)
            return val
        return _UNKNOWN
    if isinstance(expr, ast.Call) and isinstance(expr.func, ast.Name) and \
            expr.func.id in ('str', 'len') and len(expr.args) == 1:
        arg = _eval_str_guard(expr.args[0], env)
        if arg is _UNKNOWN:
            return _UNKNOWN
        return str(arg) if expr.func.id == 'str' else len(arg)
    if isinstance(expr, ast.Call) and isinstance(expr.func, ast.Attribute) \
            and txt(expr.func.value) in ('os.path', 'posixpath') and \
            expr.func.attr in ('basename', 'dirname', 'normpath', 'split',
                               'isabs') and len(expr.args) == 1:
        import posixpath
        arg = _eval_str_guard(expr.args[0], env)
        if arg is _UNKNOWN or not isinstance(arg, str):
            return _UNKNOWN
        return getattr(posixpath, expr.func.attr)(arg)
    if isinstance(expr, ast.Call) and isinstance(expr.func, ast.Attribute) \
            and expr.func.attr in ('startswith', 'endswith', 'isidentifier',
                                   'isalnum', 'strip', 'count', 'find'):
        recv = _eval_str_guard(expr.func.value, env)
        args = [_eval_str_guard(a, env) for a in expr.args]
        if recv is _UNKNOWN or any(a is _UNKNOWN for a in args) or \
                not isinstance(recv, str):
            return _UNKNOWN
        try:
            return getattr(recv, expr.func.attr)(*args)
        except (TypeError, ValueError):
            return _UNKNOWN
    return _UNKNOWN


class _Unknown:
    def __repr__(self):
        return 'unknown'


_UNKNOWN = _Unknown()

LOSSY = {'replace', 'sub', 'translate', 'lower', 'upper', 'strip', 'lstrip',
         'rstrip', 'casefold', 'encode', 'normalize', 'quote', 'basename',
         'split', 'join', 'title', 'capitalize', 'slugify'}


def check_sanitizer_body(ctx):
    '''sanitize_filename is the identity on what it accepts (so distinct
    task names give distinct directories) and rejects, on representative
    names, every name that contains a separator, a NUL or is a dot
    directory.'''
    program = ctx.program
    func = program.func(SANITIZER)
    param = func.params[0]
    rets = [n for n in walk_local(func.node) if isinstance(n, ast.Return)]
    ctx.floor('SAN-BODY', len(rets), 1, 'returns of sanitize_filename')
    for ret in rets:
        val = ret.value
        if isinstance(val, ast.Name) and val.id == param:
            ctx.holds('SAN-BODY', func, f'return {txt(val)}: identity',
                      at=func.where(ret))
            continue
        lossy = [n for n in ast.walk(val) if isinstance(n, ast.Call) and
                 call_name(n) in LOSSY] if val is not None else []
        sliced = [n for n in ast.walk(val) if isinstance(n, ast.Subscript)] \
            if val is not None else []
        ctx.decide('SAN-BODY', func, f'return {txt(val)}',
                   False if lossy or sliced or val is None else None,
                   at=func.where(ret),
                   detail='a rewritten name is not injective: two task '
                          'names can map to one directory')
    # the parameter is not reassigned with a rewritten value
    for node in walk_local(func.node):
        if isinstance(node, (ast.Assign, ast.AugAssign)):
            tgts = node.targets if isinstance(node, ast.Assign) else \
                [node.target]
            if any(txt(t) == param for t in tgts):
                ctx.violated('SAN-BODY', func, f'{txt(node)}: the name is '
                             f'rewritten', at=func.where(node))
    # decision table over representative names
    table = {}
    for label, sample in SAMPLES:
        outcome = _interpret_sanitizer(func, param, sample)
        table[label] = outcome
    ctx.count('decision_table_rows', len(SAMPLES))
    bad = [lab for lab in MUST_REJECT if table[lab] == 'accept']
    wrongly = [lab for lab, _ in SAMPLES if lab not in MUST_REJECT and
               table[lab] == 'reject']
    und = [lab for lab in MUST_REJECT if table[lab] == 'unknown']
    ctx.decide('SAN-BODY', func,
               'names with a separator, a NUL or a dot directory are '
               'rejected' + (f' (accepted: {sorted(bad)})' if bad else ''),
               False if bad else None if und else True, at=func.where(),
               detail={'table': table})
    ctx.decide('SAN-BODY', func, 'ordinary names are accepted' + (
        f' (rejected: {wrongly})' if wrongly else ''),
               None if wrongly else True, at=func.where(), nontrivial=False)


def _interpret_sanitizer(func, param, sample):
    env = {param: sample}
    # module-level constants made of literals (tables of forbidden characters
    # / reserved names)
    for name, val in func.module.toplevel.items():
        if isinstance(val, ast.AST):
            try:
                env.setdefault(name, ast.literal_eval(val))
            except (ValueError, TypeError, SyntaxError,
                    MemoryError, RecursionError):
                pass

    def block(stmts):
        for stmt in stmts:
            if isinstance(stmt, (ast.Expr, ast.Import, ast.ImportFrom,
                                 ast.Pass)):
                continue
            if isinstance(stmt, ast.For) and not stmt.orelse:
                # a loop over a table of literals: unrolled
                seq = _eval_str_guard(stmt.iter, env)
                if seq is _UNKNOWN or not isinstance(seq, (tuple, list)) \
                        or len(seq) > 50:
                    return 'unknown'
                for item in seq:
                    names = [stmt.target] if isinstance(
                        stmt.target, ast.Name) else list(
                            getattr(stmt.target, 'elts', []))
                    if not names or not all(isinstance(n, ast.Name)
                                            for n in names):
                        return 'unknown'
                    if isinstance(stmt.target, ast.Name):
                        env[stmt.target.id] = item
                    else:
                        if not isinstance(item, (tuple, list)) or len(
                                item) != len(names):
                            return 'unknown'
                        for nam, val in zip(names, item):
                            env[nam.id] = val
                    res = block(stmt.body)
                    if res:
                        return res
                continue
            if isinstance(stmt, ast.If):
                val = _eval_str_guard(stmt.test, env)
                if val is _UNKNOWN:
                    return 'unknown'
                res = block(stmt.body if val else stmt.orelse)
                if res:
                    return res
                continue
            if isinstance(stmt, ast.Raise):
                return 'reject'
            if isinstance(stmt, ast.Return):
                return 'accept'
            return 'unknown'
        return None
    return block(func.node.body) or 'accept'


# ---------------------------------------------------------- START-SCOPE ---

PROBES = {'which', 'exists', 'is_file', 'isfile', 'access', 'stat', 'lstat',
          'is_dir', 'isdir', 'resolve', 'realpath', 'samefile'}
OS_ERRORS = {'OSError', 'IOError', 'FileNotFoundError', 'PermissionError',
             'NotADirectoryError', 'EnvironmentError', 'IsADirectoryError'}


def check_start_scope(ctx):
    """"A command that cannot be started makes the task fail rather than the
    run": whether the executable exists is found out when the task RUNS
    (subprocess raises inside run(), the worker turns it into FAILED).  The
    code that only DESCRIBES tasks (RunTask / RunTaskFactory constructors
    and class methods, make, copy - everything but the nested runner /
    closure functions executed inside do()) must not probe the file system
    for the executable and raise: the exception would leave the job file,
    before any task is scheduled, and it refuses executables that an earlier
    task of the same run produces."""
    from . import verdict as V
    program = ctx.program
    mod = program.module('valjean.cosette.run')
    program.consulted.add(mod.relpath)
    n = 0
    bad = 0
    for func in mod.functions.values():
        if func.parent is not None or func.cls is None or func.cls.name \
                not in ('RunTask', 'RunTaskFactory'):
            continue
        n += 1
        for node in walk_local(func.node):
            if not isinstance(node, ast.Raise) or node.exc is None:
                continue
            exc = node.exc.func if isinstance(node.exc, ast.Call) else \
                node.exc
            ename = (dotted(exc) or '').split('.')[-1]
            conds = V.path_condition(func.node, node)
            probing = [t for t, _ in conds if any(
                isinstance(c, ast.Call) and call_name(c) in PROBES
                for c in ast.walk(t))]
            if ename in OS_ERRORS or probing:
                bad += 1
                ctx.violated(
                    'START-SCOPE', func,
                    f'{func.name}: raise {ename} while the job is being '
                    f'described' + (f' (under `{txt(probing[0])[:40]}`)'
                                    if probing else ''),
                    at=func.where(node),
                    detail='a missing executable must fail the task that '
                           'runs it (FAILED, dependants SKIPPED, the rest of '
                           'the run goes on), not abort the description of '
                           'the job')
    ctx.floor('START-SCOPE', n, 6, 'description-time methods of RunTask / '
                                   'RunTaskFactory')
    if not bad:
        ctx.holds('START-SCOPE', 'valjean.cosette.run',
                  f'{n} description-time methods: no file-system probe '
                  f'followed by a raise, no OSError raised', nontrivial=True)


# ------------------------------------------------------------ CALL-LOOP ---

def check_call_loop(ctx):
    """"at the first non-zero status the remaining commands are not run and
    the task is FAILED": run() guarantees it for the commands of ONE call.  A
    task that calls run() several times in a loop (one build target per
    call) must itself stop at the first call that did not end DONE: otherwise
    the later commands still run and the status of the LAST call is the
    status of the task (targets ['broken', 'good'] -> DONE)."""
    program = ctx.program
    n = 0
    for modname in ('valjean.cosette.code', RUNMOD):
        mod = program.module(modname)
        for func in mod.functions.values():
            for loop in [l for l in walk_local(func.node)
                         if isinstance(l, (ast.For, ast.While))]:
                runs = [c for s_ in loop.body for c in ast.walk(s_)
                        if isinstance(c, ast.Call) and isinstance(
                            c.func, ast.Name) and c.func.id == 'run']
                if not runs or func.key == RUN:
                    continue
                n += 1
                program.consulted.add(mod.relpath)
                stops = False
                for node in ast.walk(loop):
                    if isinstance(node, ast.If) and any(
                            isinstance(x, (ast.Break, ast.Return, ast.Raise))
                            for b in node.body for x in ast.walk(b)) and any(
                                w in txt(node.test)
                                for w in ('status', 'ret', 'DONE', 'FAILED',
                                          'code')):
                        stops = True
                ctx.decide('CALL-LOOP', func,
                           f'{func.name}: loop calling {txt(runs[0])[:40]} '
                           f'stops at the first failure', stops,
                           at=func.where(loop),
                           detail=None if stops else
                           'every iteration overwrites the status: a failing '
                           'command followed by a succeeding one leaves the '
                           'task DONE, and the commands after the failure '
                           'are run')
    if not n:
        ctx.holds('CALL-LOOP', 'valjean.cosette.code / run',
                  'no task calls run() in a loop: one call, whose commands '
                  'stop at the first failure (RUN-LOOP)', nontrivial=False)


# ----------------------------------------------------------- CAP-DIRECT ---

SPAWNERS = {'call', 'run', 'Popen', 'check_call', 'check_output',
            'getoutput', 'getstatusoutput', 'system', 'popen'}


def check_cap_direct(ctx):
    """"The captured output is what the command wrote": the child process
    writes INTO the capture files - every spawning call of run.py hands the
    file objects over as stdout= / stderr=.  Output routed through the parent
    (stdout=PIPE, check_output, communicate) is decoded, its newlines
    translated ('\\r\\n' and '\\r' become '\\n' in text mode, undecodable
    bytes raise or are replaced) and re-written: not what the command
    wrote."""
    program = ctx.program
    mod = program.module(RUNMOD)
    program.consulted.add(mod.relpath)
    n = 0
    subprocess_names = {name for name, imp in mod.imports.items()
                        if (imp[0] == 'symbol' and imp[1] in (
                            'subprocess', 'os')) or
                        (imp[0] == 'module' and imp[1] in ('subprocess',
                                                           'os'))}
    for func in mod.functions.values():
        for call in calls_in(func.node):
            cname = call_name(call)
            if cname not in SPAWNERS:
                continue
            base = call.func.id if isinstance(call.func, ast.Name) else \
                dotted(receiver(call)) if receiver(call) is not None else ''
            if base not in subprocess_names:
                continue
            n += 1
            kws = {k.arg: k.value for k in call.keywords if k.arg}
            bad = None
            if cname in ('check_output', 'getoutput', 'getstatusoutput',
                         'system', 'popen'):
                bad = f'{cname}() does not write into the capture files'
            else:
                for stream in ('stdout', 'stderr'):
                    val = kws.get(stream)
                    if val is None:
                        bad = f'{stream}= not given: the output is not ' \
                              f'captured'
                    elif txt(val).split('.')[-1] in ('PIPE', 'DEVNULL'):
                        bad = f'{stream}={txt(val)}: the output goes ' \
                              f'through the parent process'
                    elif stream == 'stderr' and txt(val).endswith('STDOUT'):
                        bad = 'stderr merged into stdout'
                    elif not (isinstance(val, ast.Name) and
                              val.id in func.params) and not isinstance(
                                  val, ast.Name):
                        bad = f'{stream}={txt(val)[:30]} is not the ' \
                              f'capture file'
                    if bad:
                        break
            ctx.decide('CAP-DIRECT', func,
                       f'{func.name}: {txt(call)[:50]} writes into the '
                       f'capture files' if bad is None else
                       f'{func.name}: {txt(call)[:50]}: {bad}', bad is None,
                       at=func.where(call),
                       detail=None if bad is None else
                       'text-mode decoding and newline translation in the '
                       'parent change the bytes; a capture through a pipe '
                       'is also lost if the parent is interrupted')
    ctx.floor('CAP-DIRECT', n, 1, 'process spawning calls in run.py')
