'''C16 - dependency graph under edit histories: OWN-CTOR, OWN-COPY, DG-PURE,
PAIR, PAIR-SHIFT, SWAP-TABLE.'''
import ast

from ..astutil import (txt, call_name, receiver, walk_local, dotted, calls_in,
                       enclosing_chain, lexically_inside)
from ..loader import AnalysisError
from .. import effects

DG = 'valjean.cosette.depgraph:DepGraph'
RL = 'valjean.cosette.rlist:RList'

# container state of the two classes (the `state` anchors of the property)
# field -> number of fresh container layers between the field and anything
# reachable from a constructor argument (in the model an RList reaches its
# elements in one step: the RList itself is the layer)
CONTAINERS = {DG: {'_nodes': 1, '_edges': 2},
              RL: {'_seq': 1, '_index': 1}}
COPIERS = {DG: ('copy', 'invert', '__add__', 'from_dependency_dictionary'),
           RL: ('copy',)}
READ_ONLY = {DG: ('copy', 'invert', '__add__', '__iter__', '__len__',
                  '__contains__', '__le__', 'isomorphic_to', 'nodes',
                  'dependencies', 'dependees', 'topological_sort',
                  'to_graphviz', 'initial', 'terminal', 'depends',
                  '__str__', '__repr__'),
             RL: ('copy', '__getitem__', '__len__', '__repr__', '__str__',
                  '__eq__', '__ne__', 'index', 'indices', 'get_index',
                  '__contains__')}


def make_analyzer(program):
    # defaultdict typing: RList._index is a defaultdict(list); a subscript
    # READ of a missing key inserts it (and RList.__contains__ is key
    # presence)
    ddf, ddp, idx, _ = effects.defaultdict_typing(program)
    return effects.Analyzer(program, max_depth=5, dd_fields=ddf,
                            dd_params=ddp, index_types=idx)


def check_own(ctx, analyzer):
    program = ctx.program
    # ---- constructors: the container fields hold fresh containers
    for ckey, fields in CONTAINERS.items():
        klass = program.cls(ckey)
        init = klass.methods.get('__init__')
        if init is None:
            raise AnalysisError(f'OWN-CTOR: {ckey}.__init__ not found')
        summ = analyzer.summary(init)
        assigned = {n.attr for n in ast.walk(init.node)
                    if isinstance(n, ast.Attribute) and isinstance(
                        n.ctx, ast.Store) and txt(n.value) == 'self'}
        for fld, layers in fields.items():
            if fld not in assigned:
                raise AnalysisError(f'OWN-CTOR: {klass.name}.__init__ no '
                                    f'longer assigns self.{fld}')
            val = summ.field_map.get(fld, frozenset())
            shared = sorted((r, d, n) for r, d, n, _f, _h in val
                            if isinstance(r, int) and r != 0 and
                            (n < layers or d < layers))
            pname = [init.params[r] if r < len(init.params) else f'#{r}'
                     for r, _d, _n in shared]
            ctx.decide('OWN-CTOR', init,
                       f'{klass.name}.__init__: self.{fld} is built from '
                       f'{layers} fresh container layer(s)',
                       not shared, at=init.where(),
                       detail=f'self.{fld} shares a container with argument '
                              f'{pname} (after {shared[0][2]} fresh '
                              f'layer(s), {layers} needed): two graphs / '
                              f'lists built from the same data would share '
                              f'state' if shared else
                              {'value': sorted(map(str, val))})
    # ---- copiers: return a constructed object, fresh w.r.t. self / other
    for ckey, names in COPIERS.items():
        klass = program.cls(ckey)
        for name in names:
            meth = klass.methods.get(name)
            if meth is None:
                raise AnalysisError(f'OWN-COPY: {klass.name}.{name} not '
                                    f'found')
            summ = analyzer.summary(meth)
            layers = CONTAINERS[ckey]
            shared = sorted(
                (r, d, n, f) for r, d, n, f, hfl in summ.returns
                if isinstance(r, int) and (
                    n < 1 + layers.get(hfl, 1) if ckey == DG else
                    (n < 1 or d < 2)))
            ctx.decide('OWN-COPY', meth,
                       f'{klass.name}.{name}: result shares no container '
                       f'with its operands', not shared, at=meth.where(),
                       detail=f'the returned object reaches '
                              f'{meth.params[shared[0][0]]}'
                              f'{"." + shared[0][3] if shared[0][3] else ""}'
                              f' after only {shared[0][2]} fresh layer(s)'
                       if shared else
                       {'returns': sorted(map(str, summ.returns))})


def check_dg_pure(ctx, analyzer):
    program = ctx.program
    n = 0
    for ckey, names in READ_ONLY.items():
        klass = program.cls(ckey)
        for name in names:
            meth = klass.methods.get(name)
            if meth is None:
                continue
            n += 1
            summ = analyzer.summary(meth)
            effs = summ.effects
            ddreads = [u for u in summ.undecided
                       if 'read of defaultdict' in u]
            for note in ddreads[:2]:
                ctx.violated(
                    'DG-PURE', meth,
                    f'{klass.name}.{name}: ' + note.split(': ', 1)[-1][:90],
                    at=meth.where(),
                    detail='a read-only method indexes the defaultdict with '
                           'a key that need not be there: a miss INSERTS the '
                           'key, and membership (`key in self._index`) then '
                           'reports a value the container does not hold')
            if effs:
                for eff in effs[:3]:
                    pname = meth.params[eff.root] if eff.root < len(
                        meth.params) else f'#{eff.root}'
                    ctx.violated('DG-PURE', meth,
                                 f'{klass.name}.{name}: {eff.what} (reaches '
                                 f'`{pname}`'
                                 f'{"." + eff.field if eff.field else ""})',
                                 at=f'{eff.func.module.relpath}:'
                                    f'{eff.lineno}',
                                 detail=eff.describe())
            elif not ddreads:
                ctx.holds('DG-PURE', meth, f'{klass.name}.{name}: no write '
                          f'reaches self or the other operand',
                          at=meth.where(), nontrivial=name in (
                              'copy', 'invert', '__add__', '__le__',
                              'topological_sort', 'dependencies'))
    ctx.floor('DG-PURE', n, 25, 'read-only methods of DepGraph / RList')


# ------------------------------------------------------------------ PAIR --

SEQ_WRITES = {'append', 'insert', 'pop', 'remove', 'extend', 'clear',
              'swap', 'reverse', 'sort', '__setitem__', '__delitem__'}
MAP_KEY_WRITES = {'pop', 'clear', 'setdefault', 'update', 'popitem'}


def _writes(meth, field):
    '''(structure-changing writes, value-only writes) on self.<field>.'''
    struct, values = [], []
    target = f'self.{field}'
    for node in walk_local(meth.node):
        if isinstance(node, (ast.Assign, ast.AugAssign)):
            tgts = node.targets if isinstance(node, ast.Assign) else \
                [node.target]
            for tgt in tgts:
                if isinstance(tgt, ast.Subscript) and txt(tgt.value) == \
                        target:
                    struct.append(node)
                elif txt(tgt) == target:
                    struct.append(node)
        elif isinstance(node, ast.Delete):
            for tgt in node.targets:
                if isinstance(tgt, ast.Subscript) and txt(tgt.value) == \
                        target:
                    struct.append(node)
        elif isinstance(node, ast.Call) and receiver(node) is not None:
            recv = receiver(node)
            if txt(recv) == target and call_name(node) in (
                    SEQ_WRITES | MAP_KEY_WRITES):
                struct.append(node)
            elif isinstance(recv, ast.Subscript) and txt(recv.value) == \
                    target and call_name(node) in ('add', 'remove',
                                                   'discard', 'append',
                                                   'update'):
                values.append(node)
    return struct, values


def _append_at_end(meth, one, two, w_one):
    '''self.<one>.append(v) shifts no position: the only update the index
    needs is `self.<two>[key].append(pos)` with pos the length of the
    sequence before the append (or the length minus one after it).  True
    when that is what the method does, None when the value write on the
    index is there but its position is not read, False otherwise.'''
    if not all(isinstance(w, ast.Call) and call_name(w) == 'append' and
               len(w.args) == 1 for w in w_one):
        return False
    _, vals = _writes(meth, two)
    vals = [v for v in vals if call_name(v) == 'append' and len(v.args) == 1]
    if len(w_one) != 1 or len(vals) != 1:
        return False if not vals else None
    pos = vals[0].args[0]
    lens = (f'len(self.{one})', 'len(self)')
    seq_line = w_one[0].lineno
    if isinstance(pos, ast.Name):
        defs = [n for n in walk_local(meth.node) if isinstance(
            n, ast.Assign) and len(n.targets) == 1 and txt(
                n.targets[0]) == pos.id]
        if len(defs) == 1 and txt(defs[0].value) in lens and \
                defs[0].lineno < seq_line:
            return True
        return None
    if txt(pos) in lens and vals[0].lineno < seq_line:
        return True
    if isinstance(pos, ast.BinOp) and isinstance(pos.op, ast.Sub) and txt(
            pos.left) in lens and txt(pos.right) == '1' and \
            vals[0].lineno > seq_line:
        return True
    return None


def check_pair(ctx):
    program = ctx.program
    pairs = ((DG, '_nodes', '_edges'), (RL, '_seq', '_index'))
    found = 0
    for ckey, one, two in pairs:
        klass = program.cls(ckey)
        called = {}
        for meth in klass.methods.values():
            for call in calls_in(meth.node):
                if isinstance(call.func, ast.Attribute) and dotted(
                        call.func.value) == 'self' and \
                        call.func.attr in klass.methods:
                    called.setdefault(meth.name, set()).add(call.func.attr)
        helpers = {h for hs in called.values() for h in hs
                   if h.startswith('_') and not h.endswith('__')}
        for meth in klass.methods.values():
            if meth.name == '__init__':
                continue
            if meth.name in helpers:
                # a private helper doing one half of the update for the
                # methods that call it: judged with its callers
                continue
            w_one, _ = _writes(meth, one)
            w_two, _ = _writes(meth, two)
            for hname in called.get(meth.name, ()):
                if hname in helpers:
                    w_one = w_one or _writes(klass.methods[hname], one)[0]
                    w_two = w_two or _writes(klass.methods[hname], two)[0]
            if not w_one and not w_two:
                continue
            found += 1
            # a method that delegates the whole update to another method of
            # the class is fine (append -> insert)
            ok = bool(w_one) and bool(w_two)
            if w_one and not w_two:
                ok = _append_at_end(meth, one, two, w_one)
            missing = two if w_one and not w_two else one
            ctx.decide('PAIR', meth,
                       f'{klass.name}.{meth.name}: self.{one} and '
                       f'self.{two} are updated together', ok,
                       at=meth.where((w_one or w_two)[0]),
                       detail=f'changes self.{one if w_one else two} '
                              f'({txt((w_one or w_two)[0])[:50]}) but not '
                              f'self.{missing}: positions and the structure '
                              f'indexed by position get out of step'
                       if not ok else None)
    ctx.floor('PAIR', found, 5, 'mutators of _nodes/_edges and _seq/_index')


# ------------------------------------------------------------ PAIR-SHIFT --

def _shift_table(expr, var, pivot):
    '''For `A if var < pivot else B`-like expressions: outcome per ordering
    of var vs pivot as ('same' | '+1' | '-1' | '?').'''
    def outcome(node):
        if isinstance(node, ast.Name) and node.id == var:
            return 'same'
        if isinstance(node, ast.BinOp) and isinstance(
                node.left, ast.Name) and node.left.id == var and isinstance(
                    node.right, ast.Constant) and node.right.value == 1:
            if isinstance(node.op, ast.Add):
                return '+1'
            if isinstance(node.op, ast.Sub):
                return '-1'
        return '?'
    if not isinstance(expr, ast.IfExp):
        return None
    test = expr.test
    if not (isinstance(test, ast.Compare) and len(test.ops) == 1):
        return None
    left, oper, right = txt(test.left), test.ops[0], txt(test.comparators[0])
    if left == pivot and right == var:
        left, right = right, left
        oper = {ast.Lt: ast.Gt, ast.Gt: ast.Lt, ast.LtE: ast.GtE,
                ast.GtE: ast.LtE}.get(type(oper), type(oper))()
    if left != var or right != pivot:
        return None
    true_on = {ast.Lt: {'lt'}, ast.LtE: {'lt', 'eq'}, ast.Gt: {'gt'},
               ast.GtE: {'gt', 'eq'}, ast.Eq: {'eq'},
               ast.NotEq: {'lt', 'gt'}}.get(type(oper))
    if true_on is None:
        return None
    return {row: outcome(expr.body if row in true_on else expr.orelse)
            for row in ('lt', 'eq', 'gt')}


def check_pair_shift(ctx):
    '''RList.insert shifts the recorded positions >= index up by one,
    RList.__delitem__ drops position == index and shifts the positions above
    it down by one (decision table over the ordering of a position and the
    index).'''
    program = ctx.program
    klass = program.cls(RL)
    want = {'insert': {'lt': 'same', 'eq': '+1', 'gt': '+1'},
            '__delitem__': {'lt': 'same', 'gt': '-1'}}
    n = 0
    for name, table in want.items():
        meth = klass.methods.get(name)
        if meth is None:
            raise AnalysisError(f'PAIR-SHIFT: RList.{name} not found')
        pivot = meth.params[1]
        # the re-numbering may live in a private helper of the class
        scopes = [meth] + [klass.methods[c.func.attr]
                           for c in calls_in(meth.node)
                           if isinstance(c.func, ast.Attribute) and dotted(
                               c.func.value) == 'self' and
                           c.func.attr in klass.methods and
                           c.func.attr.startswith('_') and
                           not c.func.attr.endswith('__')]
        comps = [node for node in walk_local(meth.node)
                 if isinstance(node, ast.ListComp) and isinstance(
                     node.elt, ast.IfExp)]
        if not comps and len(scopes) > 1:
            for helper in scopes[1:]:
                for node in walk_local(helper.node):
                    if isinstance(node, ast.ListComp) and isinstance(
                            node.elt, ast.IfExp):
                        n += 1
                        ctx.undecided('PAIR-SHIFT', meth,
                                      f'RList.{name}: re-numbered by the '
                                      f'helper {helper.name}: '
                                      f'{txt(node.elt)[:50]}',
                                      at=helper.where(node))
        for comp in comps:
            var = txt(comp.generators[0].target)
            got = _shift_table(comp.elt, var, pivot)
            n += 1
            ctx.count('decision_table_rows', 3)
            if got is None or '?' in got.values():
                ctx.undecided('PAIR-SHIFT', meth, f'RList.{name}: '
                              f'{txt(comp.elt)}', at=meth.where(comp))
                continue
            ok = all(got[row] == out for row, out in table.items())
            ctx.decide('PAIR-SHIFT', meth,
                       f'RList.{name}: positions {got}', ok,
                       at=meth.where(comp), detail={'expected': table})
            # the loop covers every recorded key
            src = txt(comp.generators[0].iter)
            if name == '__delitem__':
                filt = [n_ for n_ in walk_local(meth.node)
                        if isinstance(n_, ast.Call) and call_name(n_) ==
                        'filter']
                lam = filt[0].args[0] if filt else None
                good = lam is not None and isinstance(lam, ast.Lambda) and \
                    isinstance(lam.body, ast.Compare) and isinstance(
                        lam.body.ops[0], ast.NotEq) and pivot in txt(
                            lam.body)
                ctx.decide('PAIR-SHIFT', meth, f'RList.{name}: the deleted '
                           f'position is dropped ({txt(lam) if lam else "?"}'
                           f')', True if good else None,
                           at=meth.where(comp), nontrivial=False)
        loops = [node for scope in scopes
                 for node in walk_local(scope.node)
                 if isinstance(node, ast.For) and 'self._index.items()' in
                 txt(node.iter)]
        ctx.decide('PAIR-SHIFT', meth, f'RList.{name}: every key of the '
                   f'reverse map is re-numbered', bool(loops),
                   at=meth.where(), nontrivial=False)
    ctx.floor('PAIR-SHIFT', n, 2, 'position re-numbering expressions')


# ------------------------------------------------------------ SWAP-TABLE --

def check_swap_table(ctx):
    '''DepGraph.remove_node: the renumbering closure maps i -> last,
    last -> i and leaves every other position alone; the row, the incoming
    edges and the node that are deleted are all `last`.'''
    program = ctx.program
    meth = program.func(f'{DG}.remove_node')
    swapper = None
    for node in ast.walk(meth.node):
        if isinstance(node, ast.FunctionDef) and node is not meth.node:
            swapper = node
    if swapper is None:
        ctx.undecided('SWAP-TABLE', meth, 'no renumbering closure',
                      at=meth.where())
        return
    param = swapper.args.args[0].arg
    # names of the two positions: from the swap call
    swap = [n for n in walk_local(meth.node) if isinstance(n, ast.Call) and
            call_name(n) == 'swap']
    if not swap or len(swap[0].args) != 2:
        ctx.undecided('SWAP-TABLE', meth, 'no swap(i, last) call',
                      at=meth.where())
        return
    one, two = (txt(a) for a in swap[0].args)
    table = {}
    for cell in (one, two, 'other'):
        result = None
        for stmt in swapper.body:
            if isinstance(stmt, ast.If) and isinstance(
                    stmt.test, ast.Compare) and isinstance(
                        stmt.test.ops[0], ast.Eq):
                left, right = txt(stmt.test.left), txt(
                    stmt.test.comparators[0])
                other = right if left == param else left if right == param \
                    else None
                if other is None:
                    result = '?'
                    break
                if other == cell:
                    ret = [s for s in stmt.body if isinstance(s, ast.Return)]
                    result = txt(ret[0].value) if ret else '?'
                    break
            elif isinstance(stmt, ast.Return):
                result = txt(stmt.value)
                break
            elif isinstance(stmt, (ast.Expr, ast.Pass)):
                continue
            else:
                result = '?'
                break
        table[cell] = result
    ctx.count('decision_table_rows', 3)
    want = {one: two, two: one, 'other': param}
    ctx.decide('SWAP-TABLE', meth, f'renumbering {table}',
               None if '?' in table.values() else table == want,
               at=meth.where(swapper), detail={'expected': want})
    # the deletions
    dels = [txt(t) for n in walk_local(meth.node) if isinstance(n, ast.Delete)
            for t in n.targets]
    ctx.decide('SWAP-TABLE', meth, f'deleted: {dels}',
               f'self._edges[{two}]' in dels and f'self._nodes[{two}]' in
               dels and len(dels) == 2, at=meth.where())
    # rows exchanged
    stores = {txt(n.targets[0]): txt(n.value) for n in walk_local(meth.node)
              if isinstance(n, ast.Assign) and isinstance(
                  n.targets[0], ast.Subscript) and txt(
                      n.targets[0].value) == 'self._edges'}
    tmp = {txt(n.targets[0]): txt(n.value) for n in walk_local(meth.node)
           if isinstance(n, ast.Assign) and isinstance(n.targets[0],
                                                       ast.Name)}
    exch = stores.get(f'self._edges[{one}]') == f'self._edges[{two}]' and \
        tmp.get(stores.get(f'self._edges[{two}]', '')) == \
        f'self._edges[{one}]'
    ctx.decide('SWAP-TABLE', meth, f'rows {one} and {two} exchanged',
               True if exch else None, at=meth.where(), nontrivial=False)
    # incoming edges filtered on the same position
    filt = [n for n in walk_local(meth.node) if isinstance(
        n, ast.GeneratorExp) and n.generators[0].ifs]
    if filt:
        cond = filt[0].generators[0].ifs[0]
        ctx.decide('SWAP-TABLE', meth, f'incoming edges dropped where '
                   f'{txt(cond)}', isinstance(cond, ast.Compare) and
                   isinstance(cond.ops[0], ast.NotEq) and two in txt(cond),
                   at=meth.where(filt[0]))


# ------------------------------------------------------------ INDEX-PRUNE --

def check_index_prune(ctx):
    '''RList.__contains__ is `key in self._index`: a key must disappear from
    the reverse map together with its last position.  Every method that
    removes a position from a list of the map (`.remove`, `.pop`) tests the
    list for emptiness and deletes the key (the sibling methods all do).'''
    program = ctx.program
    klass = program.cls(RL)
    contains = klass.methods.get('__contains__')
    by_key = contains is not None and any(
        isinstance(n, ast.Compare) and isinstance(n.ops[0], ast.In) and
        txt(n.comparators[0]) == 'self._index'
        for n in ast.walk(contains.node))
    if not by_key:
        ctx.undecided('INDEX-PRUNE', klass, '__contains__ does not test the '
                      'keys of the reverse map: rule not applicable')
        return
    n = 0
    for meth in klass.methods.values():
        aliases = {}
        for node in walk_local(meth.node):
            if isinstance(node, ast.Assign) and isinstance(
                    node.targets[0], ast.Name) and isinstance(
                        node.value, ast.Subscript) and txt(
                            node.value.value) == 'self._index':
                aliases[node.targets[0].id] = txt(node.value.slice)
        removals = []
        for node in walk_local(meth.node):
            if isinstance(node, ast.Call) and call_name(node) in (
                    'remove', 'pop') and receiver(node) is not None:
                recv = receiver(node)
                if isinstance(recv, ast.Name) and recv.id in aliases:
                    removals.append((node, recv.id))
                elif isinstance(recv, ast.Subscript) and txt(
                        recv.value) == 'self._index':
                    removals.append((node, None))
        for call, alias in removals:
            n += 1
            pruned = False
            for node in walk_local(meth.node):
                if isinstance(node, ast.If):
                    test = node.test
                    empt = isinstance(test, ast.UnaryOp) and isinstance(
                        test.op, ast.Not) and (
                            txt(test.operand) == alias or
                            'self._index' in txt(test.operand))
                    if isinstance(test, ast.Compare) and len(
                            test.ops) == 1 and isinstance(
                                test.ops[0], (ast.Eq, ast.Lt, ast.LtE)) \
                            and txt(test.left).startswith('len(') and (
                                (alias and alias in txt(test.left)) or
                                'self._index' in txt(test.left)):
                        empt = True
                    dels = any(isinstance(s, ast.Delete) and 'self._index'
                               in txt(s) for s in node.body)
                    if empt and dels and node.lineno > call.lineno:
                        pruned = True
            ctx.decide('INDEX-PRUNE', meth,
                       f'RList.{meth.name}: {txt(call)[:50]} is followed by '
                       f'the deletion of an emptied key', pruned,
                       at=meth.where(call),
                       detail='the key stays in the reverse map with an '
                              'empty list: `x in rlist` (and `node in '
                              'graph`) remain true after the removal, the '
                              'node cannot be added again'
                       if not pruned else None)
    ctx.floor('INDEX-PRUNE', n, 1, 'removals from a list of the reverse map')


# ------------------------------------------------------ FLATTEN-FIXPOINT ---

def check_flatten_fixpoint(ctx):
    """flatten(recurse=True) ends with no graph-node left: grafting a graph
    re-inserts ALL its nodes (merge), including a nested graph that was
    grafted - and removed - earlier when it is shared between two places.
    (a) the shipped spelling re-scans self._nodes after every round, which
    establishes the post-condition by its exit test; (b) a work-list spelling
    is not decided here; (c) a work-list with a VISITED set (skip the graph
    that "was already grafted") is recognised-wrong: the skipped graph is
    exactly the one a later graft brought back."""
    program = ctx.program
    klass = program.cls('valjean.cosette.depgraph:DepGraph')
    meth = klass.methods.get('flatten')
    if meth is None:
        raise AnalysisError('DepGraph.flatten not found')
    program.consulted.add(meth.module.relpath)
    grafts = [c for c in calls_in(meth.node) if call_name(c) == 'graft']
    ctx.floor('FLATTEN-FIXPOINT', len(grafts), 1, 'graft() call in flatten')
    parents = enclosing_chain(meth.node)
    # local collections that receive the grafted node (or its id)
    filled = {}
    for call in calls_in(meth.node):
        if call_name(call) in ('add', 'append') and isinstance(
                receiver(call), ast.Name) and call.args:
            filled.setdefault(receiver(call).id, []).append(call.args[0])
    for graft in grafts:
        arg = txt(graft.args[0]) if graft.args else None
        visited = {name for name, vals in filled.items()
                   if any(txt(v) in (arg, f'id({arg})') for v in vals)}
        skip = None
        for node in walk_local(meth.node):
            if isinstance(node, ast.If) and any(
                    isinstance(c, ast.Compare) and isinstance(
                        c.ops[0], (ast.In, ast.NotIn)) and
                    txt(c.comparators[0]) in visited
                    for c in ast.walk(node.test)):
                skip = node
        loops = [n for n in walk_local(meth.node)
                 if isinstance(n, ast.While)]
        rescans = [n for n in walk_local(meth.node)
                   if isinstance(n, ast.Assign) and isinstance(
                       n.value, (ast.ListComp, ast.GeneratorExp)) and
                   '_nodes' in txt(n.value.generators[0].iter) and
                   'isinstance' in txt(n.value)]
        if skip is not None:
            ctx.violated(
                'FLATTEN-FIXPOINT', meth,
                f'flatten: graft skipped under `{txt(skip.test)[:50]}`',
                at=meth.where(skip),
                detail='a graph that was grafted before and is brought back '
                       'by the graft of a graph that also contains it (a '
                       'nested graph shared between two places) is skipped: '
                       'it stays in the flattened graph and the ordering '
                       'constraints through it are lost')
        elif loops and any(
                isinstance(lp.test, ast.Name) and any(
                    txt(rs.targets[0]) == lp.test.id and
                    lexically_inside(parents, rs, lambda n, lp=lp: n is lp)
                    for rs in rescans) for lp in loops):
            ctx.holds('FLATTEN-FIXPOINT', meth,
                      'flatten: the loop ends when a re-scan of self._nodes '
                      'finds no graph-node', at=meth.where(loops[0]))
        else:
            ctx.undecided('FLATTEN-FIXPOINT', meth,
                          'flatten: termination test not recognised',
                          at=meth.where(graft))


# -------------------------------------------------------------- SWAP-SEM ---

def check_swap_sem(ctx):
    """remove_node interpreted over the three classes of positions it can
    tell apart - the removed one (i), the last one, every other one - on ALL
    abstract graphs (each row any subset of the classes; cases i != last and
    i == last): the resulting rows must be those of the mathematical removal
    (row of i gone, row of last found at i; in every row i dropped, last
    renamed i, the others untouched).  The interpreter (sa/symgraph.py)
    understands row exchanges, deletions, rebuilds through the renumbering
    closure or a filter, and in-place edits of the sets."""
    from .. import symgraph
    program = ctx.program
    meth = program.func(f'{DG}.remove_node')
    program.consulted.add(meth.module.relpath)
    wrong, unknown, count = symgraph.remove_node_table(meth.node)
    ctx.count('decision_table_rows', count)
    if wrong:
        case, init, got, want = wrong[0]
        ctx.violated('SWAP-SEM', meth,
                     f'remove_node: {len(wrong)} of {count} abstract graphs '
                     f'end with the wrong edges', at=meth.where(),
                     detail={'case': case, 'rows before': init,
                             'rows after': got, 'expected': want,
                             'legend': 'I = position of the removed node, '
                                       'L = last position, O = any other'})
    elif unknown:
        ctx.undecided('SWAP-SEM', meth,
                      f'remove_node: construct outside the interpreted '
                      f'fragment ({unknown[0][2][:60]})', at=meth.where())
    else:
        ctx.holds('SWAP-SEM', meth,
                  f'remove_node: the {count} abstract graphs end with the '
                  f'rows of the mathematical removal', at=meth.where())


# ----------------------------------------------------------- TOPO-CYCLE ---

def check_topo_cycle(ctx):
    """topological_sort() either returns EVERY node or raises: where is the
    cycle detected?  Two families are recognised.  Depth-first (the shipped
    code): the raise sits in the recursive visitor, under a test - a node met
    again while still open.  Iterative (Kahn, in-degree counting): the
    work-list loop simply runs dry when it reaches a cycle; the nodes on the
    cycle - and everything that depends on them - are then missing from the
    result, so a raise must FOLLOW the loop, under a test that compares what
    was emitted with what the graph holds.  A raise before the loop only (no
    node without dependencies at all) misses every cycle that hangs below
    an acyclic part."""
    program = ctx.program
    klass = program.cls(DG)
    meth = klass.methods.get('topological_sort')
    if meth is None:
        raise AnalysisError('DepGraph.topological_sort not found')
    program.consulted.add(klass.module.relpath)
    raises = [n for n in ast.walk(meth.node) if isinstance(n, ast.Raise)]
    ctx.floor('TOPO-CYCLE', len(raises), 1, 'raise in topological_sort')
    nested = [n for n in ast.walk(meth.node)
              if isinstance(n, ast.FunctionDef) and n is not meth.node]
    recursive = [f for f in nested if any(
        isinstance(c, ast.Call) and isinstance(c.func, ast.Name) and
        c.func.id == f.name for c in ast.walk(f))]
    where = meth.where(raises[0])
    if recursive:
        inside = [r for r in raises
                  if any(r in list(ast.walk(f)) for f in recursive)]
        guarded = [r for r in inside if any(
            isinstance(i, ast.If) and r in list(ast.walk(i))
            for f in recursive for i in ast.walk(f))]
        ctx.decide('TOPO-CYCLE', meth,
                   f'depth-first sort: the cycle is detected in the '
                   f'recursive visitor {recursive[0].name}() '
                   f'({len(guarded)} guarded raise)', bool(guarded),
                   at=where,
                   detail=None if guarded else 'no raise in the visitor')
        return
    loops = [n for n in meth.node.body if isinstance(n, (ast.While,
                                                        ast.For))]
    worklist = [n for n in loops if isinstance(n, ast.While)]
    if not worklist:
        ctx.undecided('TOPO-CYCLE', meth, 'neither a recursive visitor nor '
                      'a work-list loop: algorithm not recognised',
                      at=where)
        return
    last = worklist[-1]
    pos = meth.node.body.index(last)
    after = [r for r in raises if any(
        r in list(ast.walk(stmt)) for stmt in meth.node.body[pos + 1:] +
        list(last.orelse))]
    checked = [r for r in after if any(
        isinstance(i, ast.If) and r in list(ast.walk(i)) and any(
            isinstance(c, ast.Call) and call_name(c) in ('len', 'any', 'all',
                                                         'sum')
            for c in ast.walk(i.test))
        for stmt in meth.node.body[pos + 1:] for i in ast.walk(stmt))]
    ctx.decide('TOPO-CYCLE', meth,
               'iterative sort: a raise follows the work-list loop, under a '
               'test on what was emitted / what is left'
               if checked else
               'iterative sort: no raise after the work-list loop',
               bool(checked), at=meth.where(last),
               detail=None if checked else
               'the loop runs dry on a cycle that is reachable from an '
               'acyclic part: its nodes and their dependents are silently '
               'missing from the result instead of DepGraphError')
