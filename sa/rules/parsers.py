'''Rules on the Tripoli-4 / Apollo3 readers: UNIT, FLIP, SIBLING-BINS (C10)
and EXC-ESC (C11).'''
import ast
from collections import Counter

from ..astutil import (dotted, call_name, receiver, txt, calls_in,
                       walk_local, enclosing_chain)
from ..excdom import ExcAnalysis, pyparsing_converts_indexerror
from ..loader import AnalysisError, FuncInfo
from .dataset import _factors, ctor_arg
from . import verdict as V

T4 = 'valjean.eponine.tripoli4.'
CONV = T4 + 'data_convertor'
COMMON = T4 + 'common'
GRAMMAR = T4 + 'grammar'
PARSE = T4 + 'parse'
SCAN = T4 + 'scan'
READER = 'valjean.eponine.apollo3.hdf5_reader'
PICKER = 'valjean.eponine.apollo3.hdf5_picker'


# ------------------------------------------------------------------ UNIT ---

def _strip_wrappers(expr):
    '''np.full(shape, X) -> X ; X.copy() -> X.'''
    while True:
        if isinstance(expr, ast.Call) and call_name(expr) in (
                'full', 'full_like') and len(expr.args) >= 2:
            expr = expr.args[1]
        elif isinstance(expr, ast.Call) and call_name(expr) == 'copy' and \
                not expr.args and receiver(expr) is not None:
            expr = receiver(expr)
        else:
            return expr


def _sigma_key(sub):
    '''Is this subscript indexed by a sigma key?  "sigma" constant, the
    `sigma` parameter, or "sigma%".'''
    if not isinstance(sub, ast.Subscript):
        return None
    key = sub.slice
    if isinstance(key, ast.Constant) and isinstance(key.value, str) and \
            key.value.startswith('sigma'):
        return key.value
    if isinstance(key, ast.Name) and key.id == 'sigma':
        return 'param:sigma'
    return None


def _subst_locals(func, expr, depth=0):
    '''The expression with every local name that has exactly ONE definition
    replaced by that definition (recursively); `A if c else None` used as an
    operand stands for A.'''
    import copy
    defs = {}
    for node in walk_local(func.node):
        if isinstance(node, ast.Assign) and len(node.targets) == 1 and \
                isinstance(node.targets[0], ast.Name):
            defs.setdefault(node.targets[0].id, []).append(node.value)
    params = set(func.params)

    class Sub(ast.NodeTransformer):
        def __init__(self, level):
            self.level = level

        def visit_Name(self, node):
            if isinstance(node.ctx, ast.Load) and node.id not in params and \
                    len(defs.get(node.id, [])) == 1 and self.level < 4:
                new = copy.deepcopy(defs[node.id][0])
                return Sub(self.level + 1).visit(new)
            return node
    return Sub(depth).visit(copy.deepcopy(expr))


def _is_nan_const(expr):
    expr = _strip_wrappers(expr)
    while isinstance(expr, ast.Call) and call_name(expr) in (
            'float_', 'float64', 'float', 'array', 'float32') and expr.args:
        expr = expr.args[0]
    return txt(expr) in ('np.nan', 'nan', 'numpy.nan', 'math.nan',
                         "float('nan')", 'np.NaN', 'np.NAN')


def _check_nan_fallback(ctx, func, call, err):
    '''error = <sigma formula> if <test> else NaN: the fall-back stands for
    "this record prints no sigma" and must be selected by the presence of the
    sigma KEY; selected by the truth value of the sigma VALUE, a printed
    sigma of exactly 0 (zero score, single batch) becomes NaN.'''
    n = 0
    for node in ast.walk(err):
        if not isinstance(node, ast.IfExp):
            continue
        if not (_is_nan_const(node.orelse) or _is_nan_const(node.body)):
            continue
        n += 1
        reads_value = any(_sigma_key(sub) for sub in ast.walk(node.test))
        ctx.decide('UNIT', func,
                   f'{func.name}: NaN error selected by `{txt(node.test)[:50]}`',
                   not reads_value, at=func.where(call),
                   detail=None if not reads_value else
                   'the test reads the sigma VALUE: sigma = 0.0 (printed for '
                   'a zero score or a single batch) is turned into NaN '
                   'instead of an error of 0')
    return n


def check_unit(ctx):
    mod = ctx.program.module(CONV)
    n = 0
    for func in mod.functions.values():
        parents = enclosing_chain(func.node)
        for call in calls_in(func.node):
            if txt(call.func) != 'Dataset' or len(call.args) < 2:
                continue
            val = _subst_locals(func, call.args[0])
            err = _subst_locals(func, call.args[1])
            for sub in list(ast.walk(val)) + list(ast.walk(err)):
                ast.copy_location(sub, call)
            _check_nan_fallback(ctx, func, call, err)
            err = _strip_wrappers(err)
            branches = [err]
            exp_guard = {}
            if isinstance(err, ast.IfExp):
                branches = [err.body, err.orelse]
                # `A if <both keys present> else B`: the test guards A
                exp_guard[id(err.body)] = err.test
            for branch in branches:
                inner = _strip_wrappers(branch)
                sig_subs = [s for s in ast.walk(inner) if _sigma_key(s)]
                if not sig_subs:
                    continue
                n += 1
                vinner = _strip_wrappers(val)
                construct = f'{func.name}: error = {txt(inner)[:70]}'
                where = func.where(call)
                # pass-through of an absolute sigma: allowed only where both
                # 'sigma' and 'sigma%' exist
                if isinstance(inner, ast.Subscript) and _sigma_key(inner):
                    guard = exp_guard.get(id(branch))
                    cur = call
                    while guard is None and parents.get(id(cur)) is not None:
                        par = parents[id(cur)]
                        if isinstance(par, ast.If) and any(
                                cur is s or cur in list(ast.walk(s))
                                for s in par.body):
                            guard = par.test
                            break
                        cur = par
                    dual = guard is not None and "'sigma'" in txt(guard) \
                        and "'sigma%'" in txt(guard)
                    ctx.decide('UNIT', func, construct,
                               True if dual and _sigma_key(inner) == 'sigma'
                               else False, at=where,
                               detail='a printed sigma is passed through as '
                                      'absolute error only where both sigma '
                                      'and sigma% are present')
                    continue
                class _DropNone(ast.NodeTransformer):
                    def visit_IfExp(self, node):
                        self.generic_visit(node)
                        if isinstance(node.orelse, ast.Constant) and \
                                node.orelse.value is None:
                            return node.body
                        return node
                inner = _DropNone().visit(inner)
                num, den = Counter(), Counter()
                _factors(inner, num, den)
                sig = [k for k in num if any(
                    _sigma_key(s) for s in ast.walk(ast.parse(
                        k, mode='eval')) if isinstance(s, ast.Subscript))]
                score = [k for k in num if k == txt(vinner)]
                scale = ('0.01' in num and num['0.01'] == 1) or \
                    den.get('100', 0) == 1 or den.get('100.0', 0) == 1
                others = [k for k in num if k not in sig and k not in score
                          and k != '0.01']
                if len(sig) == 1 and score and scale and not others and \
                        not [d for d in den if d not in ('100', '100.0')]:
                    # same base object for sigma and score
                    sbase = ast.parse(sig[0], mode='eval').body.value
                    vbase = vinner.value if isinstance(
                        vinner, ast.Subscript) else None
                    same = vbase is not None and txt(sbase) == txt(vbase)
                    ctx.decide('UNIT', func, construct, same, at=where,
                               detail='sigma and score are read from the '
                                      'same record' if same else
                               f'sigma read from {txt(sbase)}, value from '
                               f'{txt(vbase) if vbase is not None else "?"}')
                elif len(sig) == 1 and score and not scale:
                    ctx.violated('UNIT', func, construct, at=where,
                                 detail='the printed sigma is a percentage: '
                                        'the factor 0.01 is missing')
                elif len(sig) == 1 and not score:
                    ctx.violated('UNIT', func, construct, at=where,
                                 detail=f'relative sigma not multiplied by '
                                        f'the value {txt(vinner)[:40]} it '
                                        f'belongs to')
                else:
                    ctx.undecided('UNIT', func, construct, at=where)
    ctx.floor('UNIT', n, 4, 'Dataset(...) with a sigma-derived error in '
              'data_convertor')


# ------------------------------------------------------------------ FLIP ---

def check_flip(ctx):
    klass = ctx.program.cls(f'{COMMON}:DictBuilder')
    flip = klass.methods.get('_flip_bins_for_dim')
    conv = klass.methods.get('convert_bins_to_increasing_arrays')
    if flip is None or conv is None:
        raise AnalysisError('DictBuilder flip methods not found')
    params = [p for p in flip.params if p != 'self']
    dim, axis = params[0], params[1]
    # (a) the bins of that dimension are reversed
    bins_rev = any(
        isinstance(n, ast.Assign) and txt(n.targets[0]) ==
        f'self.bins[{dim}]' and isinstance(n.value, (ast.Call,
                                                     ast.Subscript))
        and ('flip' in txt(n.value) or '::-1' in txt(n.value))
        for n in walk_local(flip.node))
    ctx.decide('FLIP', flip, f'self.bins[{dim}] is reversed', bins_rev,
               at=flip.where())
    # (b) every array of self.arrays is reversed along the same axis
    loops = [n for n in walk_local(flip.node) if isinstance(n, ast.For) and
             'self.arrays' in txt(n.iter)]
    if not loops:
        ctx.violated('FLIP', flip, 'no loop over all of self.arrays',
                     at=flip.where(),
                     detail='only some arrays are flipped with the bins')
    for loop in loops:
        over_all = txt(loop.iter) in ('self.arrays.items()', 'self.arrays',
                                      'self.arrays.keys()',
                                      'list(self.arrays.items())',
                                      'list(self.arrays)')
        stores = [n for n in ast.walk(loop) if isinstance(n, ast.Assign) and
                  txt(n.targets[0]).startswith('self.arrays[')]
        ok_axis = None
        for store in stores:
            val = store.value
            if isinstance(val, ast.Call) and call_name(val) == 'flip':
                ax = ctor_arg(val, 1, 'axis')
                ok_axis = ax is not None and txt(ax) == axis
        cond = any(isinstance(n, ast.If) for n in ast.walk(loop))
        ctx.decide('FLIP', flip, f'for {txt(loop.target)} in '
                   f'{txt(loop.iter)}: flipped along `{axis}`',
                   (over_all and bool(stores) and ok_axis and not cond)
                   if ok_axis is not None else None,
                   at=flip.where(loop),
                   detail='every stored array (default, integrated, ...) is '
                          'reversed along the axis of the reversed bins')
    # (c) caller: axis = position of the key in self.bins; test compares
    # the first two bins
    calls = [c for c in calls_in(conv.node)
             if call_name(c) == '_flip_bins_for_dim']
    ctx.floor('FLIP-call', len(calls), 1, 'call of _flip_bins_for_dim')
    enum_ok = any(isinstance(n, (ast.ListComp, ast.For, ast.comprehension))
                  and 'enumerate(self.bins)' in txt(n)
                  for n in ast.walk(conv.node))
    ctx.decide('FLIP', conv, 'axis is the position of the key in self.bins '
               '(enumerate)', enum_ok, at=conv.where())
    parents = enclosing_chain(conv.node)
    for call in calls:
        cur = call
        test = None
        while parents.get(id(cur)) is not None:
            par = parents[id(cur)]
            if isinstance(par, ast.If) and any(cur is s or cur in list(
                    ast.walk(s)) for s in par.body):
                test = par.test
                break
            cur = par
        ok = None
        if test is not None:
            cmps = [n for n in ast.walk(test) if isinstance(n, ast.Compare)
                    and isinstance(n.ops[0], (ast.Gt, ast.Lt))]
            for cmp_ in cmps:
                left, right = txt(cmp_.left), txt(cmp_.comparators[0])
                if left.endswith('[0]') and right.endswith('[1]'):
                    ok = isinstance(cmp_.ops[0], ast.Gt)
                elif left.endswith('[1]') and right.endswith('[0]'):
                    ok = isinstance(cmp_.ops[0], ast.Lt)
        ctx.decide('FLIP', conv, f'flip when `{txt(test)[:60] if test is not None else None}`',
                   ok, at=conv.where(call),
                   detail='decreasing = first bin greater than the second')


# --------------------------------------------------------- SIBLING-BINS ---

def _bins_table(func, name_param_hint):
    '''[(guard kind, literals or None, returned keys or "None"/"raise")] of
    the top-level if/return chain of a make_bins-like function.'''
    rows = []

    def keys_of(ret):
        val = ret.value
        if val is None or (isinstance(val, ast.Constant) and
                           val.value is None):
            return 'None'
        if isinstance(val, ast.Call) and call_name(val) == 'OrderedDict' \
                and val.args and isinstance(val.args[0], ast.List):
            return tuple(e.elts[0].value for e in val.args[0].elts
                         if isinstance(e, ast.Tuple) and isinstance(
                             e.elts[0], ast.Constant))
        return '?'

    def classify(test):
        if isinstance(test, ast.Compare) and len(test.ops) == 1:
            left, op, right = test.left, test.ops[0], test.comparators[0]
            if isinstance(op, ast.Eq) and isinstance(right, ast.Constant) \
                    and isinstance(right.value, str):
                return 'name', (right.value,)
            if isinstance(op, ast.In) and isinstance(right, (ast.Tuple,
                                                             ast.List)):
                return 'name', tuple(e.value for e in right.elts
                                     if isinstance(e, ast.Constant))
            if isinstance(op, ast.Eq) and 'size' in txt(test) and \
                    'ngroups' in txt(test):
                return 'size-eq-ngroups', None
            if isinstance(op, ast.Eq) and isinstance(
                    right, ast.Constant) and right.value == 0:
                return 'zero-groups', None
            if isinstance(op, ast.NotEq) and '*' in txt(test):
                return 'size-mismatch', None
        return 'other', None
    for stmt in func.node.body:
        if isinstance(stmt, ast.If):
            kind, lits = classify(stmt.test)
            rets = [s for s in stmt.body if isinstance(s, ast.Return)]
            raises = [s for s in stmt.body if isinstance(s, ast.Raise)]
            if rets:
                rows.append((kind, lits, keys_of(rets[0])))
            elif raises:
                rows.append((kind, lits, 'raise'))
        elif isinstance(stmt, ast.Return):
            rows.append(('default', None, keys_of(stmt)))
    return rows


def check_sibling_bins(ctx):
    program = ctx.program
    reader = program.func(f'{READER}:make_bins')
    picker = program.func(f'{PICKER}:Picker._make_bins')
    rtab = _bins_table(reader, 'nres')
    ptab = _bins_table(picker, 'name')
    ctx.floor('SIBLING-BINS', min(len(rtab), len(ptab)), 5,
              'rows of the two make_bins tables')

    def by_name(tab):
        out = {}
        for kind, lits, keys in tab:
            if kind == 'name':
                for lit in lits:
                    out[lit] = keys
            elif kind != 'other':
                out['<' + kind + '>'] = keys
        return out
    rmap, pmap = by_name(rtab), by_name(ptab)
    # frozen exceptions, one line of reason each
    exceptions = {
        'KEFF': 'scalars: the reader filters them by name, the picker by '
                'ngroups == 0',
        'KINF': 'idem', 'MIGRATIONAREA': 'idem', 'Buckling': 'idem',
        '<zero-groups>': 'picker-side form of the scalar filter',
    }
    for key in sorted(set(rmap) | set(pmap), key=str):
        if key in exceptions and (key not in rmap or key not in pmap):
            have = rmap.get(key, pmap.get(key))
            ctx.decide('SIBLING-BINS', reader, f'{key}: only one sibling '
                       f'tests it ({exceptions[key]})', have == 'None',
                       at=reader.where(), nontrivial=False)
            continue
        rkeys, pkeys = rmap.get(key), pmap.get(key)
        if rkeys is None or pkeys is None:
            ctx.violated('SIBLING-BINS', reader if rkeys is None else picker,
                         f'{key}: handled by one sibling only '
                         f'(reader={rkeys}, picker={pkeys})',
                         at=(reader if rkeys is None else picker).where(),
                         detail='reading the whole file and picking one '
                                'result must build the same bins')
            continue
        ok = None if '?' in (rkeys, pkeys) else rkeys == pkeys
        ctx.decide('SIBLING-BINS', picker, f'{key}: bins keys reader='
                   f'{rkeys} picker={pkeys}', ok, at=picker.where(),
                   detail='same keys in the same order (the order is the '
                          'axis order of the dataset)')
    # order of the tests matters (size-eq before the name tests, ...)
    rorder = [k for k, _l, _ in rtab if k not in ('other',)
              and not (k == 'name' and set(_l) <= set(exceptions))]
    porder = [k for k, _l, _ in ptab if k not in ('other', 'zero-groups')]
    ctx.decide('SIBLING-BINS', picker, f'order of the tests reader={rorder} '
               f'picker={porder}', rorder == porder, at=picker.where())
    # reshape siblings
    rbuild = program.func(f'{READER}:build_dataset')
    pbuild = program.func(f'{PICKER}:Picker._make_dataset')

    def reshape_table(func):
        rows = []
        for stmt in func.node.body:
            if isinstance(stmt, ast.If) and isinstance(
                    stmt.test, ast.Compare) and isinstance(
                        stmt.test.ops[0], ast.In) and isinstance(
                            stmt.test.left, ast.Constant):
                key = stmt.test.left.value
                lens = {}
                for node in stmt.body:
                    if isinstance(node, ast.Assign) and isinstance(
                            node.value, ast.Call) and call_name(
                                node.value) == 'len':
                        sub = node.value.args[0]
                        if isinstance(sub, ast.Subscript) and isinstance(
                                sub.slice, ast.Constant):
                            lens[txt(node.targets[0])] = sub.slice.value
                shapes = []
                for node in ast.walk(ast.Module(body=stmt.body,
                                                type_ignores=[])):
                    if isinstance(node, ast.Call) and call_name(node) == \
                            'reshape':
                        shapes.append(tuple(lens.get(txt(a), txt(a))
                                            for a in node.args))
                rows.append((key, tuple(sorted(set(shapes)))))
        return rows
    rt, pt = reshape_table(rbuild), reshape_table(pbuild)
    ctx.floor('SIBLING-RESHAPE', min(len(rt), len(pt)), 2,
              'reshape branches of build_dataset / _make_dataset')
    ctx.decide('SIBLING-BINS', pbuild, f'reshape rules reader={rt} '
               f'picker={pt}', rt == pt, at=pbuild.where(),
               detail='value and error reshaped with the same axis order in '
                      'both readers')
    for func, tab in ((rbuild, rt), (pbuild, pt)):
        for key, shapes in tab:
            ctx.decide('SIBLING-BINS', func, f'{func.name}: `{key}` reshape '
                       f'{shapes}', len(shapes) == 1, at=func.where(),
                       detail='value and error use one shape')


# --------------------------------------------------------------- EXC-ESC ---

ACTION_SETTERS = ('set_parse_action', 'setParseAction', 'add_parse_action',
                  'addParseAction')
FAIL_SETTERS = ('set_fail_action', 'setFailAction')


def parse_action_roots(program, setters=ACTION_SETTERS):
    '''Function values occurring in the arguments of set_parse_action(...)
    (or set_fail_action) calls of grammar.py.'''
    mod = program.module(GRAMMAR)
    roots, n_reg = [], 0
    dummy = next(iter(mod.functions.values()), None)
    for node in ast.walk(mod.tree):
        if isinstance(node, ast.Call) and call_name(node) in setters:
            n_reg += 1
            for arg in node.args:
                for sub in ast.walk(arg):
                    if isinstance(sub, (ast.Name, ast.Attribute)):
                        res = program.resolve_name_expr(mod, sub)
                        if isinstance(res, FuncInfo) and res not in roots:
                            roots.append(res)
    return roots, n_reg


def check_exc_esc(ctx):
    program = ctx.program
    converts, evidence = pyparsing_converts_indexerror()
    ctx.notes.append(f'pyparsing IndexError->ParseException in parse '
                     f'actions: {converts} ({evidence})')
    roots, n_reg = parse_action_roots(program)
    ctx.floor('EXC-ESC-actions', n_reg, 40, 'set_parse_action registrations '
              'in grammar.py')
    ctx.floor('EXC-ESC-roots', len(roots), 10, 'repo functions used as '
              'parse actions')
    ana = ExcAnalysis(program, tainted_modules={SCAN}, by_unique_name=True)
    # fail actions are called by pyparsing from its `except
    # ParseBaseException` clause, outside the wrapper that converts the
    # IndexError of parse actions: whatever they raise propagates as it is
    fail_roots, n_fail = parse_action_roots(program, FAIL_SETTERS)
    ctx.stats['fail_action_registrations'] = n_fail
    ctx.stats['fail_action_roots'] = len(fail_roots)
    ana.special_calls['parseString'] = [
        (roots, {'IndexError': 'ParseException'} if converts else {},
         'parse action'),
        (fail_roots, {}, 'fail action')]
    ana.special_calls['parse_string'] = ana.special_calls['parseString']
    ana.boundary[f'{PARSE}:ParseResult.__init__'] = (
        'post-processing of a successfully parsed edition: the raise sites '
        'below validate programmer-supplied types/shapes, not listing '
        'content; not claimed')
    allowed = {'ParserException'}
    entries = ['Parser.__init__', 'Parser.parse_from_number',
               'Parser.parse_from_index']
    n_entries = 0
    for qual in entries:
        func = program.maybe_func(f'{PARSE}:{qual}')
        if func is None:
            continue
        n_entries += 1
        esc = ana.escapes(func)
        bad = {c: ch for c, ch in esc.items() if c not in allowed}
        for cls_, chain in sorted(bad.items()):
            origin = chain[-1].split(' (')[0][:90]
            ctx.violated('EXC-ESC', func, f'{cls_} can leave {qual}: '
                         f'{origin}', at=func.where(),
                         detail={'witness_chain': chain})
        if not bad and ana.opaque_hits:
            ctx.undecided('EXC-ESC', func, f'what can leave {qual} is '
                          f'decided by the exit handler of a context '
                          f'manager of the package: '
                          f'{sorted(ana.opaque_hits)[0]}', at=func.where(),
                          detail={'managers': sorted(ana.opaque_hits)})
        elif not bad:
            ctx.holds('EXC-ESC', func, f'only {sorted(allowed)} can leave '
                      f'{qual} (from the raise sites and input conversions '
                      f'seen)', at=func.where(),
                      detail={'escaping': sorted(esc)})
    ctx.floor('EXC-ESC', n_entries, 3, 'Parser entry points')
    ctx.stats['exc_functions_analysed'] = len(ana.functions)
    ctx.stats['exc_raise_sites'] = ana.n_raise_sites
    ctx.stats['exc_primitive_facts'] = ana.n_primitive_sites
    ctx.stats['exc_calls_resolved'] = ana.n_calls_resolved
    ctx.stats['exc_calls_unresolved'] = ana.n_calls_unresolved
    ctx.stats['parse_action_registrations'] = n_reg
    ctx.stats['parse_action_roots'] = len(roots)
    ctx.stats['exc_boundaries'] = ana.boundary_hits
    for key in ana.functions:
        program.consulted.add(program.func(key).module.relpath)
    # floors on what the analysis saw (a rule that sees nothing passes
    # vacuously)
    ctx.floor('EXC-ESC-raises', ana.n_raise_sites, 8, 'explicit raise '
              'statements below the entry points')
    ctx.floor('EXC-ESC-functions', len(ana.functions), 40,
              'functions reachable from the entry points')
    return ana


# -------------------------------------------------------------- EDGE-END ---

def check_edge_end(ctx):
    '''KinematicDictBuilder._add_last_bin_for_dim completes the list of
    lower edges with the one missing edge.  When the grid was printed in
    decreasing order (first stored edge > second) the missing edge is the
    upper edge of the FIRST printed record and goes in front; otherwise it
    comes from the last record and goes at the end.  Position and record
    must come from the same end of the printed order, and the two branches
    must read different records.'''
    program = ctx.program
    func = program.func(f'{COMMON}:KinematicDictBuilder._add_last_bin_for_dim')
    params = [p for p in func.params if p != 'self']
    data, lastbin = params[0], params[-1]
    assigns = {}
    for node in walk_local(func.node):
        if isinstance(node, ast.Assign) and isinstance(node.targets[0],
                                                       ast.Name):
            assigns.setdefault(node.targets[0].id, []).append(node.value)

    def record_of(expr, depth=0):
        '''"first" / "last" / None: which record of `data` expr reads.'''
        if depth > 3:
            return None
        if isinstance(expr, ast.Name) and len(assigns.get(expr.id, [])) == 1:
            return record_of(assigns[expr.id][0], depth + 1)
        for node in ast.walk(expr):
            if isinstance(node, ast.Subscript) and txt(node.value) == data:
                idx = node.slice
                if isinstance(idx, ast.Constant) and idx.value == 0:
                    return 'first'
                if txt(idx) == lastbin or (isinstance(idx, ast.Constant)
                                           and idx.value == -1):
                    return 'last'
                return None
        return None
    found = 0
    for node in walk_local(func.node):
        if not isinstance(node, ast.If):
            continue
        comps = [c for c in ast.walk(node.test) if isinstance(c, ast.Compare)
                 and isinstance(c.ops[0], (ast.Gt, ast.Lt)) and '[0]' in
                 txt(c) and '[1]' in txt(c)]
        if not comps:
            continue
        found += 1
        decreasing_true = isinstance(comps[0].ops[0], ast.Gt) == (
            '[0]' in txt(comps[0].left))
        dec, inc = (node.body, node.orelse) if decreasing_true else (
            node.orelse, node.body)

        def placement(stmts):
            for stmt in stmts:
                for call in ast.walk(stmt):
                    if isinstance(call, ast.Call) and call_name(call) == \
                            'insert' and len(call.args) == 2 and isinstance(
                                call.args[0], ast.Constant) and \
                            call.args[0].value == 0:
                        return 'front', record_of(call.args[1])
                    if isinstance(call, ast.Call) and call_name(call) == \
                            'append' and call.args:
                        return 'end', record_of(call.args[0])
            return None, None
        pdec, rdec = placement(dec)
        pinc, rinc = placement(inc)
        if None in (pdec, rdec, pinc, rinc):
            ctx.undecided('EDGE-END', func, 'placement / source of the '
                          'missing edge not recognised', at=func.where(node))
            continue
        ok = (pdec, rdec) == ('front', 'first') and (pinc, rinc) == (
            'end', 'last')
        ctx.decide('EDGE-END', func,
                   f'decreasing grid: edge of the {rdec} record goes to the '
                   f'{pdec}; increasing grid: edge of the {rinc} record goes '
                   f'to the {pinc}', ok, at=func.where(node),
                   detail='for a grid printed in decreasing order the '
                          'largest bin is printed first: its upper edge is '
                          'in the first record; taking it from the last one '
                          'inserts an inner boundary, the bins are then '
                          'neither complete nor monotonic' if not ok
                   else None)
    ctx.floor('EDGE-END', found, 1, 'order test in _add_last_bin_for_dim')


# ------------------------------------------------------------ LOCK-PAIR ---

def check_lock_pair(ctx):
    """"never hangs, whatever was parsed earlier in the same process": the
    process-wide pyparsing lock is released on EVERY exit of the region that
    takes it, exceptional exits included (a failing parse is the normal case
    for a truncated listing).  `with LOCK:` releases by construction; an
    explicit LOCK.acquire() must reach LOCK.release() on every CFG path to
    the exit of the function, where a `yield` (generator-based context
    manager: the exception of the body is thrown in at the yield) and every
    call may raise."""
    from ..cfg import CFG
    program = ctx.program
    n = 0
    for mod in program.modules.values():
        if not mod.name.startswith('valjean.eponine.tripoli4'):
            continue
        locks = {name for name, val in mod.toplevel.items()
                 if isinstance(val, ast.Call) and call_name(val) in (
                     'Lock', 'RLock', 'Semaphore', 'BoundedSemaphore')}
        if not locks:
            continue
        program.consulted.add(mod.relpath)
        for func in mod.functions.values():
            for node in walk_local(func.node):
                if isinstance(node, ast.With):
                    for item in node.items:
                        if dotted(item.context_expr) in locks:
                            n += 1
                            ctx.holds('LOCK-PAIR', func,
                                      f'with {dotted(item.context_expr)}: '
                                      f'released on every exit',
                                      at=func.where(node))
            acquires = [c for c in calls_in(func.node)
                        if call_name(c) == 'acquire' and
                        dotted(receiver(c)) in locks]
            if not acquires:
                continue

            def may_raise(stmt):
                if stmt is None:
                    return False
                return any(isinstance(sub, (ast.Call, ast.Yield,
                                            ast.YieldFrom, ast.Raise,
                                            ast.Assert, ast.Subscript))
                           for sub in ast.walk(stmt))
            cfg = CFG(func.node, may_raise=may_raise)
            for acq in acquires:
                n += 1
                lock = dotted(receiver(acq))
                start = [nd for nd in cfg.nodes if nd.ast is not None and
                         any(c is acq for c in calls_in(nd.ast))]
                if not start:
                    ctx.undecided('LOCK-PAIR', func, f'{lock}.acquire()',
                                  at=func.where(acq))
                    continue

                def releases(nd):
                    return nd.ast is not None and nd.kind == 'stmt' and any(
                        call_name(c) == 'release' and
                        dotted(receiver(c)) == lock
                        for c in calls_in(nd.ast))
                leak = None
                # successors of the acquire statement, the acquire itself
                # raising leaves nothing to release
                seen, todo = set(), [nxt for nxt, lab in start[0].succ
                                     if lab != 'exc']
                while todo:
                    cur = todo.pop()
                    if cur.id in seen:
                        continue
                    seen.add(cur.id)
                    if cur.kind in ('exit', 'raise'):
                        leak = cur
                        break
                    if releases(cur):
                        continue
                    for nxt, lab in cur.succ:
                        todo.append(nxt)
                ctx.decide('LOCK-PAIR', func,
                           f'{lock}.acquire() is followed by {lock}.'
                           f'release() on every path out of {func.name}',
                           leak is None, at=func.where(acq),
                           detail=None if leak is None else
                           f'a path reaches the '
                           f'{"exceptional " if leak.kind == "raise" else ""}'
                           f'exit of {func.name} with the lock held: every '
                           f'later parse in another thread blocks for ever')
    ctx.floor('LOCK-PAIR', n, 1, 'uses of a module-level lock in '
              'valjean.eponine.tripoli4')


# ------------------------------------------------------------ READ-LOOP ---

def _read_loop_verdict(loop):
    """None when the while loop reads nothing; else (ok, reason).  A loop
    that reads a file with readline() / read() must be able to stop at the
    END OF THE FILE, where readline() returns '' for ever: either its
    condition is the truth value of what was read, or its body leaves
    (break / return / raise) under a test that the empty string satisfies
    (`not line`, `line == ''`, `len(line) == 0`)."""
    reads = [c for st in loop.body + [loop.test] for c in ast.walk(st)
             if isinstance(c, ast.Call) and call_name(c) in (
                 'readline', 'read', 'readlines')]
    if not reads:
        return None
    # names holding what was read
    read_vars = set()
    for st in loop.body:
        for node in ast.walk(st):
            if isinstance(node, (ast.Assign, ast.AugAssign)) and any(
                    c in reads for c in ast.walk(node.value)):
                tgts = node.targets if isinstance(node, ast.Assign) else \
                    [node.target]
                for tgt in tgts:
                    if isinstance(tgt, ast.Name) and isinstance(
                            node, ast.Assign):
                        read_vars.add(tgt.id)
            if isinstance(node, ast.NamedExpr) and any(
                    c in reads for c in ast.walk(node.value)):
                read_vars.add(node.target.id)

    def empty_test(test, pol=True):
        # does (test == pol) hold for an empty line?
        if isinstance(test, ast.UnaryOp) and isinstance(test.op, ast.Not):
            if isinstance(test.operand, ast.Name) and \
                    test.operand.id in read_vars:
                return pol
            return empty_test(test.operand, not pol)
        if isinstance(test, ast.Name) and test.id in read_vars:
            return not pol
        if isinstance(test, ast.Compare) and len(test.ops) == 1:
            left, op, right = test.left, test.ops[0], test.comparators[0]
            if isinstance(left, ast.Name) and left.id in read_vars and \
                    isinstance(right, ast.Constant) and right.value in (
                        '', b''):
                return pol if isinstance(op, ast.Eq) else \
                    (not pol) if isinstance(op, ast.NotEq) else False
            if isinstance(left, ast.Call) and call_name(left) == 'len' and \
                    left.args and isinstance(left.args[0], ast.Name) and \
                    left.args[0].id in read_vars and isinstance(
                        right, ast.Constant) and right.value == 0:
                return pol if isinstance(op, ast.Eq) else False
        if isinstance(test, ast.BoolOp) and isinstance(test.op, ast.Or):
            return pol and any(empty_test(v, True) for v in test.values)
        return False

    # (a) the loop condition fails on an empty read
    if empty_test(loop.test, False):
        return True, 'the condition is false for an empty read'
    if isinstance(loop.test, ast.NamedExpr) or any(
            isinstance(n, ast.NamedExpr) and any(
                c in reads for c in ast.walk(n.value))
            for n in ast.walk(loop.test)):
        return True, 'the condition is the truth value of the read'
    # (b) an exit guarded by an emptiness test
    for st in loop.body:
        for node in ast.walk(st):
            if isinstance(node, ast.If) and empty_test(node.test, True) and \
                    any(isinstance(x, (ast.Break, ast.Return, ast.Raise))
                        for b in node.body for x in ast.walk(b)):
                return True, f'exit under `{txt(node.test)}`'
    return False, 'no exit for an empty read: at the end of the file ' \
                  'readline() returns the empty string for ever'


_READ_LOOP_CANARY = """
def bad(fil):
    state = fil.readline()
    while "COUNTER" not in state:
        state += fil.readline()
    return state
def good(fil):
    state = line = fil.readline()
    while "COUNTER" not in line:
        line = fil.readline()
        if not line:
            raise ValueError('truncated')
        state += line
    return state
def good2(fil):
    while (line := fil.readline()):
        pass
"""


def check_read_loop(ctx):
    """No hang on a truncated listing: every `while` loop of the scanner /
    parser layers that reads the file has an end-of-file exit.  The shipped
    code iterates with `for line in fil` (expected instances: 0); the rule
    is exercised on a built-in positive and two negatives at every run."""
    program = ctx.program
    canary = ast.parse(_READ_LOOP_CANARY)
    verdicts = {}
    for fun in canary.body:
        loop = next(n for n in ast.walk(fun) if isinstance(n, ast.While))
        verdicts[fun.name] = _read_loop_verdict(loop)
    if verdicts['bad'] is None or verdicts['bad'][0] is not False or \
            not verdicts['good'][0] or not verdicts['good2'][0]:
        raise AnalysisError(f'READ-LOOP canary failed: {verdicts}')
    n_loops = n_read = 0
    for mod in program.modules.values():
        if not (mod.name.startswith('valjean.eponine.tripoli4') or
                mod.name.startswith('valjean.eponine.apollo3')):
            continue
        for func in mod.functions.values():
            for node in walk_local(func.node):
                if not isinstance(node, ast.While):
                    continue
                n_loops += 1
                res = _read_loop_verdict(node)
                if res is None:
                    continue
                n_read += 1
                program.consulted.add(mod.relpath)
                ctx.decide('READ-LOOP', func,
                           f'while {txt(node.test)[:50]}: reads the file',
                           res[0], at=func.where(node), detail=res[1])
    ctx.holds('READ-LOOP', 'valjean.eponine',
              f'{n_loops} while loop(s) in the reader modules, {n_read} of '
              f'them read a file; canary: positive flagged, negatives '
              f'silent', nontrivial=False)


# -------------------------------------------------------- END-FLAG-TERM ---

def _implies_terminated(test, pol, var):
    """(test == pol) implies that `var` ends with a newline."""
    if isinstance(test, ast.UnaryOp) and isinstance(test.op, ast.Not):
        return _implies_terminated(test.operand, not pol, var)
    if isinstance(test, ast.Call) and call_name(test) == 'endswith' and \
            dotted(receiver(test)) == var and test.args:
        arg = test.args[0]
        nl = (isinstance(arg, ast.Constant) and arg.value in (
            '\n', '\r\n')) or dotted(arg) == 'os.linesep' or (
                isinstance(arg, ast.Tuple) and all(
                    isinstance(e, ast.Constant) and e.value in ('\n',
                                                                '\r\n')
                    for e in arg.elts))
        return nl and pol
    if isinstance(test, ast.Compare) and len(test.ops) == 1 and \
            isinstance(test.comparators[0], ast.Constant) and \
            test.comparators[0].value == '\n' and isinstance(
                test.left, ast.Subscript) and dotted(
                    test.left.value) == var:
        return isinstance(test.ops[0], ast.Eq) if pol else \
            isinstance(test.ops[0], ast.NotEq)
    if isinstance(test, ast.BoolOp):
        if isinstance(test.op, ast.And) and pol:
            return any(_implies_terminated(v, True, var)
                       for v in test.values)
        if isinstance(test.op, ast.Or) and not pol:
            return any(_implies_terminated(v, False, var)
                       for v in test.values)
    return False


def check_end_flag_terminated(ctx):
    """A listing "cut at any byte" can be cut inside the digits of the value
    printed on the end-flag line (` simulation time (s): 24` -> `... 2`): the
    line then still matches the flag, the edition looks complete and carries
    a wrong time.  The only trace of the cut is the missing end of line, so
    the function that recognises an end flag may answer positively only on
    paths where the line is known to end with a newline."""
    from . import verdict as V
    program = ctx.program
    scanner = program.cls(SCAN + ':Scanner')
    meth = scanner.methods.get('_is_end_flag')
    if meth is None:
        raise AnalysisError('Scanner._is_end_flag not found')
    program.consulted.add(meth.module.relpath)
    var = [p for p in meth.params if p != 'self'][0]
    n = 0
    for ret in walk_local(meth.node):
        if not isinstance(ret, ast.Return) or ret.value is None or (
                isinstance(ret.value, ast.Constant) and
                ret.value.value in (None, False)):
            continue
        n += 1
        conds = V.path_condition(meth.node, ret)
        ok = any(_implies_terminated(t, p, var) for t, p in conds)
        ctx.decide('END-FLAG-TERM', meth,
                   f'_is_end_flag: return {txt(ret.value)[:40]} only for a '
                   f'line with its end of line', ok, at=meth.where(ret),
                   detail=None if ok else
                   'the last line of a listing killed while it was written '
                   'has no end of line and its value may be cut: accepted '
                   'as an end flag, it closes an edition with a truncated '
                   'time (found on the shipped code: F22)')
    ctx.floor('END-FLAG-TERM', n, 1, 'positive returns of _is_end_flag')
    # the premise of that test: the lines examined are the lines OF THE FILE,
    # end of line included.  A generator that normalises line ends
    # (`raw.rstrip(b"\\r\\n") + "\\n"`) gives the cut last line the newline it
    # never had and makes the test vacuous.
    n_src = 0
    for caller in scanner.methods.values():
        for loop in [l for l in walk_local(caller.node)
                     if isinstance(l, ast.For)]:
            if not any(call_name(c) == '_is_end_flag'
                       for c in calls_in(loop)):
                continue
            n_src += 1
            it = loop.iter
            files = set()
            for node in walk_local(caller.node):
                if isinstance(node, ast.With):
                    for item in node.items:
                        if isinstance(item.optional_vars, ast.Name) and \
                                call_name(item.context_expr) == 'open':
                            files.add(item.optional_vars.id)
            if isinstance(it, ast.Name) and it.id in files:
                ctx.holds('END-FLAG-TERM', caller, f'{caller.name}: the '
                          f'lines examined are read from the file object '
                          f'`{it.id}` itself', at=caller.where(loop))
                continue
            verdict, why = None, None
            if isinstance(it, ast.Call):
                cands, how = program.resolve_call(caller, it)
                for cand in cands[:1]:
                    for node in walk_local(cand.node):
                        if isinstance(node, ast.Yield) and \
                                node.value is not None:
                            val = node.value
                            if isinstance(val, ast.BinOp) and isinstance(
                                    val.op, ast.Add) and isinstance(
                                        val.right, ast.Constant) and \
                                    val.right.value in ('\n', b'\n',
                                                        '\r\n'):
                                verdict = False
                                why = (f'{cand.name} yields '
                                       f'`{txt(val)[:50]}`: every line, the '
                                       f'cut last one included, ends with a '
                                       f'newline')
                            elif isinstance(val, ast.Name) and verdict is \
                                    None:
                                verdict = None
            ctx.decide('END-FLAG-TERM', caller,
                       f'{caller.name}: lines come from {txt(it)[:40]}',
                       verdict, at=caller.where(loop), detail=why)
    ctx.floor('END-FLAG-TERM-src', n_src, 1, 'loop feeding _is_end_flag')


# ------------------------------------------------------------ ZIP-ORDER ---

def _is_unordered(expr):
    if isinstance(expr, (ast.Set, ast.SetComp)):
        return True
    if isinstance(expr, ast.Call) and isinstance(expr.func, ast.Name) and \
            expr.func.id in ('set', 'frozenset'):
        return True
    return False


def _unordered_origin(program, func, expr, depth=0):
    """The set-building expression `expr` evaluates to (through local names
    with a single meaning and, for a parameter, through the call sites of the
    function in its module), or None."""
    if _is_unordered(expr):
        return expr
    if depth > 3 or not isinstance(expr, ast.Name):
        return None
    defs = [n.value for n in walk_local(func.node)
            if isinstance(n, ast.Assign) and any(
                isinstance(t, ast.Name) and t.id == expr.id
                for t in n.targets)]
    for val in defs:
        found = _unordered_origin(program, func, val, depth + 1)
        if found is not None:
            return found
    if expr.id in func.params and not defs:
        pos = func.params.index(expr.id)
        for other in func.module.functions.values():
            for call in calls_in(other.node):
                if call_name(call) != func.name:
                    continue
                arg = None
                if pos < len(call.args):
                    arg = call.args[pos]
                for kwd in call.keywords:
                    if kwd.arg == expr.id:
                        arg = kwd.value
                if arg is not None:
                    found = _unordered_origin(program, other, arg, depth + 1)
                    if found is not None:
                        return found
    return None


def check_zip_order(ctx):
    """Names and numbers stored side by side in the HDF5 file (ISOTOPE /
    CONCEN, LOCALNAME / LOCALVALUE ...) are paired by POSITION.  A zip whose
    operand is a set (the reader keeps a set of isotope names for membership
    tests) pairs them in hash order: concentrations are labelled with the
    wrong isotope, differently from one process to the next."""
    program = ctx.program
    n = 0
    for modname in (READER, PICKER):
        mod = program.module(modname)
        program.consulted.add(mod.relpath)
        for func in mod.functions.values():
            for call in calls_in(func.node):
                if not (isinstance(call.func, ast.Name) and
                        call.func.id == 'zip' and len(call.args) >= 2):
                    continue
                n += 1
                bad = None
                for arg in call.args:
                    origin = _unordered_origin(program, func, arg)
                    if origin is not None:
                        bad = (arg, origin)
                        break
                ctx.decide('ZIP-ORDER', func,
                           f'{func.name}: {txt(call)[:60]} pairs by position',
                           bad is None, at=func.where(call),
                           detail=None if bad is None else
                           f'`{txt(bad[0])}` is a set ({txt(bad[1])[:50]}): '
                           f'its iteration order is the hash order, not the '
                           f'order of the file')
    ctx.floor('ZIP-ORDER', n, 2, 'zip() calls in the Apollo3 reader and '
                                 'picker')


# ----------------------------------------------------------- PICK-CACHE ---

def check_instance_cache(ctx):
    """"identical whether read whole or picked": a Picker is bound to ONE
    file; the name lists it remembers (isotopes, local names) belong to that
    file.  A memo held in a mutable CLASS attribute and filled through `self`
    is shared by every Picker of the process: a second file with the same
    output / zone names is read with the name lists of the first one."""
    program = ctx.program
    klass = program.cls(f'{PICKER}:Picker')
    program.consulted.add(klass.module.relpath)
    class_level = {}
    for stmt in klass.node.body:
        if isinstance(stmt, ast.Assign) and isinstance(
                stmt.targets[0], ast.Name):
            val = stmt.value
            mutable = isinstance(val, (ast.Dict, ast.List, ast.Set)) or (
                isinstance(val, ast.Call) and call_name(val) in (
                    'dict', 'list', 'set', 'OrderedDict', 'defaultdict',
                    'deque', 'Counter', 'WeakValueDictionary'))
            if mutable:
                class_level[stmt.targets[0].id] = stmt
    rebound = set()
    init = klass.methods.get('__init__')
    if init is not None:
        for node in walk_local(init.node):
            if isinstance(node, ast.Assign):
                for tgt in node.targets:
                    if isinstance(tgt, ast.Attribute) and dotted(
                            tgt.value) == 'self':
                        rebound.add(tgt.attr)
    bad = 0
    n = 0
    for meth in klass.methods.values():
        if meth.name == '__init__':
            continue
        n += 1
        for node in walk_local(meth.node):
            target = None
            if isinstance(node, ast.Assign):
                for tgt in node.targets:
                    if isinstance(tgt, ast.Subscript):
                        target = tgt.value
            elif isinstance(node, ast.Call) and call_name(node) in (
                    'append', 'add', 'update', 'setdefault', 'insert',
                    'extend', 'popitem', 'pop', 'clear', 'move_to_end'):
                target = receiver(node)
            if target is None or not isinstance(target, ast.Attribute) or \
                    dotted(target.value) not in ('self', 'cls',
                                                 klass.name) or \
                    target.attr not in class_level or \
                    (target.attr in rebound and
                     dotted(target.value) == 'self'):
                continue
            bad += 1
            ctx.violated('PICK-CACHE', meth,
                         f'{meth.name}: writes the class-level container '
                         f'`{target.attr}` ({txt(node)[:40]})',
                         at=meth.where(node),
                         detail='one container for every Picker of the '
                                'process: what was remembered for another '
                                'file is served for this one')
    ctx.floor('PICK-CACHE', n, 5, 'methods of Picker')
    if not bad:
        ctx.holds('PICK-CACHE', klass.node.name,
                  f'{n} methods of Picker: no write into a mutable '
                  f'class-level container '
                  f'({sorted(class_level) or "none declared"})',
                  nontrivial=True)


# ------------------------------------------------------------ EDGE-EXACT ---

def check_edge_exact(ctx):
    """The bin edges read from a listing are compared EXACTLY (the two ends of
    a boundary are the same printed number); the contiguity test of the
    spectrum builders refuses a listing whose groups do not join.  A
    tolerance with an ABSOLUTE part (np.isclose / allclose keep atol = 1e-8
    unless told otherwise; abs(a - b) < eps) has a physical scale: energies
    are in MeV, thermal grids live between 1e-11 and 1e-8 MeV, so every pair
    of thermal boundaries "matches" and a listing with a missing group is
    accepted, its scores attached to boundaries they were not printed for."""
    program = ctx.program
    n = 0
    bad = 0
    for modname in (COMMON, CONV, READER, PICKER):
        mod = program.module(modname)
        for func in mod.functions.values():
            n += 1
            for call in calls_in(func.node):
                if call_name(call) in ('isclose', 'allclose',
                                       'assert_allclose', 'approx'):
                    atol = next((k.value for k in call.keywords
                                 if k.arg in ('atol', 'abs', 'abs_tol')),
                                None)
                    zero = isinstance(atol, ast.Constant) and atol.value in (
                        0, 0.0)
                    if zero:
                        continue
                    bad += 1
                    program.consulted.add(mod.relpath)
                    ctx.violated('EDGE-EXACT', func,
                                 f'{func.name}: {txt(call)[:60]}',
                                 at=func.where(call),
                                 detail='absolute tolerance '
                                        + (txt(atol) if atol is not None
                                           else '1e-8 (numpy default)')
                                        + ' on quantities of the listing: '
                                          'values of small magnitude (thermal '
                                          'energies, small scores) all '
                                          'compare equal')
    if not bad:
        ctx.holds('EDGE-EXACT', 'valjean.eponine readers',
                  f'{n} functions: no comparison with an absolute tolerance',
                  nontrivial=False)


# ---------------------------------------------------------- TOKEN-ORDER ---

# function -> reason the order of its tokens carries no meaning
UNORDERED_TOKENS = {
    'convert_correspondence_table':
        'a table of (volume id, volume name) pairs used as a mapping: the '
        'order of its rows identifies nothing',
}


def check_token_order(ctx):
    """Tokens keep the order of the listing: a parse action of transform.py
    that returns its tokens converted (ids of the scoring zone, coordinates
    of a point, energies ...) does not sort, reverse or pass them through a
    set.  The position IS the meaning: `Frontier volumes : 2,1` is the
    current from volume 2 to volume 1, `Point : x,y,z` a coordinate triple."""
    program = ctx.program
    mod = program.module('valjean.eponine.tripoli4.transform')
    program.consulted.add(mod.relpath)
    n_fun = 0
    for func in mod.functions.values():
        params = [p for p in func.params if p not in ('self', 'cls')]
        if not params:
            continue
        n_fun += 1
        derived = V.derived_names(func.node, set(params))
        parents = enclosing_chain(func.node)
        for node in walk_local(func.node):
            what = None
            if isinstance(node, ast.Call) and isinstance(
                    node.func, ast.Name) and node.func.id in (
                        'sorted', 'set', 'frozenset', 'reversed') and \
                    node.args and V.mentions(node.args[0], derived):
                what = node.func.id + '()'
            elif isinstance(node, ast.Call) and call_name(node) in (
                    'sort', 'reverse') and receiver(node) is not None and \
                    V.mentions(receiver(node), derived):
                what = '.' + call_name(node) + '()'
            elif isinstance(node, ast.Subscript) and isinstance(
                    node.slice, ast.Slice) and isinstance(
                        node.slice.step, ast.UnaryOp) and V.mentions(
                            node.value, derived):
                what = '[::-1]'
            if what is None:
                continue
            # used for a test only (membership, containment, equality of
            # contents): nothing re-ordered reaches the result
            cur, tested = node, False
            while cur is not None and not isinstance(cur, ast.stmt):
                par = parents.get(id(cur))
                if isinstance(par, ast.Compare) or (isinstance(
                        par, (ast.If, ast.While, ast.IfExp, ast.Assert))
                        and cur is par.test):
                    tested = True
                cur = par
            if tested:
                continue
            reason = UNORDERED_TOKENS.get(func.name)
            if reason is not None:
                ctx.holds('TOKEN-ORDER', func, f'{func.name}: {what} on the '
                          f'tokens (documented exception)',
                          at=func.where(node), detail=reason,
                          nontrivial=False)
                continue
            ctx.violated('TOKEN-ORDER', func,
                         f'{func.name}: the converted tokens are re-ordered '
                         f'by {what}: {txt(node)[:60]}', at=func.where(node),
                         detail='the order of the ids / coordinates in the '
                                'listing identifies the scoring zone '
                                '(frontier 2,1 is not frontier 1,2; a point '
                                'is (x, y, z))')
    ctx.floor('TOKEN-ORDER', n_fun, 10, 'parse actions in transform.py')
    ctx.holds('TOKEN-ORDER', 'transform', f'{n_fun} parse actions examined',
              nontrivial=False)


# ----------------------------------------------------------- TIME-FIRST ---

def check_time_first(ctx):
    """The times of an edition are fixed by the first line that gives them
    (`setdefault`): the line closing the edition.  The only overwrite of the
    shipped code is reserved to listings that announce a PARTIAL EDITION
    (`self.partial`).  Any other store into self.times[kind][batch] lets a
    line printed AFTER the edition change its results: the same complete
    edition then reads differently from a listing cut before that line."""
    program = ctx.program
    klass = program.cls(f'{SCAN}:Scanner')
    program.consulted.add(klass.module.relpath)
    n_first = n_over = 0
    for meth in klass.methods.values():
        parents = enclosing_chain(meth.node)
        for node in walk_local(meth.node):
            if isinstance(node, ast.Call) and call_name(node) == \
                    'setdefault' and 'self.times' in txt(node.func):
                n_first += 1
            if not isinstance(node, (ast.Assign, ast.AugAssign)):
                continue
            tgts = node.targets if isinstance(node, ast.Assign) else \
                [node.target]
            for tgt in tgts:
                if not (isinstance(tgt, ast.Subscript) and isinstance(
                        tgt.value, ast.Subscript) and txt(
                            tgt.value.value) == 'self.times'):
                    continue
                n_over += 1
                guards = []
                cur = node
                while cur is not None:
                    par = parents.get(id(cur))
                    if isinstance(par, ast.If):
                        in_body = any(cur is s for s in par.body)
                        guards.append((txt(par.test), in_body))
                    cur = par
                ok = any(test == 'self.partial' and in_body
                         for test, in_body in guards)
                ctx.decide('TIME-FIRST', meth,
                           f'{meth.name}: {txt(node)[:60]} overwrites the '
                           f'time of an edition ' +
                           ('under `if self.partial`' if ok else
                            'outside `if self.partial`'), ok,
                           at=meth.where(node),
                           detail=None if ok else
                           'a line that follows the edition changes the '
                           'results of the edition: a listing cut before '
                           'that line gives another value for the same, '
                           'complete, edition')
    ctx.floor('TIME-FIRST', n_first, 1, 'self.times...setdefault(batch, '
              'time) in Scanner')
