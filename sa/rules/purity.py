'''C13 - looking at a result never changes it: PURE / PURE-DD / DET.

Entry points are found by query (class hierarchy, parameter names) and
analysed with sa/effects.py.  A violation is a write effect (store, in-place
operator, del, mutating method, out=, implicit defaultdict insertion) whose
witness chain reaches an object reachable from the protected parameter.
'''
import ast

from ..astutil import txt, call_name, receiver, dotted, walk_local
from ..loader import AnalysisError
from .. import effects

TESTRESULT = 'valjean.gavroche.test:TestResult'
TEST = 'valjean.gavroche.test:Test'
RESULT_PARAMS = ('result', 'results', 'test_result', 'res')
TEMPLATE_READERS = ('copy', 'data', 'fingerprint', '__eq__', '__ne__',
                    '__repr__', '__str__', 'curves_index', '__getitem__')
TEMPLATE_PARAMS = ('table', 'plot', 'text', 'item', 'template')


def make_analyzer(program, max_depth=4):
    ddf, ddp, idx, _ = effects.defaultdict_typing(program)
    return effects.Analyzer(program, max_depth=max_depth, dd_fields=ddf,
                            dd_params=ddp, index_types=idx)


def entry_points(program):
    '''[(FuncInfo, protected param index, family)]'''
    out = []
    tres = program.cls(TESTRESULT)
    test = program.cls(TEST)
    for cinfo in program.subclasses(tres):
        for meth in cinfo.methods.values():
            if meth.name != '__init__' and meth.params[:1] == ['self']:
                out.append((meth, 0, 'result-method'))
    for cinfo in program.subclasses(test):
        for meth in cinfo.methods.values():
            if meth.name != '__init__' and meth.params[:1] == ['self']:
                out.append((meth, 0, 'test-method'))
    for func in program.all_functions():
        mname = func.module.name
        if func.parent is not None or func.name == '__init__':
            continue
        if mname.startswith('valjean.javert'):
            for idx, pname in enumerate(func.params):
                if pname in RESULT_PARAMS:
                    out.append((func, idx, 'representer'))
        if mname == 'valjean.javert.templates' and func.cls is not None \
                and func.name in TEMPLATE_READERS:
            out.append((func, 0, 'template-reader'))
        if mname == 'valjean.javert.rst' and func.cls is not None and \
                func.cls.name in ('RstFormatter', 'RstTable', 'RstPlot',
                                  'RstText'):
            for idx, pname in enumerate(func.params):
                if pname in TEMPLATE_PARAMS or (
                        func.name in ('__str__', 'filename') and idx == 0):
                    out.append((func, idx, 'formatter'))
    out.append((program.func('valjean.fingerprint:fingerprint'), 0,
                'fingerprint'))
    out.append((program.func(
        'valjean.gavroche.diagnostics.stats:classification_counts'), 0,
                'counts'))
    seen, uniq = set(), []
    for func, idx, fam in out:
        if (func.key, idx) not in seen:
            seen.add((func.key, idx))
            uniq.append((func, idx, fam))
    return uniq


def check_pure(ctx, analyzer):
    program = ctx.program
    entries = entry_points(program)
    ctx.floor('PURE', len(entries), 110, 'read-only entry points (result / '
              'test methods, representers, template readers, formatters, '
              'fingerprint, counts)')
    fams = {}
    undecided = {}
    for func, idx, fam in entries:
        fams[fam] = fams.get(fam, 0) + 1
        program.consulted.add(func.module.relpath)
        summ = analyzer.summary(func)
        if summ is None:
            ctx.undecided('PURE', func, f'{func.name}: not summarised')
            continue
        pname = func.params[idx] if idx < len(func.params) else f'#{idx}'
        effs = [e for e in summ.effects if e.root == idx]
        for note in summ.undecided:
            undecided.setdefault(note, func)
        if not effs:
            ctx.holds('PURE', func, f'{func.name}({pname}): no write '
                      f'reaches `{pname}`', at=func.where(),
                      nontrivial=False)
            continue
        seen = set()
        for eff in effs:
            rule = 'PURE-DD' if eff.kind == 'dd-insert' else 'PURE'
            key = (rule, eff.what, eff.func.key)
            if key in seen:
                continue
            seen.add(key)
            cache = _cache_attribute(program, func, eff)
            if cache:
                # memoisation in a new private attribute changes neither the
                # verdict, the recorded statistics nor the datasets: not a
                # violation, but not provably harmless either
                ctx.undecided('PURE', func,
                              f'{func.name}({pname}): {eff.what} (new '
                              f'private attribute `{cache}`: a cache?)',
                              at=f'{eff.func.module.relpath}:{eff.lineno}')
                continue
            ctx.violated(rule, func,
                         f'{func.name}({pname}): {eff.what} [in '
                         f'{eff.func.qual}]',
                         at=f'{eff.func.module.relpath}:{eff.lineno}',
                         detail={'witness': eff.describe(),
                                 'reaches': f'{pname}'
                                 + (f'.{eff.field}' if eff.field else ''),
                                 'depth_below_parameter': eff.depth})
    for note, func in sorted(undecided.items()):
        if 'read of defaultdict' in note:
            ctx.undecided('PURE-DD', func, note.split(': ', 1)[-1],
                          detail='key neither drawn from the mapping, nor '
                                 'guarded, nor a constant: safe or not '
                                 'cannot be told statically')
    ctx.stats['entry_points'] = fams
    ctx.stats['functions_analysed'] = analyzer.functions_analysed
    ctx.stats['call_sites_resolved'] = analyzer.calls_resolved
    ctx.stats['call_sites_library_model'] = analyzer.calls_unresolved
    # PURE-DD must have seen the defaultdict-typed classification
    if 'classify' not in analyzer.dd_fields:
        raise AnalysisError('PURE-DD: the classification field is no longer '
                            'recognised as a defaultdict')
    n_dd = 0
    for func, idx, fam in entries:
        for node in ast.walk(func.node):
            if isinstance(node, ast.Attribute) and node.attr == 'classify':
                n_dd += 1
    ctx.floor('PURE-DD', n_dd, 5, 'uses of the defaultdict classification in '
              'entry points')
    if not any(o.rule == 'PURE-DD' and o.outcome == 'violated'
               for o in ctx.obligations):
        ctx.holds('PURE-DD', 'valjean.gavroche.diagnostics.stats:'
                  'classification_counts',
                  f'{n_dd} uses of result.classify in entry points: no '
                  f'subscript read with an unguarded constant key',
                  nontrivial=True)


def _cache_attribute(program, func, eff):
    '''Name of the attribute when the effect is a plain store
    `self._x = ...` on the protected object itself into a private attribute
    that no __init__ of the class hierarchy defines.'''
    if eff.depth != 0 or not eff.what.startswith('store self._') or \
            func.cls is None or eff.root != 0:
        return None
    attr = eff.what[len('store self.'):].split(' ')[0]
    if not attr.isidentifier():
        return None
    for klass in program.mro(func.cls) + program.subclasses(func.cls):
        init = klass.methods.get('__init__')
        if init is None:
            continue
        for node in ast.walk(init.node):
            if isinstance(node, ast.Attribute) and node.attr == attr and \
                    isinstance(node.ctx, ast.Store):
                return None
    return attr


# -------------------------------------------------------------------- DET --

NONDET_MODULES = {'random', 'time', 'uuid', 'secrets', 'datetime'}
NONDET_CALLS = {'urandom', 'getpid', 'now', 'today', 'utcnow', 'time',
                'perf_counter', 'monotonic', 'uuid4', 'uuid1', 'random',
                'shuffle', 'choice', 'randint', 'rand', 'randn', 'normal',
                'uniform', 'getrandbits', 'sample', 'default_rng'}


def check_det(ctx, depth=3):
    '''evaluate() implementations (and what they call, depth 3) do not
    consult clocks, random sources or process identity.'''
    program = ctx.program
    test = program.cls(TEST)
    roots = []
    for cinfo in program.subclasses(test):
        meth = cinfo.methods.get('evaluate')
        if meth is not None:
            roots.append(meth)
    ctx.floor('DET', len(roots), 8, 'evaluate() implementations')
    for root in roots:
        bad = []
        seen = set()
        todo = [(root, 0, (root.qual,))]
        n_funcs = 0
        while todo:
            func, dep, chain = todo.pop()
            if func.key in seen:
                continue
            seen.add(func.key)
            n_funcs += 1
            for node in walk_local(func.node):
                if not isinstance(node, ast.Call):
                    continue
                name = dotted(node.func) or ''
                head = name.split('.')[0]
                last = name.split('.')[-1]
                imp = func.module.imports.get(head)
                modname = imp[1] if imp else head
                if 'random' in name.split('.')[:-1] or \
                        modname.split('.')[0] == 'random' or (
                            modname.split('.')[0] in NONDET_MODULES and
                            last in NONDET_CALLS):
                    bad.append((func, node, name, chain))
                elif name in ('os.urandom', 'os.getpid', 'id'):
                    bad.append((func, node, name, chain))
                if dep < depth:
                    cands, how = program.resolve_call(func, node)
                    if how == 'by-unique-name':
                        continue
                    for cand in cands:
                        todo.append((cand, dep + 1, chain + (cand.qual,)))
        if bad:
            for func, node, name, chain in bad[:3]:
                ctx.violated('DET', root, f'{root.qual}: calls {name}()',
                             at=func.where(node),
                             detail='via ' + ' -> '.join(chain))
        else:
            ctx.holds('DET', root, f'{root.qual}: no clock / random / '
                      f'process-identity call in {n_funcs} reachable '
                      f'function(s)', at=root.where(), nontrivial=n_funcs > 1)
