'''C13 - looking at a result never changes it: PURE / PURE-DD / DET.

Entry points are found by query (class hierarchy, parameter names) and
analysed with sa/effects.py.  A violation is a write effect (store, in-place
operator, del, mutating method, out=, implicit defaultdict insertion) whose
witness chain reaches an object reachable from the protected parameter.
'''
import ast

from ..astutil import txt, call_name, receiver, dotted, walk_local, calls_in
from ..loader import AnalysisError
from .. import effects

TESTRESULT = 'valjean.gavroche.test:TestResult'
TEST = 'valjean.gavroche.test:Test'
RESULT_PARAMS = ('result', 'results', 'test_result', 'res')
TEMPLATE_READERS = ('copy', 'data', 'fingerprint', '__eq__', '__ne__',
                    '__repr__', '__str__', 'curves_index', '__getitem__')
TEMPLATE_PARAMS = ('table', 'plot', 'text', 'item', 'template')


def make_analyzer(program, max_depth=4):
    ddf, ddp, idx, _ = effects.defaultdict_typing(program)
    return effects.Analyzer(program, max_depth=max_depth, dd_fields=ddf,
                            dd_params=ddp, index_types=idx)


def _builder_only(program, cinfo, meth):
    '''A method that a change ADDED to a result class (its qualified name
    is not in the frozen list of the reference tree) and that the package
    calls, but only on an object under construction: `self` of another
    builder-only method, or a local that the calling function has just built
    with the constructor of the class.  Such a method fills the result
    before anybody can look at it; it is not one of the "looking" entry
    points (a call from one of those is still followed, and reported
    there).'''
    from ..inline import reference_functions
    known = reference_functions().get(cinfo.module.relpath, ())
    if f'{meth.qual.split(":")[-1]}' in known or meth.qual in known or \
            f'{cinfo.name}.{meth.name}' in known:
        return False
    sites = 0
    for func in program.all_functions():
        for call in calls_in(func.node):
            if not (isinstance(call.func, ast.Attribute) and
                    call.func.attr == meth.name):
                continue
            recv = call.func.value
            if not isinstance(recv, ast.Name):
                return False
            if recv.id == 'self' and func.cls is not None and \
                    func is not meth and func.name != '__init__' and (
                        func.cls is cinfo or cinfo in program.subclasses(
                            func.cls) or func.cls in program.subclasses(
                                cinfo)):
                # delegation between methods of the class: judged with the
                # delegating method
                if not _builder_only(program, func.cls, func):
                    return False
                sites += 1
                continue
            built = [n for n in walk_local(func.node) if isinstance(
                n, ast.Assign) and any(isinstance(t, ast.Name) and
                                       t.id == recv.id for t in n.targets)]
            if len(built) != 1 or not isinstance(built[0].value, ast.Call):
                return False
            res = program.resolve_name_expr(func.module,
                                            built[0].value.func, func)
            if not (hasattr(res, 'methods') and (
                    res is cinfo or res in program.subclasses(cinfo) or
                    cinfo in program.subclasses(res))):
                return False
            sites += 1
    return sites > 0


def entry_points(program):
    '''[(FuncInfo, protected param index, family)]'''
    out = []
    tres = program.cls(TESTRESULT)
    test = program.cls(TEST)
    for cinfo in program.subclasses(tres):
        for meth in cinfo.methods.values():
            if meth.name != '__init__' and meth.params[:1] == ['self'] and \
                    not _builder_only(program, cinfo, meth):
                out.append((meth, 0, 'result-method'))
    for cinfo in program.subclasses(test):
        for meth in cinfo.methods.values():
            if meth.name != '__init__' and meth.params[:1] == ['self']:
                out.append((meth, 0, 'test-method'))
    for func in program.all_functions():
        mname = func.module.name
        if func.parent is not None or func.name == '__init__':
            continue
        if mname.startswith('valjean.javert'):
            for idx, pname in enumerate(func.params):
                if pname in RESULT_PARAMS:
                    out.append((func, idx, 'representer'))
        if mname == 'valjean.javert.templates' and func.cls is not None \
                and func.name in TEMPLATE_READERS:
            out.append((func, 0, 'template-reader'))
        if mname == 'valjean.javert.rst' and func.cls is not None and \
                func.cls.name in ('RstFormatter', 'RstTable', 'RstPlot',
                                  'RstText'):
            for idx, pname in enumerate(func.params):
                if pname in TEMPLATE_PARAMS or (
                        func.name in ('__str__', 'filename') and idx == 0):
                    out.append((func, idx, 'formatter'))
    # fingerprint(obj) consumes obj.data(): every `data(self)` generator of
    # the package is reached from it by dynamic dispatch
    for cinfo in program.all_classes():
        meth = cinfo.methods.get('data')
        if meth is not None and meth.params == ['self']:
            out.append((meth, 0, 'fingerprint-data'))
    out.append((program.func('valjean.fingerprint:fingerprint'), 0,
                'fingerprint'))
    out.append((program.func(
        'valjean.gavroche.diagnostics.stats:classification_counts'), 0,
                'counts'))
    seen, uniq = set(), []
    for func, idx, fam in out:
        if (func.key, idx) not in seen:
            seen.add((func.key, idx))
            uniq.append((func, idx, fam))
    return uniq


def check_pure(ctx, analyzer):
    program = ctx.program
    entries = entry_points(program)
    ctx.floor('PURE', len(entries), 110, 'read-only entry points (result / '
              'test methods, representers, template readers, formatters, '
              'fingerprint, counts)')
    fams = {}
    undecided = {}
    for func, idx, fam in entries:
        fams[fam] = fams.get(fam, 0) + 1
        program.consulted.add(func.module.relpath)
        summ = analyzer.summary(func)
        if summ is None:
            ctx.undecided('PURE', func, f'{func.name}: not summarised')
            continue
        pname = func.params[idx] if idx < len(func.params) else f'#{idx}'
        effs = [e for e in summ.effects if e.root == idx]
        for note in summ.undecided:
            undecided.setdefault(note, func)
        if not effs:
            ctx.holds('PURE', func, f'{func.name}({pname}): no write '
                      f'reaches `{pname}`', at=func.where(),
                      nontrivial=False)
            continue
        seen = set()
        for eff in effs:
            rule = 'PURE-DD' if eff.kind == 'dd-insert' else 'PURE'
            key = (rule, eff.what, eff.func.key)
            if key in seen:
                continue
            seen.add(key)
            cache = _cache_attribute(program, func, eff)
            if cache:
                # memoisation in a new private attribute changes neither the
                # verdict, the recorded statistics nor the datasets: not a
                # violation, but not provably harmless either
                ctx.undecided('PURE', func,
                              f'{func.name}({pname}): {eff.what} (new '
                              f'private attribute `{cache}`: a cache?)',
                              at=f'{eff.func.module.relpath}:{eff.lineno}')
                continue
            ctx.violated(rule, func,
                         f'{func.name}({pname}): {eff.what} [in '
                         f'{eff.func.qual}]',
                         at=f'{eff.func.module.relpath}:{eff.lineno}',
                         detail={'witness': eff.describe(),
                                 'reaches': f'{pname}'
                                 + (f'.{eff.field}' if eff.field else ''),
                                 'depth_below_parameter': eff.depth})
    for note, func in sorted(undecided.items()):
        if 'read of defaultdict' in note:
            ctx.undecided('PURE-DD', func, note.split(': ', 1)[-1],
                          detail='key neither drawn from the mapping, nor '
                                 'guarded, nor a constant: safe or not '
                                 'cannot be told statically')
    ctx.stats['entry_points'] = fams
    ctx.stats['functions_analysed'] = analyzer.functions_analysed
    ctx.stats['call_sites_resolved'] = analyzer.calls_resolved
    ctx.stats['call_sites_library_model'] = analyzer.calls_unresolved
    # PURE-DD must have seen the defaultdict-typed classification
    if 'classify' not in analyzer.dd_fields:
        raise AnalysisError('PURE-DD: the classification field is no longer '
                            'recognised as a defaultdict')
    n_dd = 0
    for func, idx, fam in entries:
        for node in ast.walk(func.node):
            if isinstance(node, ast.Attribute) and node.attr == 'classify':
                n_dd += 1
    ctx.floor('PURE-DD', n_dd, 5, 'uses of the defaultdict classification in '
              'entry points')
    if not any(o.rule == 'PURE-DD' and o.outcome == 'violated'
               for o in ctx.obligations):
        ctx.holds('PURE-DD', 'valjean.gavroche.diagnostics.stats:'
                  'classification_counts',
                  f'{n_dd} uses of result.classify in entry points: no '
                  f'subscript read with an unguarded constant key',
                  nontrivial=True)


def _cache_attribute(program, func, eff):
    '''Name of the attribute when the effect is a plain store
    `self._x = ...` on the protected object itself into a private attribute
    that no __init__ of the class hierarchy defines.'''
    if eff.depth != 0 or not eff.what.startswith('store self._') or \
            func.cls is None or eff.root != 0:
        return None
    attr = eff.what[len('store self.'):].split(' ')[0]
    if not attr.isidentifier():
        return None
    for klass in program.mro(func.cls) + program.subclasses(func.cls):
        init = klass.methods.get('__init__')
        if init is None:
            continue
        for node in ast.walk(init.node):
            if isinstance(node, ast.Attribute) and node.attr == attr and \
                    isinstance(node.ctx, ast.Store):
                return None
    return attr


# -------------------------------------------------------------------- DET --

NONDET_MODULES = {'random', 'time', 'uuid', 'secrets', 'datetime'}
NONDET_CALLS = {'urandom', 'getpid', 'now', 'today', 'utcnow', 'time',
                'perf_counter', 'monotonic', 'uuid4', 'uuid1', 'random',
                'shuffle', 'choice', 'randint', 'rand', 'randn', 'normal',
                'uniform', 'getrandbits', 'sample', 'default_rng'}


def check_det(ctx, depth=3):
    '''evaluate() implementations (and what they call, depth 3) do not
    consult clocks, random sources or process identity.'''
    program = ctx.program
    test = program.cls(TEST)
    roots = []
    for cinfo in program.subclasses(test):
        meth = cinfo.methods.get('evaluate')
        if meth is not None:
            roots.append(meth)
    ctx.floor('DET', len(roots), 8, 'evaluate() implementations')
    for root in roots:
        bad = []
        seen = set()
        todo = [(root, 0, (root.qual,))]
        n_funcs = 0
        while todo:
            func, dep, chain = todo.pop()
            if func.key in seen:
                continue
            seen.add(func.key)
            n_funcs += 1
            for node in walk_local(func.node):
                if not isinstance(node, ast.Call):
                    continue
                name = dotted(node.func) or ''
                head = name.split('.')[0]
                last = name.split('.')[-1]
                imp = func.module.imports.get(head)
                modname = imp[1] if imp else head
                if 'random' in name.split('.')[:-1] or \
                        modname.split('.')[0] == 'random' or (
                            modname.split('.')[0] in NONDET_MODULES and
                            last in NONDET_CALLS):
                    bad.append((func, node, name, chain))
                elif name in ('os.urandom', 'os.getpid', 'id'):
                    bad.append((func, node, name, chain))
                if dep < depth:
                    cands, how = program.resolve_call(func, node)
                    if how == 'by-unique-name':
                        continue
                    for cand in cands:
                        todo.append((cand, dep + 1, chain + (cand.qual,)))
        if bad:
            for func, node, name, chain in bad[:3]:
                ctx.violated('DET', root, f'{root.qual}: calls {name}()',
                             at=func.where(node),
                             detail='via ' + ' -> '.join(chain))
        else:
            ctx.holds('DET', root, f'{root.qual}: no clock / random / '
                      f'process-identity call in {n_funcs} reachable '
                      f'function(s)', at=root.where(), nontrivial=n_funcs > 1)


# --------------------------------------------------------- DATA-INPLACE ---

DATA_FIELDS = ('bins', 'values', 'errors', 'columns')
ARRAY_MUTATORS = {'sort', 'fill', 'put', 'resize', 'partition', 'itemset',
                  'byteswap', 'setflags', 'append', 'extend', 'insert',
                  'remove', 'pop', 'clear', 'reverse', 'update',
                  'setdefault', 'popitem', '__setitem__', '__delitem__',
                  '__iadd__', '__imul__'}
ELEMENT_VIEWS = {'values', 'items', 'keys', 'get', '__iter__', 'flat'}
SAME_ELEMENTS = {'list', 'tuple', 'sorted', 'reversed', 'iter', 'enumerate',
                 'zip', 'set', 'frozenset', 'chain', 'islice', 'filter',
                 'next'}
SAME_OBJECT = {'asarray', 'asanyarray', 'atleast_1d', 'atleast_2d', 'ravel',
               'reshape', 'squeeze', 'transpose', 'getdata', 'require',
               'view', 'swapaxes', 'ascontiguousarray'}
NP_INPLACE_FUNCS = {'put', 'place', 'copyto', 'fill_diagonal', 'putmask',
                    'shuffle', 'put_along_axis'}
import re as _re
_DATA_RE = _re.compile(r'(^|\.)(%s)(\[\*\])*$' % '|'.join(DATA_FIELDS))


def _elem_of(pth):
    """Path of the elements of the container at `pth`; "{q}" is a new
    container whose elements are at q."""
    pth = pth.rstrip('~')
    if pth.startswith('{') and pth.endswith('}'):
        return pth[1:-1]
    return pth + '[*]'


class _PathScope:
    """Access paths (rooted at the parameters) of the expressions of one
    function, through its local aliases: assignment, loop and comprehension
    targets, enumerate / zip, container copies (same elements) and array
    views (same object).  A trailing "~" marks a NEW container holding the
    same elements."""

    def __init__(self, func):
        self.func = func
        self.params = set(func.params)
        self.defs = {}
        self.rebound_at = {}
        for stmt in func.node.body:
            if isinstance(stmt, ast.Assign):
                for tgt in stmt.targets:
                    if isinstance(tgt, ast.Name) and tgt.id in self.params:
                        self.rebound_at.setdefault(tgt.id, stmt.lineno)
        for node in ast.walk(func.node):
            if isinstance(node, ast.Assign):
                for tgt in node.targets:
                    self._bind(tgt, ('is', node.value))
            elif isinstance(node, (ast.For, ast.comprehension)):
                self._bind_iter(node.target, node.iter)
            elif isinstance(node, ast.NamedExpr):
                self._bind(node.target, ('is', node.value))
            elif isinstance(node, ast.With):
                for item in node.items:
                    if item.optional_vars is not None:
                        self._bind(item.optional_vars,
                                   ('is', item.context_expr))
            elif isinstance(node, ast.Call) and isinstance(
                    node.func, ast.Attribute) and isinstance(
                        node.func.value, ast.Name) and node.args:
                # a local container filled with append / add / insert /
                # extend holds (the elements of) what it is given
                name = node.func.value.id
                if node.func.attr in ('append', 'add', 'appendleft'):
                    self.defs.setdefault(name, []).append(
                        ('holds', node.args[0]))
                elif node.func.attr == 'insert' and len(node.args) == 2:
                    self.defs.setdefault(name, []).append(
                        ('holds', node.args[1]))
                elif node.func.attr in ('extend', 'update'):
                    self.defs.setdefault(name, []).append(
                        ('is', ast.Call(func=ast.Name(id='list',
                                                      ctx=ast.Load()),
                                        args=[node.args[0]], keywords=[],
                                        lineno=node.lineno)))

    def _bind(self, tgt, how):
        if isinstance(tgt, ast.Name):
            self.defs.setdefault(tgt.id, []).append(how)
        elif isinstance(tgt, (ast.Tuple, ast.List)) and how[0] == 'is':
            for elt in tgt.elts:
                self._bind(elt, ('elem', how[1]))
        elif isinstance(tgt, (ast.Tuple, ast.List)):
            for elt in tgt.elts:
                self._bind(elt, ('elem2', how[1]))
        elif isinstance(tgt, ast.Starred):
            self._bind(tgt.value, how)

    def _bind_iter(self, tgt, it):
        if isinstance(it, ast.Call) and isinstance(it.func, ast.Name) and \
                it.func.id == 'enumerate' and it.args and isinstance(
                    tgt, (ast.Tuple, ast.List)) and len(tgt.elts) == 2:
            self._bind_iter(tgt.elts[1], it.args[0])
            return
        if isinstance(it, ast.Call) and isinstance(it.func, ast.Name) and \
                it.func.id == 'zip' and isinstance(
                    tgt, (ast.Tuple, ast.List)) and len(tgt.elts) == len(
                        it.args):
            for elt, arg in zip(tgt.elts, it.args):
                self._bind_iter(elt, arg)
            return
        if isinstance(it, ast.Call) and isinstance(
                it.func, ast.Attribute) and it.func.attr == 'items' and \
                isinstance(tgt, (ast.Tuple, ast.List)) and \
                len(tgt.elts) == 2:
            self._bind(tgt.elts[1], ('elem', it.func.value))
            return
        if isinstance(tgt, ast.Name):
            self.defs.setdefault(tgt.id, []).append(('elem', it))
        else:
            self._bind(tgt, ('iter', it))

    def paths(self, expr, seen=frozenset(), at=None):
        at = at if at is not None else getattr(expr, 'lineno', 0)
        if isinstance(expr, ast.Name):
            out = set()
            if expr.id in self.params and not (
                    expr.id in self.rebound_at and
                    at > self.rebound_at[expr.id]):
                out.add(expr.id)
            if expr.id in seen:
                return out
            for how, src in self.defs.get(expr.id, ()):
                base = self.paths(src, seen | {expr.id},
                                  getattr(src, 'lineno', at))
                for pth in base:
                    if how == 'is':
                        out.add(pth)
                    elif how in ('elem', 'iter'):
                        out.add(_elem_of(pth))
                    elif how == 'holds':
                        out.add('{' + pth.rstrip('~') + '}~')
                    else:
                        out.add(_elem_of(_elem_of(pth)))
            return out
        if isinstance(expr, ast.Attribute):
            return {p.rstrip('~') + '.' + expr.attr
                    for p in self.paths(expr.value, seen, at)}
        if isinstance(expr, ast.Subscript):
            if isinstance(expr.slice, ast.Slice):
                # a slice of an array is a view of the same storage
                return set(self.paths(expr.value, seen, at))
            return {_elem_of(p) for p in self.paths(expr.value, seen, at)}
        if isinstance(expr, ast.Starred):
            return self.paths(expr.value, seen, at)
        if isinstance(expr, (ast.List, ast.Tuple, ast.Set)):
            out = set()
            for elt in expr.elts:
                for pth in self.paths(elt, seen, at):
                    out.add('{' + pth.rstrip('~') + '}~')
            return out
        if isinstance(expr, ast.IfExp):
            return self.paths(expr.body, seen, at) | self.paths(
                expr.orelse, seen, at)
        if isinstance(expr, ast.Call):
            cname = call_name(expr)
            recv = receiver(expr)
            if recv is not None and dotted(recv) not in ('np', 'numpy',
                                                         'np.ma', 'ma'):
                if cname in ELEMENT_VIEWS:
                    return {p.rstrip('~') + '~'
                            for p in self.paths(recv, seen, at)}
                if cname in SAME_OBJECT:
                    return set(self.paths(recv, seen, at))
                return set()
            if cname in SAME_ELEMENTS and expr.args:
                return {p.rstrip('~') + '~'
                        for p in self.paths(expr.args[0], seen, at)}
            if cname in SAME_OBJECT and expr.args:
                return set(self.paths(expr.args[0], seen, at))
        return set()


def _mutations(program, func, memo, depth=0):
    """[(path, what, lineno, chain)] of the in-place modifications of
    objects reachable from the parameters of func."""
    if func.key in memo:
        return memo[func.key]
    memo[func.key] = []
    scope = _PathScope(func)
    out = []
    # receivers narrowed by an isinstance test somewhere in the function
    from ..loader import ClassInfo
    narrowed = {}
    for node in walk_local(func.node):
        if isinstance(node, ast.Call) and isinstance(
                node.func, ast.Name) and node.func.id == 'isinstance' and \
                len(node.args) == 2:
            klass = program.resolve_name_expr(func.module, node.args[1],
                                              func)
            if isinstance(klass, ClassInfo):
                narrowed[ast.unparse(node.args[0])] = klass

    def hit(target, what, node, suffix=''):
        for pth in scope.paths(target, at=node.lineno):
            if pth.endswith('~'):
                continue
            out.append((pth + suffix, what, node.lineno, (func.key,)))

    for node in walk_local(func.node):
        if isinstance(node, ast.Call):
            cname = call_name(node)
            recv = receiver(node)
            if recv is not None and cname in ARRAY_MUTATORS and dotted(
                    recv) not in ('np', 'numpy'):
                hit(recv, f'mutating call {txt(node)[:50]}', node)
            if recv is not None and dotted(recv) in ('np', 'numpy',
                                                     'np.random') and \
                    cname in NP_INPLACE_FUNCS and node.args:
                hit(node.args[0], f'in-place numpy call {txt(node)[:50]}',
                    node)
            for kwd in node.keywords:
                if kwd.arg == 'out':
                    hit(kwd.value, f'out= of {txt(node)[:50]}', node)
            if depth < 12:
                callees, tag = program.resolve_call(func, node, narrowed)
                if tag == 'by-unique-name' and (
                        call_name(node) in effects.NOT_BY_NAME or
                        call_name(node) in effects.BUILTIN_METHOD_NAMES):
                    callees = []
                for callee in callees[:2]:
                    if callee.module.name.startswith('valjean') and \
                            callee.key != func.key:
                        sub = _mutations(program, callee, memo, depth + 1)
                        cpars = callee.params
                        off = 1 if cpars[:1] in (['self'], ['cls']) and (
                            recv is not None or tag == 'ctor') else 0
                        for pth, what, line, chain in sub:
                            root = _re.split(r'[.\[~]', pth, 1)[0]
                            rest = pth[len(root):]
                            arg = None
                            if root in cpars:
                                idx = cpars.index(root) - off
                                if idx == -1 and tag == 'ctor':
                                    continue     # the object being built
                                if idx == -1:
                                    arg = recv
                                elif 0 <= idx < len(node.args):
                                    arg = node.args[idx]
                                for kwd in node.keywords:
                                    if kwd.arg == root:
                                        arg = kwd.value
                            if arg is None:
                                continue
                            for apth in scope.paths(arg, at=node.lineno):
                                out.append((apth.rstrip('~') + rest, what,
                                            line, (func.key,) + chain))
        elif isinstance(node, (ast.Assign, ast.AugAssign)):
            tgts = node.targets if isinstance(node, ast.Assign) else \
                [node.target]
            for tgt in tgts:
                if isinstance(tgt, ast.Subscript):
                    hit(tgt.value, f'store {txt(tgt)[:40]} = ...', node)
                elif isinstance(tgt, ast.Attribute) and \
                        tgt.attr in DATA_FIELDS:
                    # the data field of an existing template is replaced
                    hit(tgt.value, f'store {txt(tgt)[:40]} = ...', node,
                        suffix='.' + tgt.attr)
                elif isinstance(tgt, ast.Name) and isinstance(
                        node, ast.AugAssign) and not effects.\
                        _immutable_operand(node.value):
                    for pth in scope.paths(tgt, at=node.lineno):
                        # an element of a values / errors array may be a
                        # scalar; an element of bins is the array of a
                        # dimension; the field itself is an array
                        if pth.endswith('~'):
                            continue
                        if not pth.endswith('[*]') or _re.search(
                                r'(^|\.)bins\[\*\]$', pth):
                            out.append((pth, f'in-place {txt(node)[:50]}',
                                        node.lineno, (func.key,)))
        elif isinstance(node, ast.Delete):
            for tgt in node.targets:
                if isinstance(tgt, ast.Subscript):
                    hit(tgt.value, f'del {txt(tgt)[:40]}', node)
    memo[func.key] = out
    return out


def _call_site_origins(program, funcs):
    """{(callee key, parameter): set of origins of the arguments at the call
    sites found in `funcs`}: "param" (reachable from a parameter of the
    caller), "fresh" (constructor call, copy, literal, comprehension) or
    "unknown"."""
    from ..loader import ClassInfo
    out = {}
    for func in funcs:
        scope = _PathScope(func)
        narrowed = {}
        for node in walk_local(func.node):
            if isinstance(node, ast.Call) and isinstance(
                    node.func, ast.Name) and node.func.id == 'isinstance' \
                    and len(node.args) == 2:
                klass = program.resolve_name_expr(func.module, node.args[1],
                                                  func)
                if isinstance(klass, ClassInfo):
                    narrowed[ast.unparse(node.args[0])] = klass

        def origin(expr, depth=0):
            if scope.paths(expr):
                return 'param'
            if isinstance(expr, (ast.List, ast.Tuple, ast.Dict, ast.Set,
                                 ast.ListComp, ast.DictComp, ast.SetComp,
                                 ast.Constant, ast.GeneratorExp)):
                return 'fresh'
            if isinstance(expr, ast.Call):
                res = program.resolve_name_expr(func.module, expr.func, func)
                if isinstance(res, ClassInfo):
                    return 'fresh'
                if call_name(expr) in ('copy', 'deepcopy'):
                    return 'fresh'
                return 'unknown'
            if isinstance(expr, ast.Name) and depth < 4:
                defs = scope.defs.get(expr.id)
                if defs and all(how == 'is' for how, _ in defs):
                    kinds = {origin(src, depth + 1) for _, src in defs}
                    if kinds == {'fresh'}:
                        return 'fresh'
            return 'unknown'

        for node in walk_local(func.node):
            if not isinstance(node, ast.Call):
                continue
            callees, tag = program.resolve_call(func, node, narrowed)
            if tag == 'by-unique-name':
                continue
            recv = receiver(node)
            for callee in callees[:2]:
                cpars = callee.params
                off = 1 if cpars[:1] in (['self'], ['cls']) and (
                    recv is not None or tag == 'ctor') else 0
                if off and recv is not None and tag != 'ctor':
                    out.setdefault((callee.key, cpars[0]), set()).add(
                        origin(recv))
                for idx, arg in enumerate(node.args):
                    if isinstance(arg, ast.Starred):
                        for par in cpars[idx + off:]:
                            out.setdefault((callee.key, par), set()).add(
                                origin(arg.value))
                        break
                    if idx + off < len(cpars):
                        out.setdefault((callee.key, cpars[idx + off]),
                                       set()).add(origin(arg))
                for kwd in node.keywords:
                    if kwd.arg in cpars:
                        out.setdefault((callee.key, kwd.arg), set()).add(
                            origin(kwd.value))
    return out


def check_data_inplace(ctx):
    """The templates produced by the representers keep the LIVE arrays of
    the datasets (CurveElements.values / errors / bins, TableTemplate.columns
    are references, not copies), and the plot representers and their
    post-treatment are reached by dynamic dispatch (getattr, self.post) that
    no call graph sees.  Rule: no function of valjean.javert modifies in
    place an object whose access path from one of its parameters ends in one
    of those data fields (or a parameter named like one): sort / fill / put /
    subscript store / augmented assignment / out= / numpy in-place functions,
    directly or through a callee of the package.  LIVE is itself checked:
    some representer returns templates that share objects with its result."""
    program = ctx.program
    memo = {}
    funcs = [f for f in program.all_functions()
             if f.module.name.startswith('valjean.javert') and
             f.parent is None]
    ctx.floor('DATA-INPLACE', len(funcs), 150, 'functions of valjean.javert')
    bad = 0
    sites = _call_site_origins(program, funcs)
    for func in funcs:
        program.consulted.add(func.module.relpath)
        seen = set()
        for pth, what, line, chain in _mutations(program, func, memo):
            if not _DATA_RE.search(pth):
                continue
            root = _re.split(r'[.\[~]', pth, 1)[0]
            origins = sites.get((func.key, root))
            if origins and origins <= {'fresh'}:
                # every caller in the package hands a template it has just
                # built (constructor, copy, literal): nothing is shared yet
                continue
            if root in ('self', 'cls') and func.name == '__init__':
                continue
            # a template class managing its OWN containers (join / append of
            # columns into self) is not a post-hoc modification of data
            if root == 'self' and func.cls is not None and \
                    func.module.name == 'valjean.javert.templates':
                continue
            key = (pth, what)
            if key in seen:
                continue
            seen.add(key)
            bad += 1
            where = chain[-1]
            ctx.violated(
                'DATA-INPLACE', func,
                f'{func.name}: {what} modifies `{pth}`',
                at=f'{program.func(where).module.relpath}:{line}',
                detail={'path': pth, 'through': list(chain),
                        'why': 'templates and their helpers receive the '
                               'live arrays of the datasets: an in-place '
                               'modification changes the inputs (and the '
                               'fingerprint) of the test that was '
                               'represented'})
    if not bad:
        ctx.holds('DATA-INPLACE', 'valjean.javert',
                  f'{len(funcs)} functions: no in-place modification of an '
                  f'object reached through a data field '
                  f'({", ".join(DATA_FIELDS)}) of a parameter',
                  nontrivial=True)


# ---------------------------------------------------------- ITER-STORE ---

ONE_SHOT = {'reversed', 'iter', 'map', 'filter', 'zip', 'enumerate',
            'chain', 'islice'}


def check_iter_store(ctx):
    """The inputs a test keeps are read more than once (evaluate(), data()
    for the fingerprint, evaluate() again): they must be re-iterable.  A
    one-shot iterator (reversed(), map(), zip(), a generator expression ...)
    handed to a Test constructor for a parameter the class stores on self is
    exhausted by the first reader: the second evaluation sees an empty input
    and the fingerprint changes between two looks."""
    from ..loader import ClassInfo
    program = ctx.program
    test = program.cls(TEST)
    tests = {c.key: c for c in program.subclasses(test)}
    n = 0
    bad = 0
    for func in program.all_functions():
        if not func.module.name.startswith('valjean.gavroche'):
            continue
        for call in [c for c in ast.walk(func.node)
                     if isinstance(c, ast.Call)]:
            klass = program.resolve_name_expr(func.module, call.func, func)
            if not isinstance(klass, ClassInfo) or klass.key not in tests:
                continue
            init = program.find_method(klass, '__init__')
            stored = set()
            if init is not None:
                for node in ast.walk(init.node):
                    if isinstance(node, ast.Assign) and isinstance(
                            node.value, ast.Name) and any(
                                isinstance(t, ast.Attribute) and dotted(
                                    t.value) == 'self'
                                for t in node.targets):
                        stored.add(node.value.id)
            n += 1
            for kwd in call.keywords:
                val = kwd.value
                one_shot = isinstance(val, ast.GeneratorExp) or (
                    isinstance(val, ast.Call) and isinstance(
                        val.func, ast.Name) and val.func.id in ONE_SHOT)
                if one_shot and (kwd.arg in stored or not stored):
                    bad += 1
                    program.consulted.add(func.module.relpath)
                    ctx.violated(
                        'ITER-STORE', func,
                        f'{func.name}: {klass.name}({kwd.arg}='
                        f'{txt(val)[:40]})', at=func.where(call),
                        detail='a one-shot iterator is stored in the test: '
                               'the first evaluate() / fingerprint exhausts '
                               'it, later readings get nothing')
    ctx.floor('ITER-STORE', n, 3, 'constructions of Test subclasses in '
              'valjean.gavroche')
    if not bad:
        ctx.holds('ITER-STORE', 'valjean.gavroche',
                  f'{n} constructions of tests: no one-shot iterator handed '
                  f'to a stored parameter', nontrivial=False)
