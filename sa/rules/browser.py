'''C17 - browser selections: CTOR-PROP, GUARDED-READ, COPY-IN, SELECT-SHAPE,
SELECT-ONE, MERGE-SHAPE, BRW-PURE.'''
import ast

from ..astutil import (txt, call_name, receiver, walk_local, get_arg, calls_in,
                       dotted)
from ..loader import AnalysisError
from .. import effects

MOD = 'valjean.eponine.browser'
BRW = f'{MOD}:Browser'


def _browser(program):
    return program.cls(BRW)


def _local_assigns(func):
    out = {}
    for node in walk_local(func.node):
        if isinstance(node, ast.Assign) and len(node.targets) == 1 and \
                isinstance(node.targets[0], ast.Name):
            out.setdefault(node.targets[0].id, []).append(node.value)
    return out


def _derives_from(expr, field, assigns, mutated=None, depth=0):
    '''True if expr is self.<field>, a copy of it, or a local built from it
    (possibly updated with something else afterwards).'''
    if depth > 4 or expr is None:
        return False
    if txt(expr) == f'self.{field}':
        return True
    if isinstance(expr, ast.Call) and call_name(expr) in (
            'copy', 'dict', 'deepcopy', 'OrderedDict'):
        inner = receiver(expr) if call_name(expr) == 'copy' and not \
            expr.args else (expr.args[0] if expr.args else None)
        return _derives_from(inner, field, assigns, mutated, depth + 1)
    if isinstance(expr, ast.Name):
        vals = assigns.get(expr.id, [])
        return bool(vals) and all(_derives_from(v, field, assigns, mutated,
                                                depth + 1) for v in vals)
    if isinstance(expr, ast.Dict) and any(
            k is None and _derives_from(v, field, assigns, mutated,
                                        depth + 1)
            for k, v in zip(expr.keys, expr.values)):
        return True
    return False


# ------------------------------------------------------------- CTOR-PROP --

def check_ctor_prop(ctx):
    program = ctx.program
    klass = _browser(program)
    init = klass.methods.get('__init__')
    if init is None:
        raise AnalysisError('Browser.__init__ not found')
    params = init.params
    if 'data_key' not in params or 'global_vars' not in params:
        raise AnalysisError('Browser.__init__ lost data_key / global_vars')
    found = 0
    for meth in klass.methods.values():
        assigns = _local_assigns(meth)
        for node in walk_local(meth.node):
            if not (isinstance(node, ast.Call) and isinstance(
                    node.func, ast.Name) and node.func.id in (
                        'Browser', klass.name)) and not (
                            isinstance(node, ast.Call) and txt(node.func) in
                            ('self.__class__', 'type(self)')):
                continue
            found += 1
            dkey = get_arg(node, params.index('data_key') - 1, 'data_key')
            gvar = get_arg(node, params.index('global_vars') - 1,
                           'global_vars')
            ctx.decide('CTOR-PROP', meth,
                       f'{txt(node)[:70]}: data_key from self.data_key',
                       dkey is not None and _derives_from(
                           dkey, 'data_key', assigns),
                       at=meth.where(node),
                       detail='a derived browser built with the default '
                              'data key indexes the data payload as '
                              'metadata')
            ctx.decide('CTOR-PROP', meth,
                       f'{txt(node)[:70]}: global_vars from self.globals',
                       gvar is not None and _derives_from(
                           gvar, 'globals', assigns),
                       at=meth.where(node))
    ctx.floor('CTOR-PROP', found, 2, 'Browser(...) inside Browser methods')


# ---------------------------------------------------------- GUARDED-READ --

def check_guarded_read(ctx):
    '''Every read self.index[k] / self.index[k][v] in a Browser method other
    than the index builder is guarded by a membership test (Index delegates
    __getitem__ to a defaultdict: an unguarded read inserts the key).'''
    program = ctx.program
    klass = _browser(program)
    index_cls = program.cls(f'{MOD}:Index')
    getitem = index_cls.methods.get('__getitem__')
    delegates = getitem is not None and any(
        isinstance(n, ast.Attribute) and n.attr == 'index'
        for n in ast.walk(getitem.node))
    init = index_cls.methods.get('__init__')
    is_dd = init is not None and any(
        isinstance(n, ast.Call) and call_name(n) == 'defaultdict'
        for n in ast.walk(init.node))
    if not (delegates and is_dd):
        ctx.undecided('GUARDED-READ', index_cls, 'Index is no longer a '
                      'defaultdict wrapper: the rule does not apply')
        return
    found = 0
    for meth in klass.methods.values():
        if meth.name in ('_build_index', '__init__'):
            continue
        info = effects._guard_info(meth)
        for node in walk_local(meth.node):
            if isinstance(node, ast.Subscript) and isinstance(
                    node.ctx, ast.Load):
                base = node.value
                is_idx = txt(base) == 'self.index' or (
                    isinstance(base, ast.Subscript) and
                    txt(base.value) == 'self.index')
                if not is_idx:
                    continue
                found += 1
                origin = info.origin(node)
                ctx.decide('GUARDED-READ', meth,
                           f'{meth.name}: read {txt(node)}',
                           True if origin in ('guarded', 'from-mapping')
                           else False if origin == 'unguarded-constant'
                           else None if origin == 'opaque' and
                           _is_param_key(meth, node) is False else False,
                           at=meth.where(node),
                           detail={'key_origin': origin,
                                   'why': 'an unguarded read of the '
                                          'defaultdict-backed index inserts '
                                          'the key: queries would grow the '
                                          'index (keys(), available_values '
                                          'and later selections change)'})
    ctx.floor('GUARDED-READ', found, 3, 'reads of self.index in query '
              'methods')


def _is_param_key(meth, node):
    '''Keys coming straight from the caller (parameters, **kwargs items) are
    arbitrary: an unguarded read with them is a violation, not undecided.'''
    key = node.slice
    if not isinstance(key, ast.Name):
        return False
    if key.id in meth.params:
        return True
    kwarg = meth.node.args.kwarg
    if kwarg is None:
        return False
    for sub in walk_local(meth.node):
        if isinstance(sub, (ast.For, ast.comprehension)) and any(
                isinstance(n, ast.Name) and n.id == key.id
                for n in ast.walk(sub.target)) and kwarg.arg in txt(sub.iter):
            return True
    return False


# --------------------------------------------------------------- COPY-IN --

def check_copy_in(ctx, analyzer):
    '''Browser.__init__ must not write into its `content` argument (the
    index builder annotates the items): the items are copied first.  Also
    global_vars is copied.'''
    program = ctx.program
    init = program.func(f'{BRW}.__init__')
    summ = analyzer.summary(init)
    pidx = {name: i for i, name in enumerate(init.params)}
    for pname in ('content', 'global_vars'):
        if pname not in pidx:
            raise AnalysisError(f'Browser.__init__ has no {pname}')
    effs = [e for e in summ.effects if e.root == pidx['content']]
    if effs:
        for eff in effs[:3]:
            ctx.violated('COPY-IN', init,
                         f'Browser(content): {eff.what}',
                         at=f'{eff.func.module.relpath}:{eff.lineno}',
                         detail='the constructor writes into the items it '
                                'was given (depth %d below the argument): '
                                'input dictionaries are modified. %s'
                                % (eff.depth, eff.describe()))
    else:
        ctx.holds('COPY-IN', init, 'Browser(content): no write reaches the '
                  'items passed in (items are copied before being '
                  'annotated)', at=init.where(),
                  detail={'functions_analysed': analyzer.functions_analysed})
    # the annotating store must exist (otherwise the rule is vacuous)
    build = program.func(f'{BRW}._build_index')
    stores = [n for n in walk_local(build.node)
              if isinstance(n, ast.Assign) and isinstance(
                  n.targets[0], ast.Subscript)]
    ctx.count('sites[COPY-IN-store]', len(stores))
    # stored fields do not alias the arguments
    ret_alias = []
    for node in walk_local(init.node):
        if isinstance(node, ast.Assign) and isinstance(
                node.targets[0], ast.Attribute) and txt(
                    node.targets[0].value) == 'self':
            if isinstance(node.value, ast.Name) and node.value.id in (
                    'content', 'global_vars'):
                ret_alias.append(node)
    for node in ret_alias:
        ctx.violated('COPY-IN', init, f'{txt(node)}: keeps a reference to '
                     f'the caller\'s object', at=init.where(node),
                     detail='later merges / filters would share and modify '
                            'the caller\'s object')
    if not ret_alias:
        ctx.holds('COPY-IN', init, 'content and global_vars are not stored '
                  'by reference', at=init.where())


# ---------------------------------------------------------- SELECT-SHAPE --

def _selection_comps(meth):
    '''List comprehensions selecting self.content[i] for i in ... '''
    out = []
    for node in walk_local(meth.node):
        if isinstance(node, ast.ListComp) and len(node.generators) == 1 and \
                'self.content' in txt(node.elt):
            out.append(node)
    return out


def _mentions_include_exclude(klass, meth, depth=0):
    '''Are both `include` and `exclude` (or names derived from them) read
    by a test of the method or of a helper they are handed to?'''
    from . import verdict as V
    hits = set()
    for par in ('include', 'exclude'):
        if par not in meth.params:
            return False
        derived = V.derived_names(meth.node, {par})
        for node in ast.walk(meth.node):
            if isinstance(node, (ast.If, ast.IfExp, ast.comprehension)):
                tests = [node.test] if not isinstance(
                    node, ast.comprehension) else node.ifs
                if any(V.mentions(t, derived) for t in tests):
                    hits.add(par)
            if isinstance(node, ast.Call) and depth < 2 and isinstance(
                    node.func, ast.Attribute) and dotted(
                        node.func.value) == 'self' and \
                    node.func.attr in klass.methods:
                helper = klass.methods[node.func.attr]
                hpars = [p for p in helper.params if p != 'self']
                for pos, arg in enumerate(node.args):
                    if V.mentions(arg, derived) and pos < len(hpars):
                        hder = V.derived_names(helper.node, {hpars[pos]})
                        if any((isinstance(t, (ast.If, ast.IfExp)) and
                                V.mentions(t.test, hder)) or (
                                    isinstance(t, ast.comprehension) and any(
                                        V.mentions(i, hder) for i in t.ifs))
                               for t in ast.walk(helper.node)):
                            hits.add(par)
    return hits == {'include', 'exclude'}


def check_select_shape(ctx):
    program = ctx.program
    klass = _browser(program)
    # (a) accumulation over criteria is an intersection starting from all
    fid = klass.methods.get('_filter_items_id_by')
    if fid is None:
        raise AnalysisError('Browser._filter_items_id_by not found')
    acc = []
    for node in walk_local(fid.node):
        if isinstance(node, ast.For) and 'kwargs' in txt(node.iter):
            for sub in ast.walk(node):
                if isinstance(sub, ast.Assign) and isinstance(
                        sub.targets[0], ast.Name) and \
                        sub.targets[0].id in txt(sub.value) and \
                        'self.index' in txt(sub.value):
                    acc.append((sub, sub.targets[0].id, sub.value))
                elif isinstance(sub, ast.AugAssign) and isinstance(
                        sub.target, ast.Name) and 'self.index' in txt(
                            sub.value):
                    acc.append((sub, sub.target.id, ast.BinOp(
                        left=sub.target, op=sub.op, right=sub.value)))
    ctx.floor('SELECT-SHAPE', len(acc), 1, 'accumulation of the criteria')
    for stmt, name, value in acc:
        kind = None
        if isinstance(value, ast.BinOp):
            kind = {ast.BitAnd: True, ast.BitOr: False, ast.Sub: False,
                    ast.BitXor: False}.get(type(value.op))
        elif isinstance(value, ast.Call) and call_name(value) in (
                'intersection',):
            kind = True
        elif isinstance(value, ast.Call) and call_name(value) in (
                'union', 'difference', 'symmetric_difference'):
            kind = False
        ctx.decide('SELECT-SHAPE', fid, f'{txt(stmt)}: criteria are '
                   f'intersected', kind, at=fid.where(stmt),
                   detail='an item is selected only if it matches every '
                          'criterion')
        # initial value: all positions
        init_vals = [n.value for n in walk_local(fid.node)
                     if isinstance(n, ast.Assign) and isinstance(
                         n.targets[0], ast.Name) and n.targets[0].id == name
                     and n is not stmt]
        first = init_vals[0] if init_vals else None
        good = first is not None and txt(first).replace(' ', '') in (
            'set(range(len(self.content)))', 'set(range(len(self)))')
        ctx.decide('SELECT-SHAPE', fid, f'{name} starts from '
                   f'{txt(first) if first is not None else "?"}',
                   True if good else None, at=fid.where(stmt))
    # (b) the selection of filter_by / select_by
    shapes = {}
    for mname in ('filter_by', 'select_by'):
        meth = klass.methods.get(mname)
        if meth is None:
            raise AnalysisError(f'Browser.{mname} not found')
        assigns = _local_assigns(meth)
        _scan_tuple_sources(meth)
        # order of the items: every comprehension that takes items out of
        # self.content by position iterates sorted(ids)
        for comp in _selection_comps(meth):
            gen = comp.generators[0]
            ordered = isinstance(gen.iter, ast.Call) and call_name(
                gen.iter) == 'sorted'
            ctx.decide('SELECT-SHAPE', meth,
                       f'{mname}: items taken in {txt(gen.iter)} order',
                       True if ordered else False if isinstance(
                           gen.iter, ast.Name) else None,
                       at=meth.where(comp),
                       detail='ids are a set: original order needs sorted()')
        # the include / exclude predicate: a comprehension with a filter
        # built from <include set>.issubset(item) / <exclude set>
        # .intersection(item); evaluated over the four cells
        # {has every required key} x {has a forbidden key}
        found = _include_exclude_filters(meth, assigns)
        if not found and _mentions_include_exclude(klass, meth):
            # the parameters reach SOME test (a loop with `continue`, a
            # helper): the filter is there, in a form this rule cannot
            # evaluate
            ctx.undecided('SELECT-SHAPE', meth, f'{mname}: include / exclude '
                          f'are applied in a form that is not a filtered '
                          f'comprehension', at=meth.where())
            continue
        if not found:
            ctx.violated('SELECT-SHAPE', meth, f'{mname}: include / exclude '
                         f'are never applied to the candidates',
                         at=meth.where())
            continue
        for comp, cond, removes, guards in found:
            table = {}
            for has_all in (True, False):
                for has_bad in (True, False):
                    val = _eval_keep(cond, has_all, has_bad, assigns)
                    if val is not None and removes:
                        val = not val
                    table[(has_all, has_bad)] = val
            want = {(True, False): True, (True, True): False,
                    (False, False): False, (False, True): False}
            ctx.count('decision_table_rows', 4)
            cond_ok = None if None in table.values() else table == want
            ctx.decide('SELECT-SHAPE', meth,
                       f'{mname}: an item is kept exactly when it has every '
                       f'required key and no forbidden key '
                       f'(`{txt(cond)[:70]}`)', cond_ok,
                       at=meth.where(comp),
                       detail={f'required_ok={k[0]},forbidden_present={k[1]}':
                               v for k, v in table.items()})
            bad_guards = [g for g in guards if not _emptiness_test(g)]
            ctx.decide('SELECT-SHAPE', meth,
                       f'{mname}: the include / exclude filter is applied '
                       f'to every candidate (guards: '
                       f'{[txt(g)[:40] for g in guards]})',
                       not bad_guards, at=meth.where(comp),
                       detail=f'the filter is skipped when '
                              f'`{txt(bad_guards[0])[:60]}` is false: a '
                              f'candidate that lacks a required key (or has '
                              f'a forbidden one) is then selected'
                       if bad_guards else None)
            shapes[mname] = ' '.join(sorted(txt(cond).replace(
                'self.content[i]', 'ITEM').replace('item', 'ITEM').split()))
    if len(shapes) == 2:
        one, two = shapes['filter_by'], shapes['select_by']
        ctx.decide('SELECT-SHAPE', klass,
                   'filter_by and select_by apply the same predicate',
                   True if one == two else None, at=klass.module.relpath,
                   detail={'filter_by': one, 'select_by': two},
                   nontrivial=False)


def _include_exclude_filters(meth, assigns):
    '''[(comprehension, condition, removes?, enclosing if-tests)].'''
    parents = {}
    for node in ast.walk(meth.node):
        for child in ast.iter_child_nodes(node):
            parents[id(child)] = node
    out = []
    for comp in walk_local(meth.node):
        if not isinstance(comp, (ast.ListComp, ast.SetComp,
                                 ast.GeneratorExp)):
            continue
        conds = [c for gen in comp.generators for c in gen.ifs]
        if not conds:
            continue
        cond = conds[0] if len(conds) == 1 else ast.BoolOp(op=ast.And(),
                                                          values=conds)
        srcs = {_set_source(receiver(c), assigns) for c in ast.walk(cond)
                if isinstance(c, ast.Call) and receiver(c) is not None}
        if not srcs & {'include', 'exclude'}:
            continue
        # is the comprehension the set of REJECTED items (x -= {...})?
        removes = False
        cur = comp
        guards = []
        while parents.get(id(cur)) is not None:
            par = parents[id(cur)]
            if isinstance(par, ast.AugAssign) and isinstance(par.op,
                                                             ast.Sub):
                removes = True
            if isinstance(par, ast.Call) and call_name(par) in (
                    'difference', 'difference_update') and cur in par.args:
                removes = True
            if isinstance(par, ast.BinOp) and isinstance(par.op, ast.Sub) \
                    and cur is par.right:
                removes = True
            if isinstance(par, ast.If) and (cur in par.body or any(
                    cur is s for s in par.body)):
                guards.append(par.test)
            elif isinstance(par, ast.If) and cur in par.orelse:
                guards.append(ast.UnaryOp(op=ast.Not(), operand=par.test))
            cur = par
        out.append((comp, cond, removes, guards))
    return out


def _eval_keep(cond, has_all, has_bad, assigns):
    if isinstance(cond, ast.BoolOp):
        vals = [_eval_keep(v, has_all, has_bad, assigns)
                for v in cond.values]
        if None in vals:
            return None
        return all(vals) if isinstance(cond.op, ast.And) else any(vals)
    if isinstance(cond, ast.UnaryOp) and isinstance(cond.op, ast.Not):
        val = _eval_keep(cond.operand, has_all, has_bad, assigns)
        return None if val is None else not val
    if isinstance(cond, ast.Call) and receiver(cond) is not None:
        src = _set_source(receiver(cond), assigns)
        cname = call_name(cond)
        if src == 'include' and cname == 'issubset':
            return has_all
        if src == 'include' and cname == 'difference':
            return not has_all          # non-empty difference: a key lacks
        if src == 'exclude' and cname == 'intersection':
            return has_bad
        if src == 'exclude' and cname == 'isdisjoint':
            return not has_bad
    return None


def _emptiness_test(test):
    '''A guard that only asks whether include / exclude are empty: skipping
    the filter is then harmless.'''
    for node in ast.walk(test):
        if isinstance(node, ast.Name) and node.id not in (
                'include', 'exclude', 'sincl', 'sexcl', 'bool', 'len'):
            return False
        if isinstance(node, (ast.Attribute, ast.Subscript)):
            return False
        if isinstance(node, ast.Call) and call_name(node) not in ('bool',
                                                                  'len'):
            return False
    return True


def _set_source(expr, assigns):
    '''"include" / "exclude" when expr is set(include) or a local bound to
    it.'''
    if isinstance(expr, ast.Name):
        if expr.id in ('include', 'exclude'):
            return expr.id
        for val in assigns.get(expr.id, []):
            res = _set_source(val, assigns)
            if res:
                return res
        # tuple assignment sincl, sexcl = set(include), set(exclude)
        return _TUPLE_SRC.get(expr.id)
    if isinstance(expr, ast.Call) and call_name(expr) in ('set',
                                                          'frozenset') \
            and expr.args:
        return _set_source(expr.args[0], assigns)
    return None


_TUPLE_SRC = {}


def _scan_tuple_sources(meth):
    _TUPLE_SRC.clear()
    for node in walk_local(meth.node):
        if isinstance(node, ast.Assign) and isinstance(
                node.targets[0], ast.Tuple) and isinstance(
                    node.value, ast.Tuple):
            for tgt, val in zip(node.targets[0].elts, node.value.elts):
                if isinstance(tgt, ast.Name):
                    src = _set_source(val, {})
                    if src:
                        _TUPLE_SRC[tgt.id] = src


# ------------------------------------------------------------ SELECT-ONE --

def check_select_one(ctx):
    '''select_by over the number of matching items {0, 1, 2+}: raises the
    documented NoItem error on 0, TooManyItems on 2+, returns the item on
    1.'''
    program = ctx.program
    meth = program.func(f'{BRW}.select_by')
    comps = _selection_comps(meth)
    var = None
    for node in walk_local(meth.node):
        if isinstance(node, ast.Assign) and node.value in comps and \
                isinstance(node.targets[0], ast.Name):
            var = node.targets[0].id
    if var is None:
        # however the list is computed (a helper, a loop): it is the name
        # whose single element is returned
        returned = {txt(n.value.value) for n in walk_local(meth.node)
                    if isinstance(n, ast.Return) and isinstance(
                        n.value, ast.Subscript) and isinstance(
                            n.value.value, ast.Name) and
                    txt(n.value.slice) == '0'}
        if len(returned) == 1:
            var = returned.pop()
    if var is None:
        ctx.undecided('SELECT-ONE', meth, 'selected list not bound to a '
                      'name', at=meth.where())
        return
    table = {}
    def walk_block(stmts, cell):
        '''Outcome of the block for `cell` items: follows the tests on
        len(var) into nested if / else blocks.'''
        for stmt in stmts:
            if isinstance(stmt, ast.If):
                val = _eval_len(stmt.test, var, cell)
                if val is None:
                    if any(isinstance(n, (ast.Return, ast.Raise))
                           for n in ast.walk(stmt)):
                        return 'undecided'
                    continue
                res = walk_block(stmt.body if val else stmt.orelse, cell)
                if res:
                    return res
            elif isinstance(stmt, ast.Return):
                return _ret_kind(stmt, var)
            elif isinstance(stmt, ast.Raise):
                return 'raise ' + _exc_name(stmt)
        return None
    for cell in (0, 1, 2, 3, 50):
        table[cell] = walk_block(meth.node.body, cell) or 'falls off'
    ctx.count('decision_table_rows', 5)
    want = {0: 'raise NoItemBrowserError', 1: 'return item',
            2: 'raise TooManyItemsBrowserError',
            3: 'raise TooManyItemsBrowserError',
            50: 'raise TooManyItemsBrowserError'}
    cond = None if 'undecided' in table.values() else table == want
    ctx.decide('SELECT-ONE', meth, f'select_by over len({var}) in 0/1/2/3/50: '
               f'{table}', cond, at=meth.where(),
               detail={'expected': want})


def _eval_len(test, var, cell):
    if isinstance(test, ast.UnaryOp) and isinstance(test.op, ast.Not):
        if txt(test.operand) == var:
            return cell == 0
        inner = _eval_len(test.operand, var, cell)
        return None if inner is None else not inner
    if txt(test) == var:
        return cell > 0
    if isinstance(test, ast.Compare) and len(test.ops) == 1 and \
            txt(test.left) == f'len({var})' and isinstance(
                test.comparators[0], ast.Constant):
        num = test.comparators[0].value
        oper = type(test.ops[0])
        # cell 2 stands for "2 or more": decide only when every n >= 2
        # gives the same answer
        def cmp(n):
            return {ast.Eq: n == num, ast.NotEq: n != num, ast.Lt: n < num,
                    ast.LtE: n <= num, ast.Gt: n > num,
                    ast.GtE: n >= num}.get(oper)
        return cmp(cell)
    return None


def _first_exit(stmts, var):
    for stmt in stmts:
        if isinstance(stmt, ast.Raise):
            return 'raise ' + _exc_name(stmt)
        if isinstance(stmt, ast.Return):
            return _ret_kind(stmt, var)
    return None


def _exc_name(stmt):
    exc = stmt.exc
    if isinstance(exc, ast.Call):
        exc = exc.func
    return txt(exc).split('.')[-1] if exc is not None else '?'


def _ret_kind(stmt, var):
    if stmt.value is not None and txt(stmt.value) in (f'{var}[0]',
                                                     f'{var}[-1]',
                                                     f'{var}.pop()'):
        return 'return item'
    return 'return ' + (txt(stmt.value) if stmt.value is not None else
                        'None')


# ----------------------------------------------------------- MERGE-SHAPE --

def check_merge_shape(ctx):
    program = ctx.program
    meth = program.func(f'{BRW}.merge')
    assigns = _local_assigns(meth)
    found = 0
    for node in walk_local(meth.node):
        if isinstance(node, ast.Return) and isinstance(
                node.value, ast.Call) and call_name(node.value) == 'Browser':
            found += 1
            arg = node.value.args[0] if node.value.args else None
            while isinstance(arg, ast.Name) and len(assigns.get(
                    arg.id, [])) == 1:
                arg = assigns[arg.id][0]
            good = isinstance(arg, ast.BinOp) and isinstance(
                arg.op, ast.Add) and txt(arg.left) == 'self.content' and \
                txt(arg.right) == 'other.content'
            swapped = isinstance(arg, ast.BinOp) and isinstance(
                arg.op, ast.Add) and txt(arg.left) == 'other.content'
            ctx.decide('MERGE-SHAPE', meth, f'merge content = '
                       f'{txt(arg) if arg is not None else "?"}',
                       True if good else False if swapped else None,
                       at=meth.where(node),
                       detail='concatenation: items of self, then of other')
    ctx.floor('MERGE-SHAPE', found, 1, 'return Browser(...) in merge')


# -------------------------------------------------------------- BRW-PURE --

QUERY_METHODS = ('merge', 'filter_by', 'select_by', 'keys',
                 'available_values', '_filter_items_id_by',
                 '_filter_index_by', '__contains__', '__len__', 'is_empty',
                 '__eq__', '__ne__', '__str__', '__repr__')


def check_brw_pure(ctx, analyzer):
    '''No query / merge method writes into self, the other browser, their
    items, their globals or their index.'''
    program = ctx.program
    klass = _browser(program)
    n = 0
    for mname in QUERY_METHODS:
        meth = klass.methods.get(mname)
        if meth is None:
            continue
        n += 1
        summ = analyzer.summary(meth)
        effs = [e for e in summ.effects]
        if effs:
            for eff in effs[:4]:
                pname = meth.params[eff.root] if eff.root < len(
                    meth.params) else f'arg{eff.root}'
                ctx.violated('BRW-PURE', meth,
                             f'{mname}: {eff.what} (reaches `{pname}`'
                             f'{"." + eff.field if eff.field else ""})',
                             at=f'{eff.func.module.relpath}:{eff.lineno}',
                             detail=eff.describe())
        else:
            ctx.holds('BRW-PURE', meth, f'{mname}: no write reaches self / '
                      f'other / their items, globals or index',
                      at=meth.where(), nontrivial=bool(summ.returns) or
                      mname in ('merge', 'filter_by', 'select_by'))
    ctx.floor('BRW-PURE', n, 10, 'query methods of Browser')
    # Index.keep_only builds a new Index and leaves self alone
    keep = program.func(f'{MOD}:Index.keep_only')
    summ = analyzer.summary(keep)
    effs = [e for e in summ.effects if e.root == 0]
    ctx.decide('BRW-PURE', keep, 'Index.keep_only: no write into the index '
               'it filters', not effs, at=keep.where(),
               detail=effs[0].describe() if effs else None)


# ---------------------------------------------------------- INDEX-BUILD ---

def check_index_build(ctx):
    """Browser._build_index: every item is registered under each of its
    metadata keys (all but the data key) with its position in THIS browser.
    An item taken from another browser already carries an 'index' entry (its
    position there): the new position must be stored BEFORE the keys of the
    item are walked (or 'index' must be left out of the walk and registered
    apart), otherwise the old position is indexed too and select_by(index=k)
    finds items that are not at k."""
    program = ctx.program
    klass = program.cls('valjean.eponine.browser:Browser')
    meth = klass.methods.get('_build_index')
    if meth is None:
        raise AnalysisError('Browser._build_index not found')
    program.consulted.add(meth.module.relpath)
    outer = [n for n in walk_local(meth.node) if isinstance(n, ast.For) and
             'content' in txt(n.iter)]
    ctx.floor('INDEX-BUILD', len(outer), 1, 'loop over the content in '
              '_build_index')
    loop = outer[0]
    tnames = [n.id for n in ast.walk(loop.target) if isinstance(n, ast.Name)]
    pos_var = tnames[0] if 'enumerate' in txt(loop.iter) and tnames else None
    elt_var = tnames[-1] if tnames else None
    store_idx = walk_idx = None
    key_loop = None
    for idx, stmt in enumerate(loop.body):
        if isinstance(stmt, ast.Assign) and any(
                isinstance(t, ast.Subscript) and txt(t.value) == elt_var and
                isinstance(t.slice, ast.Constant) and
                t.slice.value == 'index' for t in stmt.targets):
            store_idx = idx
            ctx.decide('INDEX-BUILD', meth,
                       f"the item records its position: {txt(stmt)}",
                       txt(stmt.value) == pos_var, at=meth.where(stmt))
        if isinstance(stmt, ast.For) and elt_var in txt(stmt.iter) and \
                walk_idx is None:
            walk_idx = idx
            key_loop = stmt
    if store_idx is None or key_loop is None:
        ctx.undecided('INDEX-BUILD', meth, 'position store / walk over the '
                      'keys not recognised', at=meth.where(loop))
        return
    excludes_index = any(
        isinstance(n, ast.Compare) and any(
            isinstance(c, ast.Constant) and c.value == 'index'
            for c in [n.left] + n.comparators)
        for n in ast.walk(key_loop))
    ctx.decide('INDEX-BUILD', meth,
               "the new position is stored before the keys of the item are "
               "indexed (or 'index' is left out of the walk)",
               store_idx < walk_idx or excludes_index,
               at=meth.where(loop.body[store_idx]),
               detail=None if store_idx < walk_idx or excludes_index else
               "an item that comes from another browser (filter_by, merge) "
               "still has its old 'index' when its keys are walked: both "
               "positions are registered")
    # the only key left out is the data key
    guards = [n for n in ast.walk(key_loop) if isinstance(n, ast.If)]
    for guard in guards:
        names_ = {dotted(x) for x in ast.walk(guard.test)
                  if isinstance(x, (ast.Attribute, ast.Name))}
        ok = 'self.data_key' in names_ or (
            excludes_index and "'index'" in txt(guard.test))
        ctx.decide('INDEX-BUILD', meth,
                   f'keys left out of the index: `{txt(guard.test)[:50]}`',
                   True if ok else None, at=meth.where(guard))
    adds = [c for c in calls_in(key_loop) if call_name(c) == 'add']
    for call in adds:
        ctx.decide('INDEX-BUILD', meth,
                   f'registered id: {txt(call)[:60]}',
                   bool(call.args) and txt(call.args[0]) == pos_var,
                   at=meth.where(call))


# --------------------------------------------------------- INDEX-OWNER ---

def check_index_owner(ctx):
    """The index of a Browser is a function of its content: it is assigned in
    exactly one place, the constructor, from `_build_index()` over the
    content stored there.  Any other assignment of `.content` / `.index` of a
    Browser (a sub-browser whose index is DERIVED from the parent's - stripped
    and renumbered - instead of rebuilt) lets the two disagree: the generic
    renumbering maps the ids inside the sets but not the values of the
    'index' key, which are ids themselves."""
    program = ctx.program
    mod = program.module('valjean.eponine.browser')
    program.consulted.add(mod.relpath)
    n = 0
    for func in mod.functions.values():
        if func.cls is None or func.cls.name != 'Browser':
            continue
        for node in walk_local(func.node):
            if not isinstance(node, ast.Assign):
                continue
            for tgt in node.targets:
                if isinstance(tgt, ast.Attribute) and tgt.attr in (
                        'index', 'content'):
                    n += 1
                    own = func.name == '__init__' and dotted(
                        tgt.value) == 'self'
                    built = tgt.attr != 'index' or (
                        isinstance(node.value, ast.Call) and
                        call_name(node.value) == '_build_index')
                    if own and built:
                        ctx.holds('INDEX-OWNER', func,
                                  f'{func.name}: {txt(node)[:60]}',
                                  at=func.where(node))
                        continue
                    # an index derived from another one can only be right
                    # if the 'index' key - whose VALUES are ids - gets a
                    # treatment of its own: look for it in the function and
                    # in what it calls
                    handles = False
                    todo, seen = [func], set()
                    while todo:
                        cur = todo.pop()
                        if cur.key in seen or len(seen) > 12:
                            continue
                        seen.add(cur.key)
                        if any(isinstance(c, ast.Constant) and
                               c.value == 'index'
                               for c in ast.walk(cur.node)):
                            handles = True
                        for call in calls_in(cur.node):
                            cands, how = program.resolve_call(cur, call)
                            if how == 'by-unique-name' and call_name(
                                    call) in effects.NOT_BY_NAME:
                                continue
                            for cand in cands[:2]:
                                if cand.module is mod and cand.name not in (
                                        '_build_index', '__init__'):
                                    todo.append(cand)
                    ctx.decide('INDEX-OWNER', func,
                               f'{func.name}: {txt(node)[:60]}',
                               None if handles else False,
                               at=func.where(node),
                               detail='content / index of a Browser set '
                                      'outside the constructor, the index '
                                      'not rebuilt from the content: the '
                                      'derivation never treats the '
                                      "'index' key, whose values are ids "
                                      'themselves' if not handles else
                                      'derived index: not decided')
    ctx.floor('INDEX-OWNER', n, 2, 'assignments of content / index in '
                                   'Browser')


# ---------------------------------------------------------- DIRECT-PICK ---

def check_direct_pick(ctx):
    """select_by returns THE item that matches: it goes through the same
    selection as filter_by.  A short cut that subscripts the content list
    with a value supplied by the caller (`self.content[kwargs['index']]`)
    inherits Python's negative indexing: index=-1 returns the last item,
    whose 'index' is not -1, where the selection finds nothing and
    NoItemBrowserError is documented."""
    from . import verdict as V
    program = ctx.program
    klass = program.cls('valjean.eponine.browser:Browser')
    meth = klass.methods.get('select_by')
    if meth is None:
        raise AnalysisError('Browser.select_by not found')
    seeds = {p for p in meth.params if p not in ('self',)}
    for extra in (meth.node.args.vararg, meth.node.args.kwarg):
        if extra is not None:
            seeds.add(extra.arg)
    # values the CALLER chose: the parameters and what is read out of them
    # (not the ids computed by the selection from the index)
    user = set(seeds)
    for node in walk_local(meth.node):
        if isinstance(node, ast.Assign) and len(node.targets) == 1 and \
                isinstance(node.targets[0], ast.Name) and isinstance(
                    node.value, (ast.Subscript, ast.Name, ast.Call)) and \
                isinstance(getattr(node.value, 'value', node.value),
                           ast.Name) and getattr(
                               node.value, 'value', node.value).id in seeds:
            user.add(node.targets[0].id)
    n = 0
    for node in walk_local(meth.node):
        if isinstance(node, ast.Subscript) and dotted(node.value) in (
                'self.content', 'self._content') and isinstance(
                    node.ctx, ast.Load) and not isinstance(
                        node.slice, ast.Constant):
            n += 1
            from_user = V.mentions(node.slice, user)
            conds = V.path_condition(meth.node, node)
            guarded = any(
                isinstance(c, ast.Compare) and any(
                    isinstance(o, (ast.GtE, ast.LtE, ast.Lt, ast.Gt))
                    for o in c.ops) and any(
                        isinstance(k, ast.Constant) and k.value == 0
                        for k in [c.left] + c.comparators)
                for t, _ in conds for c in ast.walk(t))
            ctx.decide('DIRECT-PICK', meth,
                       f'select_by: {txt(node)[:50]} picked directly',
                       True if not from_user else None if guarded else False,
                       at=meth.where(node),
                       detail=None if not from_user or guarded else
                       'a negative value supplied by the caller wraps '
                       'around: an item is returned although none matches')
    if not n:
        ctx.holds('DIRECT-PICK', meth, 'select_by never subscripts the '
                  'content with a caller-supplied value', at=meth.where(),
                  nontrivial=False)


# ---------------------------------------------------------- VALUE-ORDER ---

def check_value_order(ctx):
    """Metadata values are arbitrary hashable objects (strings, numbers,
    tuples, None) and one key may hold several types: they cannot be
    ORDERED.  sorted() / min() / max() / list.sort() applied to the values of
    a key (available_values(k), index[k] and its keys / items) needs a `key=`
    that maps them to one comparable type (the shipped __str__ uses key=str);
    without it a TypeError leaves the method - a selection on a wrong value
    raises instead of returning an empty Browser."""
    program = ctx.program
    klass = program.cls(BRW)
    program.consulted.add(klass.module.relpath)
    n = 0
    for meth in [m for k in klass.module.classes.values()
                 for m in k.methods.values()]:
        # names bound to the per-key dictionaries of values
        valued = set()
        for node in ast.walk(meth.node):
            if isinstance(node, (ast.For, ast.comprehension)) and \
                    isinstance(node.iter, ast.Call) and \
                    'index' in txt(node.iter) and isinstance(
                        node.target, ast.Tuple) and len(
                            node.target.elts) == 2:
                inner, pair = node.iter, node.target
                while isinstance(inner, ast.Call) and inner.args and \
                        call_name(inner) in ('enumerate', 'sorted', 'list'):
                    if call_name(inner) == 'enumerate' and isinstance(
                            pair, ast.Tuple) and len(pair.elts) == 2:
                        pair = pair.elts[1]
                    inner = inner.args[0]
                if isinstance(inner, ast.Call) and call_name(inner) == \
                        'items' and txt(receiver(inner)).endswith('index') \
                        and isinstance(pair, ast.Tuple) and len(
                            pair.elts) == 2:
                    for sub in ast.walk(pair.elts[1]):
                        if isinstance(sub, ast.Name):
                            valued.add(sub.id)

        def is_values(expr):
            for sub in ast.walk(expr):
                if isinstance(sub, ast.Call) and call_name(sub) == \
                        'available_values':
                    return True
                if isinstance(sub, ast.Subscript) and txt(
                        sub.value).endswith('index'):
                    return True
                if isinstance(sub, ast.Name) and sub.id in valued:
                    return True
            return False
        for call in calls_in(meth.node):
            target = None
            if isinstance(call.func, ast.Name) and call.func.id in (
                    'sorted', 'min', 'max') and call.args:
                target = call.args[0]
            elif call_name(call) == 'sort' and receiver(call) is not None:
                target = receiver(call)
            if target is None or not is_values(target):
                continue
            n += 1
            keyed = any(k.arg == 'key' for k in call.keywords)
            ctx.decide('VALUE-ORDER', meth,
                       f'{meth.name}: {txt(call)[:60]} orders metadata '
                       f'values ' + ('through key=' if keyed else
                                     'directly'), keyed,
                       at=meth.where(call),
                       detail=None if keyed else
                       'values of different types under one key (1 and '
                       '"a", a tuple and None) are not comparable: '
                       'TypeError')
    ctx.floor('VALUE-ORDER', n, 1, 'orderings of metadata values in Browser '
              '(__str__ sorts them with key=str)')
